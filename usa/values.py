"""Abstract values of the symbolic constant-propagation domain (D2) and the term /
ownership / dtype domains (D3, D4, D5)."""
from __future__ import annotations

import ast
from dataclasses import dataclass, field
from typing import Any, Dict, FrozenSet, List, Optional, Tuple

import sympy as sp


class Unknown:
    """Top of the lattice: a value the domain cannot represent."""

    def __init__(self, why: str = ""):
        self.why = why

    def __repr__(self) -> str:
        return f"Unknown({self.why})"


class _Bottom:
    def __repr__(self) -> str:
        return "Bottom"


BOTTOM = _Bottom()  # "no value": the evaluation raised on this guard


@dataclass(frozen=True)
class T:
    """An immutable term: the dataflow expression of an opaque (tensor/object) value."""

    op: str
    args: Tuple[Any, ...] = ()

    def __repr__(self) -> str:
        return fmt(self)


def fmt(x: Any) -> str:
    if isinstance(x, T):
        if x.op == "param":
            return str(x.args[0])
        if x.op == "call":
            name, bound = x.args
            inner = ", ".join(f"{k}={fmt(v)}" for k, v in bound)
            return f"{name}({inner})"
        if x.op == "scale":
            t, f, b = x.args
            return f"scale[{fmt(t)}; fwd={fmt(f)}, bwd={fmt(b)}]"
        return f"{x.op}({', '.join(fmt(a) for a in x.args)})"
    if isinstance(x, TV):
        return fmt(x.term)
    if isinstance(x, Gamma):
        return f"γ({fmt(x.cond)} ? {fmt(x.a)} : {fmt(x.b)})"
    if isinstance(x, tuple):
        return "(" + ", ".join(fmt(a) for a in x) + ("," if len(x) == 1 else "") + ")"
    if isinstance(x, list):
        return "[" + ", ".join(fmt(a) for a in x) + "]"
    if isinstance(x, Obj):
        return fmt(x.term) if x.term is not None else f"<{x.cls_name}#{x.ident}>"
    if isinstance(x, sp.Basic):
        return sp.sstr(x)
    return repr(x)


class Shape(tuple):
    """torch.Size: a tuple of dimension expressions."""

    def numel(self):
        r: Any = 1
        for d in self:
            r = r * d
        return r

    def __getitem__(self, i):  # type: ignore[override]
        r = tuple.__getitem__(self, i)
        return Shape(r) if isinstance(i, slice) else r


class OneShot(tuple):
    """A generator / map object: the elements are computed when it is created, but it can
    be iterated only once (a second iteration yields nothing), as in Python."""

    consumed = False
    pos = 0  # elements before this index were taken by next()


class NTuple(tuple):
    """Instance of a typing.NamedTuple subclass defined in the repository: a tuple whose
    positions also have field names and whose class may define methods."""

    fields: tuple = ()
    cls: Any = None

    @staticmethod
    def make(cls: Any, fields: Any, vals: Any) -> "NTuple":
        r = NTuple(vals)
        r.fields = tuple(fields)
        r.cls = cls
        return r


class CtxGen:
    """The object returned by calling a @contextmanager generator function of the repository."""

    def __init__(self, func: Any, args: Any, kwargs: Any):
        self.func, self.args, self.kwargs = func, args, kwargs


class DefaultDictV(dict):
    """collections.defaultdict / Counter: a dict with a factory for missing keys."""

    factory: Any = None
    is_counter = False


class IdInt(int):
    """The result of id(obj): an int that remembers whose identity it is (a key built from it stays valid only
    while that object is alive)."""

    of: Any = None


class ClassDictV(dict):
    """Instance of a repository class that derives from dict (typing.Dict[...], OrderedDict, ...): a dict
    that also has a class (methods, special methods) and instance attributes."""

    cls: Any = None
    term: Any = None

    def __init__(self, *a: Any, **k: Any) -> None:
        super().__init__(*a, **k)
        self.attrs: Dict[str, Any] = {}


class GenV:
    """A generator object of a repository generator function: its body runs lazily, one step per
    next(), as a coroutine (own thread, strictly alternating with the consumer)."""

    def __init__(self, func: Any, env: Any):
        import threading

        self.func, self.env = func, env
        self.state = "new"  # new | suspended | running | done
        self.outcome: Any = None  # ("yield", v) | ("done", v) | ("raise", None)
        self.exc: Any = None
        self.to_gen = threading.Semaphore(0)
        self.to_con = threading.Semaphore(0)
        self.saved_call: list = []
        self.saved_depth = 0
        self.saved_guard: list = []
        self.saved_mod: Any = None
        self.base: Any = None
        self.thread: Any = None


class LiveIter:
    """iter() over a live linked list (torch.fx graph.nodes): next() follows the list as it is *now*."""

    def __init__(self, live: Any):
        self.live, self.cur, self.started, self.done = live, None, False, False


class Repeat:
    """itertools.repeat(value) without a count: an endless iterable (usable in zip / map)."""

    def __init__(self, value: Any):
        self.value = value


class Maybe:
    """An element that is a member of a sequence only when `cond` holds (result of a
    comprehension filter that cannot be decided statically)."""

    def __init__(self, cond: Any, value: Any):
        self.cond, self.value = cond, value


GRAD_MODE = [0]  # nesting depth of `with torch.no_grad()` / `torch.inference_mode()` regions being interpreted


class TV:
    """Abstract tensor: term + (optional) shape + dtype typestate + alias set + grad-mode typestate."""

    def __init__(
        self,
        term: T,
        shape: Optional[Shape] = None,
        dtype: Any = None,
        alias: FrozenSet[str] = frozenset(),
        const: Any = None,
        kind: str = "tensor",
    ):
        self.kind = kind  # "tensor" (values matter) | "opaque" (non-tensor object/flag)
        self.term = term
        self.shape = shape
        self.dtype = dtype  # "torch.float32" | ("same", param) | None (unknown)
        self.alias = alias  # parameters this value may share storage with
        self.const = const  # scalar expression if this is tensor(<python scalar>)
        self.nograd = GRAD_MODE[0] > 0  # created while autograd recording was switched off by the analysed code

    def __repr__(self) -> str:
        return f"TV<{fmt(self.term)}>"


class Gamma:
    """Gated join γ(cond, a, b) of two values at an undecidable branch."""

    def __init__(self, cond: Any, a: Any, b: Any):
        self.cond, self.a, self.b = cond, a, b

    def __repr__(self) -> str:
        return fmt(self)


_obj_counter = [0]


class Obj:
    """Abstract object with an attribute dictionary (modules, formats, parameters…)."""

    def __init__(self, cls_name: str, attrs: Optional[Dict[str, Any]] = None, cls: Any = None, term: Optional[T] = None, open_attrs: bool = True):
        _obj_counter[0] += 1
        self.ident = _obj_counter[0]
        self.cls_name = cls_name  # dotted external name or repo qualname
        self.cls = cls  # ClassV when a repository class
        self.attrs: Dict[str, Any] = dict(attrs or {})
        self.term = term  # origin term for opaque objects
        self.open_attrs = open_attrs  # unknown attribute -> attr-term (else Unknown)
        self.stores: List[Tuple[str, Any]] = []  # attribute stores in program order
        self.dyn: Dict[str, Any] = {}  # computed attributes: name -> callable() (abstract library models)

    def __repr__(self) -> str:
        return fmt(self)


@dataclass(eq=False)
class FuncV:
    node: Any  # ast.FunctionDef | ast.Lambda
    module: Any  # ModInfo
    env: Any  # defining Env (closure) or None for module level
    qualname: str
    decorators: List[Any] = field(default_factory=list)
    transparent: bool = True  # False: an unknown decorator wraps it
    unsupported_args: Tuple[str, ...] = ()
    doc_target: Any = None  # ExtV named by @docstring_from
    cls: Any = None  # owning ClassV for methods
    kind: str = "function"  # function | staticmethod | property | classmethod
    pending: List[Any] = field(default_factory=list)  # decorator expressions not yet applied
    attrs: Dict[str, Any] = field(default_factory=dict)  # attributes stored on the function object
    wrapped: Any = None  # (expr, env, module) of the argument of @functools.wraps(...)
    memo: Any = None  # dict of cached results for functions under functools.lru_cache / cache
    registry: Any = None  # [(class value, implementation)] for functools.singledispatch functions

    def __repr__(self) -> str:
        return f"<fn {self.module.name}.{self.qualname}>"


@dataclass(eq=False)
class ClassV:
    node: ast.ClassDef
    module: Any
    qualname: str
    env: Any = None
    overrides: Dict[str, Any] = field(default_factory=dict)  # attributes assigned on the class object
    enum_members: Any = None  # name -> member object, for enum.Enum subclasses (built on first use)

    def __repr__(self) -> str:
        return f"<class {self.module.name}.{self.qualname}>"


@dataclass(frozen=True)
class ExtV:
    """A name living outside the repository (torch.nn.functional.linear, math.log…)."""

    name: str

    def __post_init__(self) -> None:
        # the `operator` module re-exports the C module `_operator`: one object, two spellings of its name
        if self.name.startswith("operator."):
            object.__setattr__(self, "name", "_" + self.name)

    def __repr__(self) -> str:
        return f"<ext {self.name}>"


@dataclass(eq=False)
class ModV:
    info: Any

    def __repr__(self) -> str:
        return f"<module {self.info.name}>"


@dataclass
class Bound:
    func: Any
    self_val: Any


@dataclass
class AutogradApply:
    cls: ClassV


# ----------------------------------------------------------------------- symbols


def dim(name: str) -> sp.Symbol:
    """A dimension size: positive integer."""
    return sp.Symbol(name, positive=True, integer=True)


def hyper(name: str) -> sp.Symbol:
    """A positive real hyper-parameter."""
    return sp.Symbol(name, positive=True)


FLOAT_KIND = [False]  # "number-kind" mode: python floats stay sympy Floats (inexact but kind-preserving)


def num(v: Any) -> Any:
    """Normalise a numeric value: python int stays, float -> exact Rational,
    sympy Integer -> int.  In number-kind mode (concrete runs that ask whether a python number is an int
    or a float) floats are kept as sympy Floats, which are contagious exactly as in Python."""
    if isinstance(v, bool):
        return v
    if isinstance(v, int):
        return v
    if FLOAT_KIND[0] and isinstance(v, float) and v == v and v not in (float("inf"), float("-inf")):
        return sp.Float(v, 30)
    if FLOAT_KIND[0] and isinstance(v, sp.Float):
        return v
    if isinstance(v, float):
        if v != v or v in (float("inf"), float("-inf")):
            return sp.oo if v > 0 else (-sp.oo if v < 0 else sp.nan)
        return num(sp.Rational(repr(v)))
    if isinstance(v, sp.Basic):
        if v.is_Integer:
            return int(v)
        if v is sp.true:
            return True
        if v is sp.false:
            return False
        return v
    return v


def is_num(v: Any) -> bool:
    return isinstance(v, (int, float)) and not isinstance(v, bool) or (
        isinstance(v, sp.Expr)
    )


def simp(e: Any) -> Any:
    if isinstance(e, sp.Basic):
        try:
            return num(sp.simplify(e))
        except Exception:
            return e
    return e
