"""Signatures of the PyTorch reference ops (parameter order and defaults).

Frozen table (trusted base), cross-checked against the *source text* of the installed
torch/nn/functional.py for the Python-defined ones (read with ast, never imported)."""
from __future__ import annotations

import ast
import sys
from pathlib import Path
from typing import Any, Dict, List, Optional, Tuple

REQ = "<required>"

SIGS: Dict[str, List[Tuple[str, Any]]] = {
    "torch.nn.functional.gelu": [("input", REQ), ("approximate", "none")],
    "torch.nn.functional.silu": [("input", REQ), ("inplace", False)],
    "torch.nn.functional.sigmoid": [("input", REQ)],
    "torch.sigmoid": [("input", REQ)],
    "torch.nn.functional.softmax": [("input", REQ), ("dim", None), ("_stacklevel", 3), ("dtype", None)],
    "torch.nn.functional.dropout": [("input", REQ), ("p", 0.5), ("training", True), ("inplace", False)],
    "torch.matmul": [("input", REQ), ("other", REQ), ("out", None)],
    "torch.nn.functional.linear": [("input", REQ), ("weight", REQ), ("bias", None)],
    "torch.nn.functional.conv1d": [("input", REQ), ("weight", REQ), ("bias", None), ("stride", 1), ("padding", 0), ("dilation", 1), ("groups", 1)],
    "torch.nn.functional.layer_norm": [("input", REQ), ("normalized_shape", REQ), ("weight", None), ("bias", None), ("eps", 1e-05)],
    "torch.nn.functional.rms_norm": [("input", REQ), ("normalized_shape", REQ), ("weight", None), ("eps", None)],
    "torch.add": [("input", REQ), ("other", REQ), ("alpha", 1), ("out", None)],
    "torch.nn.functional.embedding": [("input", REQ), ("weight", REQ), ("padding_idx", None), ("max_norm", None), ("norm_type", 2.0), ("scale_grad_by_freq", False), ("sparse", False)],
    "torch.nn.functional.scaled_dot_product_attention": [("query", REQ), ("key", REQ), ("value", REQ), ("attn_mask", None), ("dropout_p", 0.0), ("is_causal", False), ("scale", None), ("enable_gqa", False)],
    "torch.nn.functional.cross_entropy": [("input", REQ), ("target", REQ), ("weight", None), ("size_average", None), ("ignore_index", -100), ("reduce", None), ("reduction", "mean"), ("label_smoothing", 0.0)],
    "torch.nn.functional.mse_loss": [("input", REQ), ("target", REQ), ("size_average", None), ("reduce", None), ("reduction", "mean"), ("weight", None)],
    "torch.nn.functional.pad": [("input", REQ), ("pad", REQ), ("mode", "constant"), ("value", None)],
    "torch.clip": [("input", REQ), ("min", None), ("max", None)],
    "torch.clamp": [("input", REQ), ("min", None), ("max", None)],
    "torch.nn.init.normal_": [("tensor", REQ), ("mean", 0.0), ("std", 1.0), ("generator", None)],
    "torch.randint": [("low", REQ), ("high", REQ), ("size", REQ)],
}

KWONLY_AFTER: Dict[str, int] = {"torch.add": 2, "torch.matmul": 2}


def crosscheck_with_installed() -> List[str]:
    """Compare the frozen rows with torch/nn/functional.py's text; return mismatches."""
    problems: List[str] = []
    src = None
    for p in sys.path:
        cand = Path(p) / "torch" / "nn" / "functional.py"
        if cand.exists():
            src = cand
            break
    if src is None:
        return ["torch/nn/functional.py not found (table not cross-checked)"]
    tree = ast.parse(src.read_text())
    defs = {n.name: n for n in tree.body if isinstance(n, ast.FunctionDef)}
    for full, row in SIGS.items():
        if not full.startswith("torch.nn.functional."):
            continue
        short = full.rsplit(".", 1)[1]
        if short not in defs:
            continue  # C builtin: only the frozen row exists
        a = defs[short].args
        names = [x.arg for x in a.posonlyargs + a.args + a.kwonlyargs]
        mine = [n for n, _ in row]
        if names[: len(mine)] != mine:
            problems.append(f"{full}: installed {names} vs table {mine}")
    return problems
