"""Abstract interpreter: symbolic constant propagation (Kildall) over /repo's ASTs.

Scalars are closed-form sympy expressions over dimension / hyper-parameter symbols;
tensors and other opaque objects are immutable dataflow *terms*; undecidable branches
produce gated joins (γ-nodes) -- no feasibility reasoning, no solver.  Every side effect
of interest (scale primitive applications, reference-op calls, in-place effects,
attribute stores, raises) is logged as an Event carrying the guard it occurred under.

Nothing of the repository is imported or executed: the interpreter walks syntax trees.
"""
from __future__ import annotations

import collections as _collections

import ast
from dataclasses import dataclass, field
from typing import Any, Callable, Dict, List, Optional, Sequence, Tuple

import sympy as sp

from .core import AnalysisError, Module, Repo
from .values import (
    NTuple,
    CtxGen,
    GenV,
    BOTTOM,
    AutogradApply,
    Bound,
    ClassV,
    ExtV,
    FuncV,
    Gamma,
    Maybe,
    ModV,
    Obj,
    OneShot,
    Shape,
    T,
    TV,
    Unknown,
    fmt,
    num,
)


class Unsupported(AnalysisError):
    """A construct outside the fragment the domain can represent."""


@dataclass
class Event:
    kind: str
    guard: Tuple[Tuple[Any, bool], ...]
    data: Dict[str, Any]
    where: str = ""

    def __getitem__(self, k: str) -> Any:
        return self.data[k]

    def get(self, k: str, d: Any = None) -> Any:
        return self.data.get(k, d)


class Env:
    def __init__(self, parent: Optional["Env"] = None, vars: Optional[Dict[str, Any]] = None):
        self.parent = parent
        self.vars: Dict[str, Any] = dict(vars or {})
        self.outer_names: set = set()  # names declared nonlocal in this scope
        self.global_names: set = set()  # names declared global in this scope

    def set(self, name: str, value: Any) -> None:
        if name in self.outer_names:
            e = self.parent
            while e is not None:
                if name in e.vars:
                    e.vars[name] = value
                    return
                e = e.parent
        self.vars[name] = value

    def lookup(self, name: str) -> Tuple[bool, Any]:
        e: Optional[Env] = self
        while e is not None:
            if name in e.vars:
                return True, e.vars[name]
            e = e.parent
        return False, None

    def copy(self) -> "Env":
        c = Env(self.parent, dict(self.vars))
        c.outer_names = set(self.outer_names)
        c.global_names = set(self.global_names)
        return c


class ModInfo:
    def __init__(self, interp: "Interp", module: Module):
        self.interp = interp
        self.module = module
        self.name = module.name
        self.rel = module.rel
        self._thunks: Dict[str, Any] = {}
        self._cache: Dict[str, Any] = {}
        self._busy: set = set()
        self._init_done = False
        self._scan(module.tree.body)

    def _scan(self, body: Sequence[ast.stmt]) -> None:
        for st in body:
            if isinstance(st, ast.Import):
                for a in st.names:
                    if a.asname:
                        self._thunks[a.asname] = ("import", a.name)
                    else:
                        top = a.name.split(".")[0]
                        self._thunks[top] = ("import", top)
            elif isinstance(st, ast.ImportFrom):
                for a in st.names:
                    self._thunks[a.asname or a.name] = ("from", st.module, st.level, a.name)
            elif isinstance(st, (ast.FunctionDef, ast.AsyncFunctionDef)):
                self._thunks[st.name] = ("def", st)
            elif isinstance(st, ast.ClassDef):
                self._thunks[st.name] = ("class", st)
            elif isinstance(st, ast.Assign):
                for t in st.targets:
                    for nm, sel in _target_names(t):
                        self._thunks[nm] = ("assign", st.value, sel)
            elif isinstance(st, ast.AnnAssign) and st.value is not None:
                if isinstance(st.target, ast.Name):
                    self._thunks[st.target.id] = ("assign", st.value, None)
            elif isinstance(st, (ast.If, ast.Try)):
                self._scan(st.body)
                self._scan(getattr(st, "orelse", []) or [])

    def names(self) -> List[str]:
        return list(self._thunks)

    def binding_kind(self, name: str) -> Optional[str]:
        t = self._thunks.get(name)
        return t[0] if t else None

    def has(self, name: str) -> bool:
        return name in self._thunks

    def _module_effects(self) -> None:
        """Module-level statements with side effects on other globals -- registering decorators,
        bare calls, loops, item / attribute assignments -- run once, in order, before the first
        global of the module is handed out (all of them have run by the time any function is called)."""
        if self._init_done:
            return
        self._init_done = True
        it = self.interp

        def effectful(body: Sequence[ast.stmt]):
            for st in body:
                if isinstance(st, ast.ClassDef) and (st.keywords or any(isinstance(b_, ast.Name) and b_.id in self._thunks and self._thunks[b_.id][0] == "class" for b_ in st.bases)):
                    # a subclass of a class of this module (or one with class keywords): creating it may register it
                    # somewhere (__init_subclass__)
                    yield ("def", st)
                    continue
                if isinstance(st, (ast.FunctionDef, ast.AsyncFunctionDef, ast.ClassDef)):
                    for d in st.decorator_list:
                        dn = _dotted(d.func if isinstance(d, ast.Call) else d)
                        short = dn.split(".")[-1] if dn else None
                        if dn is None or (dn not in TRANSPARENT_DECORATORS and short not in TRANSPARENT_DECORATORS and short not in ("contextmanager", "no_grad", "inference_mode", "fixture", "parametrize", "skipif", "skip", "xfail")):
                            yield ("def", st)
                            break
                elif isinstance(st, ast.Expr) and isinstance(st.value, ast.Call):
                    yield ("stmt", st)
                elif isinstance(st, (ast.For, ast.AugAssign, ast.With, ast.While)):
                    yield ("stmt", st)
                elif isinstance(st, ast.Assign) and any(not isinstance(t, (ast.Name, ast.Tuple, ast.List)) for t in st.targets):
                    yield ("stmt", st)
                elif isinstance(st, ast.If) and not (isinstance(st.test, ast.Name) and st.test.id == "TYPE_CHECKING"):
                    yield from effectful(st.body)
                    yield from effectful(st.orelse)

        if "/tests/" in "/" + self.rel:
            return
        for kind, st in effectful(self.module.tree.body):
            try:
                if kind == "def":
                    if st.name in self._thunks and self._thunks[st.name][0] in ("def", "class") and self._thunks[st.name][1] is st:
                        self.get(st.name)
                    else:
                        # a later definition rebinds the name: still run this one's decorators
                        if isinstance(st, ast.ClassDef):
                            continue
                        it.decorate(it.make_func(st, self, None, st.name), None, self)
                else:
                    env = Env(None, {})
                    saved = it.cur_mod
                    it.cur_mod = self
                    try:
                        it.exec_stmts([st], env, self, lambda e: ("next", None))
                    finally:
                        it.cur_mod = saved
                    for k_, v_ in env.vars.items():
                        self._cache[k_] = v_
                        self._thunks.setdefault(k_, ("assign", ast.Constant(value=None), None))
            except Unsupported as e:
                Interp.note_gap(f"module-level statement at {self.rel}:{st.lineno} not modelled ({e})")

    def get(self, name: str) -> Any:
        if name in self._cache:
            return self._cache[name]
        if name not in self._thunks:
            raise KeyError(name)
        if not getattr(self, "_init_done", True) and self._thunks[name][0] not in ("import", "from"):
            self._module_effects()
            if name in self._cache:
                return self._cache[name]
        if name in self._busy:
            return Unknown(f"cyclic global {name}")
        self._busy.add(name)
        try:
            v = self._force(self._thunks[name])
        finally:
            self._busy.discard(name)
        self._cache[name] = v
        return v

    def _force(self, th: Any) -> Any:
        it = self.interp
        k = th[0]
        if k == "import":
            m = it.repo.module_by_name(th[1])
            if m is not None and th[1].startswith("unit_scaling"):
                return ModV(it.modinfo(m.rel))
            return ExtV(th[1])
        if k == "from":
            _, modname, level, name = th
            if level:
                base = self.name.split(".")
                if not self.module.is_pkg:
                    base = base[:-1]
                if level > 1:
                    base = base[: len(base) - (level - 1)]
                full = ".".join(base + ([modname] if modname else []))
            else:
                full = modname or ""
            if full.startswith("unit_scaling"):
                sub = it.repo.module_by_name(full + "." + name)
                if sub is not None:
                    return ModV(it.modinfo(sub.rel))
                m = it.repo.module_by_name(full)
                if m is None:
                    return Unknown(f"unresolved import {full}.{name}")
                mi = it.modinfo(m.rel)
                if mi.has(name):
                    return mi.get(name)
                return Unknown(f"{full} has no {name}")
            from .extlib import EXT_CONSTS

            if full + "." + name in EXT_CONSTS:
                return EXT_CONSTS[full + "." + name]
            return ExtV(_canon(full + "." + name))
        if k == "def":
            return it.decorate(it.make_func(th[1], self, None, th[1].name), None, self)
        if k == "class":
            cv_ = ClassV(th[1], self, th[1].name, None)
            it.class_created(cv_)
            return it.decorate_class(cv_, th[1], self)
        if k == "assign":
            try:
                v = it.eval(th[1], Env(None, {}), self)
            except Unsupported as e:
                return Unknown(f"global initialiser: {e}")
            sel = th[2]
            if sel is not None:
                for i in sel:
                    try:
                        v = v[i]
                    except Exception:
                        return Unknown("global unpack")
            return v
        return Unknown("global")


def _target_names(t: ast.AST, sel: Tuple[int, ...] = ()):
    if isinstance(t, ast.Name):
        yield t.id, (sel or None)
    elif isinstance(t, (ast.Tuple, ast.List)):
        for i, e in enumerate(t.elts):
            yield from _target_names(e, sel + (i,))


_CANON = {
    "torch.functional": "torch",
    "torch._C._nn": "torch.nn.functional",
}


def _canon(name: str) -> str:
    return name


TRANSPARENT_DECORATORS = {
    "docstring_from",
    "format_docstring",
    "inherit_docstring",
    "staticmethod",
    "property",
    "classmethod",
    "dataclass",
    "no_type_check",
    "wraps",
    "functools.wraps",
    "abstractmethod",
    "overload",
    "final",
}


def _contains_ctrl(stmts: Sequence[ast.stmt]) -> bool:
    for st in stmts:
        for n in _walk_no_defs(st):
            if isinstance(n, (ast.Return, ast.Raise, ast.Break, ast.Continue, ast.Assert)):
                return True
    return False


def _walk_no_defs(node: ast.AST):
    yield node
    if isinstance(node, (ast.FunctionDef, ast.AsyncFunctionDef, ast.ClassDef, ast.Lambda)):
        return  # a nested definition's body belongs to that definition
    for ch in ast.iter_child_nodes(node):
        if isinstance(ch, (ast.FunctionDef, ast.AsyncFunctionDef, ast.ClassDef, ast.Lambda)):
            continue
        yield from _walk_no_defs(ch)


class Interp:
    MAX_DEPTH = 60
    GAPS: List[str] = []  # unmodelled library idioms met during this process (any interpreter)

    @classmethod
    def note_gap(cls, what: str) -> None:
        if what not in cls.GAPS and len(cls.GAPS) < 50:
            cls.GAPS.append(what)

    def __init__(
        self,
        repo: Repo,
        opaque: Optional[Callable[[Any], bool]] = None,
        assume_asserts: bool = True,
    ):
        self.repo = repo
        self._mods: Dict[str, ModInfo] = {}
        self.events: List[Event] = []
        self.guard: List[Tuple[Any, bool]] = []
        self.depth = 0
        self.opaque = opaque or (lambda f: False)
        self.data_syms: Dict[sp.Symbol, Any] = {}
        self.assume_asserts = assume_asserts
        self.cur_mod: Optional[ModInfo] = None
        self.decide: Optional[Callable[[Any], Optional[bool]]] = None  # schema assumptions
        self.super_hook: Optional[Callable[..., Any]] = None  # model of external base-class methods
        self.ext_results: Dict[str, Any] = {}  # scenario-fixed answers of external process-state queries
        self.call_stack: List[str] = []
        self._with_stack: List[List[Any]] = []
        self._gen_current: Any = None
        self._handling: List[Dict[str, Any]] = []
        self._catching_attr_error = 0
        self._ctx_yield: List[Tuple[int, Any]] = []
        self._ctx_running: Any = None
        from . import extlib  # late import (extlib uses this module's names)

        self.ext = extlib

    # ------------------------------------------------------------------ modules
    def modinfo(self, rel: str) -> ModInfo:
        if rel not in self._mods:
            self._mods[rel] = ModInfo(self, self.repo.module(rel))
        return self._mods[rel]

    def get_global(self, rel: str, name: str) -> Any:
        mi = self.modinfo(rel)
        if not mi.has(name):
            raise AnalysisError(f"anchor vanished: {rel}::{name}")
        return mi.get(name)

    def make_func(self, node: Any, mi: ModInfo, env: Optional[Env], qualname: str, cls: Any = None) -> FuncV:
        f = FuncV(node, mi, env, qualname, cls=cls)
        for d in getattr(node, "decorator_list", []):
            base = d.func if isinstance(d, ast.Call) else d
            dn = _dotted(base)
            # resolve import aliases (`import functools as _functools`, `from functools import wraps as _w`)
            if dn and dn.split(".")[0] not in BUILTINS:
                try:
                    rv = self.eval(base, env or Env(None, {}), mi)
                    if isinstance(rv, ExtV) and rv.name.split(".")[0] in ("functools", "contextlib", "torch", "dataclasses", "typing", "abc"):
                        dn = rv.name
                except Exception:
                    pass
            short = dn.split(".")[-1] if dn else None
            if short == "staticmethod":
                f.kind = "staticmethod"
            elif short == "property":
                f.kind = "property"
            elif short == "cached_property":
                f.kind = "cached_property"  # functools.cached_property: computed once, stored in the instance __dict__
                f.decorators.append(dn)
                continue
            elif short == "classmethod":
                f.kind = "classmethod"
            if short in ("docstring_from", "inherit_docstring") and isinstance(d, ast.Call):
                for kw in d.keywords:
                    if kw.arg == "unsupported_args":
                        try:
                            f.unsupported_args = tuple(ast.literal_eval(kw.value))
                        except Exception:
                            f.unsupported_args = ("<non-literal>",)
                if short == "docstring_from" and d.args:
                    try:
                        f.doc_target = self.eval(d.args[0], Env(None, {}), mi)
                    except Unsupported:
                        f.doc_target = None
            if short in ("singledispatch", "singledispatchmethod"):
                f.registry = []
                f.dispatch_index = 1 if short == "singledispatchmethod" else 0  # type: ignore[attr-defined]
                f.decorators.append(dn)
                continue
            if short == "setter" and dn and "." in dn:
                f.kind = "setter"
                f.decorators.append(dn)
                continue
            if short in ("lru_cache", "cache") and (dn or "").split(".")[0] in ("functools", "lru_cache", "cache"):
                f.memo = {}
                f.decorators.append(dn)
                continue
            if short == "wraps" and isinstance(d, ast.Call) and d.args:
                f.wrapped = (d.args[0], env, mi)
            if dn in ("contextmanager", "contextlib.contextmanager"):
                f.kind = "ctxmanager"
                f.decorators.append(dn)
                continue
            if dn in ("torch.no_grad", "no_grad", "torch.inference_mode"):
                f.decorators.append("ctx:" + dn)
                continue
            if dn is None or (dn not in TRANSPARENT_DECORATORS and short not in TRANSPARENT_DECORATORS):
                f.transparent = False
                f.pending.append(d)
            f.decorators.append(dn)
        return f

    def unwrap(self, f: Any) -> Any:
        """inspect.unwrap: follow functools.wraps links (what inspect.signature reports)."""
        seen = 0
        while isinstance(f, FuncV) and seen < 10:
            if "__wrapped__" in f.attrs:
                f = f.attrs["__wrapped__"]
            elif f.wrapped is not None:
                expr, env, mi = f.wrapped
                try:
                    f = self.eval(expr, env or Env(None, {}), mi)
                except Unsupported:
                    return f
            else:
                return f
            seen += 1
        return f

    def decorate(self, f: FuncV, env: Optional[Env], mi: ModInfo) -> Any:
        """Apply the decorators that are defined inside the repository by interpreting them
        (a private decorator factoring shared pre/post-processing); decorators that resolve to
        external callables keep the function opaque."""
        if f.transparent or not f.pending:
            return f
        val: Any = f
        pend = list(f.pending)
        f.pending = []
        f.transparent = True
        for d in reversed(pend):
            try:
                dec = self.eval(d, env or Env(None, {}), mi)
            except Unsupported:
                dec = Unknown("decorator")
            if isinstance(dec, (FuncV, Bound, _Builtin)) or (isinstance(dec, ClassV)):
                try:
                    val = self.call_function(dec, [val], {}, d)
                except Unsupported:
                    val = Unknown("decorator application")
            else:
                val = Unknown(f"wrapped by an unmodelled decorator {_dotted(d.func if isinstance(d, ast.Call) else d)}")
            if isinstance(val, Unknown):
                f.transparent = False
                return f
        return val

    def decorate_class(self, cls: ClassV, node: ast.ClassDef, mi: ModInfo) -> Any:
        """Class decorators defined in the repository are run on the class (registration in a module-level
        table, returning the class itself or a replacement); the documentation / dataclass / typing ones are
        transparent; any other one is an analysis gap."""
        val: Any = cls
        for d in reversed(node.decorator_list):
            dn = _dotted(d.func if isinstance(d, ast.Call) else d)
            short = dn.split(".")[-1] if dn else None
            if dn is not None and (dn in TRANSPARENT_DECORATORS or short in TRANSPARENT_DECORATORS or short in ("total_ordering", "final", "runtime_checkable", "unique", "verify")):
                continue
            try:
                base_v = self.eval(d.func if isinstance(d, ast.Call) else d, Env(None, {}), mi)
            except Unsupported:
                base_v = None
            if isinstance(base_v, ExtV) and base_v.name in ("dataclasses.dataclass", "functools.total_ordering", "typing.final", "typing.runtime_checkable", "enum.unique", "typing.no_type_check", "typing_extensions.final", "typing_extensions.runtime_checkable"):
                continue  # the same transparent decorators under an import alias (with or without arguments)
            try:
                dec = self.eval(d, Env(None, {}), mi)
                if not (isinstance(dec, (FuncV, Bound, PartialV)) or (isinstance(dec, Obj) and isinstance(dec.cls, ClassV))):
                    raise Unsupported(f"decorator value {type(dec).__name__}")
                saved = self.cur_mod
                self.cur_mod = mi
                try:
                    r = self.call_function(dec, [val], {}, d)
                finally:
                    self.cur_mod = saved
            except Unsupported as e:
                Interp.note_gap(f"class decorator {dn or ast.unparse(d)} on {cls.qualname} at {mi.rel}:{node.lineno} not modelled ({e})")
                continue
            if isinstance(r, ClassV):
                val = r
            elif r is not None and r is not val:
                Interp.note_gap(f"class decorator {dn or ast.unparse(d)} replaces {cls.qualname} by a non-class value")
        return val

    # ------------------------------------------------------------------ events
    def log(self, kind: str, node: Any = None, **data: Any) -> Event:
        w = ""
        if node is not None and self.cur_mod is not None:
            w = f"{self.cur_mod.rel}:{getattr(node, 'lineno', '?')}"
        ev = Event(kind, tuple(self.guard), data, w)
        self.events.append(ev)
        return ev

    # ------------------------------------------------------------------ gamma helpers
    def guard_lookup(self, cond: Any) -> Optional[bool]:
        for c, pol in self.guard:
            if _same(c, cond):
                return pol
        return None

    def mkgamma(self, cond: Any, a: Any, b: Any) -> Any:
        if value_eq(a, b):
            return a
        if a is True and b is False:
            return cond
        if a is False and b is True:
            return _not(cond)
        return Gamma(cond, a, b)

    def lift(self, fn: Callable[..., Any], *args: Any) -> Any:
        """Apply fn to values, distributing over γ-nodes; BOTTOM is absorbing."""
        for i, a in enumerate(args):
            if a is BOTTOM:
                return BOTTOM
            if isinstance(a, Gamma):
                pol = self.guard_lookup(a.cond)
                if pol is not None:
                    return self.lift(fn, *args[:i], a.a if pol else a.b, *args[i + 1 :])
                self.guard.append((a.cond, True))
                try:
                    ra = self.lift(fn, *args[:i], a.a, *args[i + 1 :])
                finally:
                    self.guard.pop()
                self.guard.append((a.cond, False))
                try:
                    rb = self.lift(fn, *args[:i], a.b, *args[i + 1 :])
                finally:
                    self.guard.pop()
                return self.mkgamma(a.cond, _resolve(ra, a.cond, True), _resolve(rb, a.cond, False))
        return fn(*args)

    # ------------------------------------------------------------------ calling
    def call_function(self, f: Any, args: Sequence[Any] = (), kwargs: Optional[Dict[str, Any]] = None, node: Any = None) -> Any:
        kwargs = kwargs or {}
        if isinstance(f, Gamma):
            return self.lift(lambda g: self.call_function(g, args, kwargs, node), f)
        if isinstance(f, Bound):
            return self.call_function(f.func, [f.self_val, *args], kwargs, node) if isinstance(f.func, FuncV) else self.ext.call_bound_ext(self, f, list(args), kwargs, node)
        if isinstance(f, FuncV):
            return self._call_funcv(f, list(args), kwargs, node)
        if isinstance(f, ClassV):
            return self._instantiate(f, list(args), kwargs, node)
        if isinstance(f, ExtV):
            return self.ext.call_ext(self, f, list(args), kwargs, node)
        if isinstance(f, AutogradApply):
            return self._autograd_apply(f.cls, list(args), kwargs, node)
        if isinstance(f, _Builtin):
            return f.fn(self, list(args), kwargs, node)
        if isinstance(f, (Obj, NTuple)) and isinstance(f.cls, ClassV) and not (isinstance(f, Obj) and f.term is not None):
            call = self.class_attr(f.cls, "__call__")
            if isinstance(call, FuncV):
                return self.call_function(call, [f, *args], kwargs, node)
        if isinstance(f, Obj) and f.cls_name == "torch.nn.Sequential" and f.cls is None and isinstance(f.attrs.get("_modules"), dict) and len(args) == 1 and not kwargs:
            x_ = args[0]  # nn.Sequential.forward: the entries in order
            for m_ in f.attrs["_modules"].values():
                x_ = self.call_function(m_, [x_], {}, node)
            return x_
        if isinstance(f, (TV, Obj)):
            # calling an opaque value (e.g. `fn(residual)`, a module attribute)
            term = T("callv", (_term(f), tuple(_term(a) for a in args), tuple(sorted((k, _term(v)) for k, v in kwargs.items()))))
            self.log("callv", node, callee=f, args=list(args), kwargs=kwargs)
            ft = _term(f)
            if isinstance(ft, T) and ft.op == "attr" and isinstance(ft.args[1], str) and ft.args[1].endswith("_") and not ft.args[1].endswith("__"):
                self.log("inplace", node, target=f, op=ft.args[1], alias=getattr(f, "alias", frozenset()))
            return TV(term, kind="opaque" if isinstance(f, TV) and f.kind == "opaque" and isinstance(ft, T) and ft.op == "attr" else "tensor")
        if isinstance(f, Unknown):
            return Unknown(f"call of {f}")
        if f is BOTTOM:
            return BOTTOM
        raise Unsupported(f"call of {type(f).__name__} {f!r}")

    def bind(self, f: FuncV, args: List[Any], kwargs: Dict[str, Any]) -> Dict[str, Any]:
        a = f.node.args
        params = [p.arg for p in a.posonlyargs + a.args]
        bound: Dict[str, Any] = {}
        if len(args) > len(params) and not a.vararg:
            raise Unsupported(f"too many positional args for {f.qualname}")
        for p, v in zip(params, args):
            bound[p] = v
        if a.vararg:
            bound[a.vararg.arg] = tuple(args[len(params):])
        kwonly = [p.arg for p in a.kwonlyargs]
        extra = {}
        for k, v in kwargs.items():
            if k in params or k in kwonly:
                if k in bound:
                    raise Unsupported(f"multiple values for {k} in {f.qualname}")
                bound[k] = v
            elif a.kwarg:
                extra[k] = v
            else:
                raise Unsupported(f"unexpected keyword {k} for {f.qualname}")
        if a.kwarg:
            bound[a.kwarg.arg] = extra
        defaults = a.defaults
        dparams = params[len(params) - len(defaults):] if defaults else []
        denv = f.env or Env(None, {})
        for p, d in zip(dparams, defaults):
            if p not in bound:
                bound[p] = self.eval(d, denv, f.module)
        for p, d in zip(kwonly, a.kw_defaults):
            if p not in bound and d is not None:
                bound[p] = self.eval(d, denv, f.module)
        for p in params + kwonly:
            if p not in bound:
                raise Unsupported(f"missing argument {p} for {f.qualname}")
        return bound

    def param_names(self, f: FuncV) -> List[str]:
        a = f.node.args
        return [p.arg for p in a.posonlyargs + a.args + a.kwonlyargs]

    def _call_funcv(self, f: FuncV, args: List[Any], kwargs: Dict[str, Any], node: Any) -> Any:
        if not f.transparent:
            self.log("opaque-decorator", node, func=f)
            Interp.note_gap(f"{f.qualname} is wrapped by an unmodelled decorator {f.decorators}")
            return Unknown(f"{f.qualname} is wrapped by an unmodelled decorator {f.decorators}")
        di_ = getattr(f, "dispatch_index", 0)
        if f.registry and len(args) > di_ and not getattr(f, "_dispatching", False):
            # functools.singledispatch(method): the implementation registered for the class of the first argument
            # (after self for the method form); a class test that is decided only at run time gives a gated value
            cands = []
            for cls_, impl in reversed(f.registry):
                r_ = BUILTINS["isinstance"].fn(self, [args[di_], cls_], {}, node)
                if r_ is False:
                    continue
                if r_ is not True and (isinstance(r_, Gamma) or not _is_cond(r_)):
                    raise Unsupported(f"singledispatch of {f.qualname} on a value of undecided type")
                cands.append((r_, impl))
                if r_ is True:
                    break

            def dispatch(i: int) -> Any:
                if i >= len(cands):
                    f._dispatching = True  # type: ignore[attr-defined]
                    try:
                        return self._call_funcv(f, args, kwargs, node)
                    finally:
                        f._dispatching = False  # type: ignore[attr-defined]
                c_, impl = cands[i]
                if c_ is True:
                    return self.call_function(impl, args, kwargs, node)
                ra = self._guarded(c_, True, lambda: self.call_function(impl, args, kwargs, node))
                rb = self._guarded(c_, False, lambda: dispatch(i + 1))
                return self.mkgamma(c_, ra, rb)

            return dispatch(0)
        if f.memo is not None and not getattr(f, "_memo_running", False):
            # functools.lru_cache / cache: results are remembered per argument tuple (hash / == of the
            # arguments; tensors and other objects by identity), for the life of the abstract process
            flat = list(args) + [x for kv in sorted(kwargs.items()) for x in kv]
            if any(isinstance(a_, (list, dict, set)) for a_ in flat):
                self.log("raise", node, exc="TypeError")  # unhashable argument
                return BOTTOM
            key = tuple(id(a_) if isinstance(a_, (TV, Obj)) else (a_ if _hashable(a_) else fmt(_term(a_))) for a_ in flat)
            if any(isinstance(a_, sp.Basic) and a_.free_symbols for a_ in flat) and any(k_ != key and len(k_) == len(key) for k_ in f.memo):
                raise Unsupported(f"cache lookup of {f.qualname} with symbolic arguments")
            if key in f.memo:
                return f.memo[key]
            f._memo_running = True  # type: ignore[attr-defined]
            try:
                res_ = self._call_funcv(f, args, kwargs, node)
            finally:
                f._memo_running = False  # type: ignore[attr-defined]
            if res_ is not BOTTOM:
                f.memo[key] = res_
            return res_
        if f.kind == "ctxmanager" and not getattr(self, "_ctx_running", None) is f:
            self.bind(f, args, kwargs)  # arity errors surface at the call
            return CtxGen(f, list(args), dict(kwargs))
        bound = self.bind(f, args, kwargs)
        if self.opaque(f):
            term = T("call", (f"{f.module.name}.{f.qualname}", tuple((k, _term(v)) for k, v in bound.items())))
            self.log("call", node, callee=f"{f.module.name}.{f.qualname}", bound=bound, func=f, result=term)
            return TV(term, kind="opaque")
        if isinstance(f.node, ast.Lambda):
            env = Env(f.env, bound)
            return self.eval(f.node.body, env, f.module)
        if self.guard and self.call_stack.count(f.qualname) >= 2:
            # recursion under an undecided condition: summarise the recursive call as an
            # uninterpreted application instead of unfolding it without bound
            term = T("call", (f"{f.module.name}.{f.qualname}", tuple((k, _term(v)) for k, v in bound.items())))
            self.log("call", node, callee=f"{f.module.name}.{f.qualname}", bound=bound, func=f, result=term, recursion_cut=True)
            return TV(term)
        if self.depth >= self.MAX_DEPTH or self.call_stack.count(f.qualname) > 40:
            raise Unsupported(f"inlining bound reached at {f.qualname}")
        self.log("enter", node, func=f, bound=bound)
        for d_ in f.decorators:
            if isinstance(d_, str) and d_.startswith("ctx:"):
                self.log("with", node, ctx=ExtV(d_[4:] + "()"))  # decorator form of a context manager
        env = Env(f.env, bound)
        if f.cls is not None:
            env.vars["__class__"] = f.cls
        is_gen = any(isinstance(n_, (ast.Yield, ast.YieldFrom)) for st_ in f.node.body for n_ in _walk_no_defs(st_))
        if f.kind == "ctxmanager":
            is_gen = False
            self._ctx_running = None
        if is_gen:
            g_ = GenV(f, env)
            g_.saved_mod = f.module
            return g_
        saved_mod = self.cur_mod
        self.cur_mod = f.module
        self.depth += 1
        self.call_stack.append(f.qualname)
        from . import values as _V

        saved_gm = _V.GRAD_MODE[0]
        if any(isinstance(d_, str) and d_.startswith("ctx:") and d_.split(".")[-1] in ("no_grad", "inference_mode") for d_ in f.decorators):
            _V.GRAD_MODE[0] = saved_gm + 1  # `@torch.no_grad()` on the function
        try:
            kind, val = self.exec_stmts(list(f.node.body), env, f.module, lambda e: ("return", None))
        finally:
            self.depth -= 1
            self.call_stack.pop()
            self.cur_mod = saved_mod
            _V.GRAD_MODE[0] = saved_gm
        return val

    # ------------------------------------------------------------------ generators (lazy, as coroutines)
    def gen_next(self, g: GenV) -> Tuple[str, Any]:
        """Advance a generator by one step: ("yield", value) | ("done", return value) | ("raise", None)."""
        import threading

        if g.state == "done":
            return ("done", None)
        if g.state == "running":
            raise Unsupported("generator already executing")
        base = (self.call_stack, self.depth, self.guard, self.cur_mod, self._gen_current)
        g.base = (len(base[0]), base[1], len(base[2]))
        self.call_stack = list(base[0]) + list(g.saved_call)
        self.depth = base[1] + g.saved_depth
        self.guard = list(base[2]) + list(g.saved_guard)
        self.cur_mod = g.saved_mod
        self._gen_current = g
        try:
            if g.state == "new":
                g.state = "running"
                threading.stack_size(256 * 1024 * 1024)
                g.thread = threading.Thread(target=self._gen_body, args=(g,), daemon=True)
                g.thread.start()
            else:
                g.state = "running"
                g.to_gen.release()
            g.to_con.acquire()
        finally:
            self.call_stack, self.depth, self.guard, self.cur_mod, self._gen_current = base
        if g.exc is not None:
            exc, g.exc = g.exc, None
            g.state = "done"
            raise exc
        return g.outcome

    def _gen_body(self, g: GenV) -> None:
        f = g.func
        try:
            self.depth += 1
            self.call_stack.append(f.qualname)
            kind, val = self.exec_stmts(list(f.node.body), g.env, f.module, lambda e: ("return", None))
            g.outcome = ("raise", None) if (kind == "raise" or val is BOTTOM) else ("done", val)
        except BaseException as e:  # analysis exceptions travel to the consumer
            g.exc = e
            g.outcome = ("done", None)
        finally:
            g.state = "done"
            g.to_con.release()

    def gen_exhaust(self, g: GenV) -> List[Any]:
        out: List[Any] = []
        while True:
            kind, v = self.gen_next(g)
            if kind == "yield":
                out.append(v)
                if len(out) > 20000:
                    raise Unsupported("generator does not terminate within the bound")
            elif kind == "raise":
                raise _Raised()
            else:
                return out

    def run(self, f: FuncV, **bound: Any) -> Any:
        """Entry point for rules: evaluate f with the given parameter values."""
        return self.call_function(f, [], bound)

    def enum_members(self, c: ClassV) -> Optional[Dict[str, Any]]:
        """Members of an enum.Enum subclass defined in the repository (one closed object each, with
        .name / .value; identity is what `is` and `==` compare)."""
        if not any(self.is_subclass_of_ext(c, b) for b in ("Enum", "IntEnum", "StrEnum", "Flag")):
            return None
        if c.enum_members is None:
            c.enum_members = {}
            auto_n = 0
            for st in c.node.body:
                if isinstance(st, ast.Assign) and len(st.targets) == 1 and isinstance(st.targets[0], ast.Name) and not st.targets[0].id.startswith("_"):
                    nm = st.targets[0].id
                    if isinstance(st.value, ast.Call) and (_dotted(st.value.func) or "").split(".")[-1] == "auto":
                        auto_n += 1
                        val: Any = auto_n
                    else:
                        val = self.eval(st.value, Env(c.env, {}), c.module)
                    c.enum_members[nm] = Obj(f"{c.module.name}.{c.qualname}", attrs={"name": nm, "value": val, "_name_": nm, "_value_": val}, cls=c, open_attrs=False)
        return c.enum_members

    def _instantiate(self, c: ClassV, args: List[Any], kwargs: Dict[str, Any], node: Any) -> Any:
        members = self.enum_members(c)
        if members is not None:
            # Enum(value): look the member up by value
            if len(args) == 1:
                for m_ in members.values():
                    r_ = self.compare(ast.Eq(), m_.attrs["value"], args[0], node)
                    if r_ is True:
                        return m_
                    if r_ is not False:
                        raise Unsupported("enum lookup by a symbolic value")
            self.log("raise", node, exc="ValueError")
            return BOTTOM
        if self.is_dataclass(c):
            fields = []
            chain_ = [c]
            while True:
                nb_ = [b for b in self.class_bases(chain_[-1]) if isinstance(b, ClassV) and self.is_dataclass(b)]
                if not nb_ or len(chain_) > 8:
                    break
                chain_.append(nb_[0])
            for k_ in reversed(chain_):  # fields of the base dataclasses first, a redefinition keeps its place
                for st in k_.node.body:
                    if isinstance(st, ast.AnnAssign) and isinstance(st.target, ast.Name) and "ClassVar" not in ast.unparse(st.annotation):
                        fields = [(n_, d_) if n_ != st.target.id else (n_, st.value) for n_, d_ in fields] if any(n_ == st.target.id for n_, _ in fields) else fields + [(st.target.id, st.value)]
            obj = Obj(f"{c.module.name}.{c.qualname}", cls=c, open_attrs=False)
            names = [n for n, _ in fields]
            if len(args) > len(names):
                raise Unsupported("dataclass: too many args")
            vals: Dict[str, Any] = dict(zip(names, args))
            for k, v in kwargs.items():
                if k not in names or k in vals:
                    raise Unsupported(f"dataclass: bad keyword {k}")
                vals[k] = v
            for n, d in fields:
                if n not in vals:
                    if d is None:
                        raise Unsupported(f"dataclass: missing field {n}")
                    if isinstance(d, ast.Call) and (_dotted(d.func) or "").split(".")[-1] == "field":
                        kws = {kw.arg: kw.value for kw in d.keywords}
                        if "default_factory" in kws:
                            vals[n] = self.call_function(self.eval(kws["default_factory"], Env(c.env, {}), c.module), [], {}, node)
                        elif "default" in kws:
                            vals[n] = self.eval(kws["default"], Env(c.env, {}), c.module)
                        else:
                            raise Unsupported(f"dataclass: missing field {n}")
                        continue
                    vals[n] = self.eval(d, Env(c.env, {}), c.module)
            obj.attrs.update(vals)
            post = self.class_attr(c, "__post_init__")
            if post is not None:
                self.call_function(post, [obj], {}, node)
            return obj
        if self.is_subclass_of_ext(c, "NamedTuple"):
            fields = []
            for st in c.node.body:
                if isinstance(st, ast.AnnAssign) and isinstance(st.target, ast.Name):
                    fields.append((st.target.id, st.value))
            names = [n for n, _ in fields]
            if len(args) > len(names):
                raise Unsupported("NamedTuple: too many args")
            vals = dict(zip(names, args))
            for k, v in kwargs.items():
                if k not in names or k in vals:
                    raise Unsupported(f"NamedTuple: bad keyword {k}")
                vals[k] = v
            for n, d in fields:
                if n not in vals:
                    if d is None:
                        raise Unsupported(f"NamedTuple: missing field {n}")
                    vals[n] = self.eval(d, Env(c.env, {}), c.module)
            return NTuple.make(c, names, [vals[n] for n in names])
        init = self.class_attr(c, "__init__")
        if self.opaque(c):
            bound: Dict[str, Any] = {}
            if isinstance(init, FuncV):
                bound = self.bind(init, [None, *args], kwargs)
                bound.pop(self.param_names(init)[0], None)
            else:
                bound = {**{str(i): a for i, a in enumerate(args)}, **kwargs}
            qn = f"{c.module.name}.{c.qualname}"
            term = T("new", (qn, tuple((k, _term(v)) for k, v in bound.items())))
            obj = Obj(qn, attrs=dict(bound), cls=c, term=term)
            self.log("new", node, cls=c, bound=bound, obj=obj)
            return obj
        if any(isinstance(b, ExtV) and b.name.split(".")[-1] in ("dict", "Dict", "OrderedDict", "UserDict", "MutableMapping", "DefaultDict") for b in self._all_bases(c)) and not self.is_subclass_of_ext(c, "Enum"):
            from .values import ClassDictV

            dv = ClassDictV()
            dv.cls = c
            if init is not None:
                if self.call_function(init, [dv, *args], kwargs, node) is BOTTOM:
                    return BOTTOM
            else:
                if args and isinstance(args[0], dict):
                    dv.update(args[0])
                elif args:
                    seq_ = self.concrete_iter(args[0])
                    if seq_ is None:
                        raise Unsupported("dict subclass built from a non-concrete iterable")
                    dv.update({k_: v_ for k_, v_ in seq_})
                dv.update(kwargs)
            return dv
        if init is not None:
            obj = Obj(f"{c.module.name}.{c.qualname}", cls=c)
            r_ = self.call_function(init, [obj, *args], kwargs, node)
            if r_ is BOTTOM:
                return BOTTOM  # __init__ raised
            return obj
        plain_bases = all((isinstance(b, ClassV) or (isinstance(b, ExtV) and b.name.split(".")[-1] in ("object", "ABC", "Protocol", "Generic", "ABCMeta"))) for b in self._all_bases(c))
        if plain_bases and not args and not kwargs:
            # a repository class without __init__ (and no foreign base): a plain instance
            return Obj(f"{c.module.name}.{c.qualname}", cls=c)
        term = T("new", (f"{c.module.name}.{c.qualname}", tuple(_term(a) for a in args), tuple(sorted((k, _term(v)) for k, v in kwargs.items()))))
        return Obj(f"{c.module.name}.{c.qualname}", cls=c, term=term)

    def coerce_enum(self, v: Any) -> Any:
        """A member of an IntEnum / StrEnum *is* its value for arithmetic, indexing, comparison and hashing."""
        if isinstance(v, Obj) and isinstance(v.cls, ClassV) and v.cls.enum_members is not None and "value" in v.attrs and any(self.is_subclass_of_ext(v.cls, b) for b in ("IntEnum", "StrEnum", "IntFlag")):
            return v.attrs["value"]
        return v

    def dunder(self, v: Any, name: str) -> Any:
        """The special method `name` of an instance of a repository class (bound), else None."""
        if isinstance(v, (Obj, NTuple)) and isinstance(v.cls, ClassV) and not (isinstance(v, Obj) and v.term is not None):
            m = self.class_attr(v.cls, name)
            if isinstance(m, FuncV):
                return Bound(m, v)
        if type(v).__name__ == "ClassDictV" and isinstance(v.cls, ClassV):
            m = self.class_attr(v.cls, name)
            if isinstance(m, FuncV):
                return Bound(m, v)
        return None

    def dynamic_class(self, name: Any, bases: Any, namespace: Dict[str, Any], mi: Any) -> ClassV:
        """type(name, bases, namespace) / types.new_class: a class object built at run time."""
        nm = name if isinstance(name, str) else "dynamic"
        node = ast.ClassDef(name=nm, bases=[], keywords=[], body=[ast.Pass()], decorator_list=[])
        node.lineno = node.col_offset = 0
        c = ClassV(node, mi if mi is not None else self.cur_mod, str(namespace.get("__qualname__", nm)), None)
        c.overrides.update({k: v for k, v in namespace.items() if isinstance(k, str)})
        c.overrides["__bases__"] = list(self.concrete_iter(bases) or [])
        for v in c.overrides.values():
            if isinstance(v, FuncV) and v.cls is None:
                pass
        return c

    def class_bases(self, c: ClassV) -> List[Any]:
        if "__bases__" in c.overrides:
            return list(c.overrides["__bases__"])
        out = []
        for b in c.node.bases:
            try:
                out.append(self.eval(b, Env(c.env, {}), c.module))
            except Unsupported:
                out.append(Unknown("base"))
        return out

    def class_attr(self, c: ClassV, name: str) -> Any:
        """Look a method / class attribute up in a repository class and its repo bases."""
        if name in c.overrides:
            return c.overrides[name]
        for st in reversed(c.node.body):  # the last binding of a name in a class body is the one that stays
            if isinstance(st, (ast.FunctionDef, ast.AsyncFunctionDef)) and st.name == name:
                if any((_dotted(d) or "").endswith((".setter", ".deleter", ".register")) or (isinstance(d, ast.Call) and (_dotted(d.func) or "").endswith(".register")) for d in st.decorator_list):
                    continue
                if any((_dotted(d) or "").split(".")[-1] in ("overload", "_overload") for d in st.decorator_list):
                    continue  # typing.overload stubs carry no behaviour
                return self.decorate(self.make_func(st, c.module, c.env, f"{c.qualname}.{name}", cls=c), c.env, c.module)
            if isinstance(st, ast.ClassDef) and st.name == name:
                return ClassV(st, c.module, f"{c.qualname}.{name}", c.env)
            if isinstance(st, ast.Assign):
                for t in st.targets:
                    if isinstance(t, ast.Name) and t.id == name:
                        return self.class_const(c, name, st.value)
            if isinstance(st, ast.AnnAssign) and st.value is not None and isinstance(st.target, ast.Name) and st.target.id == name:
                return self.class_const(c, name, st.value)
        for b in self.class_bases(c):
            if isinstance(b, ClassV):
                r = self.class_attr(b, name)
                if r is not None:
                    return r
        return None

    def mro(self, c: ClassV) -> List[Any]:
        """C3 linearisation over the repository classes (external bases are kept as leaves)."""
        def lin(k: Any, depth: int = 0) -> List[Any]:
            if not isinstance(k, ClassV) or depth > 12:
                return [k]
            bases = self.class_bases(k)
            seqs = [lin(b, depth + 1) for b in bases] + [list(bases)]
            out: List[Any] = [k]
            same = lambda a, b: (a is b) or (isinstance(a, ClassV) and isinstance(b, ClassV) and a.node is b.node) or (isinstance(a, ExtV) and isinstance(b, ExtV) and a.name == b.name)
            while any(seqs):
                seqs = [q for q in seqs if q]
                for q in seqs:
                    h = q[0]
                    if not any(any(same(h, t) for t in o[1:]) for o in seqs):
                        break
                else:
                    h = seqs[0][0]  # inconsistent hierarchy: fall back to the first head
                out.append(h)
                seqs = [[t for t in q if not same(t, h)] if same(q[0], h) or True else q for q in seqs]
            return out

        return lin(c)

    def class_own_attr(self, c: ClassV, name: str) -> Any:
        """A method / attribute defined in the body of `c` itself (no base-class lookup)."""
        if name in c.overrides:
            return c.overrides[name]
        for st in reversed(c.node.body):
            if isinstance(st, (ast.FunctionDef, ast.AsyncFunctionDef)) and st.name == name:
                if any((_dotted(d) or "").endswith((".setter", ".deleter", ".register")) for d in st.decorator_list):
                    continue
                if any((_dotted(d) or "").split(".")[-1] in ("overload", "_overload") for d in st.decorator_list):
                    continue
                return self.decorate(self.make_func(st, c.module, c.env, f"{c.qualname}.{name}", cls=c), c.env, c.module)
        return None

    def _class_has_descriptor(self, c: ClassV, name: str) -> bool:
        """Cheap syntactic pre-test: `name = <call>` in the body of the class or of a repository base."""
        for k_ in [c] + [b for b in self._all_bases(c) if isinstance(b, ClassV)]:
            for st in k_.node.body:
                if isinstance(st, (ast.Assign, ast.AnnAssign)) and isinstance(getattr(st, "value", None), ast.Call):
                    tg = st.targets if isinstance(st, ast.Assign) else [st.target]
                    if any(isinstance(t, ast.Name) and t.id == name for t in tg):
                        return True
        return False

    def class_created(self, c: ClassV) -> None:
        """Effects of creating a class: __set_name__ of the descriptors in its body, then __init_subclass__ of the
        nearest repository base that defines it (with the class keywords)."""
        if c.overrides.get("__created__"):
            return
        c.overrides["__created__"] = True
        try:
            for st in c.node.body:
                if isinstance(st, (ast.Assign, ast.AnnAssign)) and isinstance(getattr(st, "value", None), ast.Call):
                    tg = st.targets if isinstance(st, ast.Assign) else [st.target]
                    for t in tg:
                        if isinstance(t, ast.Name):
                            val = self.class_attr(c, t.id)
                            if isinstance(val, Obj) and isinstance(val.cls, ClassV):
                                sn = self.class_attr(val.cls, "__set_name__")
                                if isinstance(sn, FuncV):
                                    self.call_function(sn, [val, c, t.id], {}, st)
            import copy as _copy

            for st in c.node.body:
                if isinstance(st, ast.FunctionDef) and any((_dotted(d) or "").split(".")[-1] == "singledispatchmethod" for d in st.decorator_list):
                    gen_ = self.class_attr(c, st.name)
                    if isinstance(gen_, FuncV):
                        c.overrides[st.name] = gen_  # one function object (its registry persists)
            for st in c.node.body:
                if not isinstance(st, ast.FunctionDef):
                    continue
                for d in st.decorator_list:
                    base_ = d.func if isinstance(d, ast.Call) else d
                    if isinstance(base_, ast.Attribute) and base_.attr == "register" and isinstance(base_.value, ast.Name) and isinstance(c.overrides.get(base_.value.id), FuncV) and c.overrides[base_.value.id].registry is not None:
                        gen_ = c.overrides[base_.value.id]
                        bare = _copy.copy(st)
                        bare.decorator_list = []
                        impl = self.make_func(bare, c.module, c.env, f"{c.qualname}.{base_.value.id}.register", cls=c)
                        if isinstance(d, ast.Call) and d.args:
                            cls_ = self.eval(d.args[0], Env(c.env, {}), c.module)
                        else:
                            ps_ = st.args.posonlyargs + st.args.args
                            ann = ps_[1].annotation if len(ps_) > 1 else None
                            if ann is None:
                                raise Unsupported("singledispatchmethod.register without a class")
                            cls_ = self.eval(ann if not isinstance(ann, ast.Constant) or not isinstance(ann.value, str) else ast.parse(ann.value, mode="eval").body, Env(c.env, {}), c.module)
                        gen_.registry.append((cls_, impl))
            kws = {k.arg: self.eval(k.value, Env(c.env, {}), c.module) for k in c.node.keywords if k.arg and k.arg != "metaclass"}
            hook = None
            for b in self.class_bases(c):
                if isinstance(b, ClassV):
                    self.class_created(b)
                    hook = hook or self.class_attr(b, "__init_subclass__")
            if isinstance(hook, FuncV):
                saved = self.cur_mod
                self.cur_mod = c.module
                try:
                    self.call_function(hook, [c], kws, c.node)
                finally:
                    self.cur_mod = saved
            elif kws:
                Interp.note_gap(f"class keywords {sorted(kws)} of {c.qualname} without a repository __init_subclass__")
            if any(k.arg == "metaclass" for k in c.node.keywords):
                mv = self.eval(next(k.value for k in c.node.keywords if k.arg == "metaclass"), Env(c.env, {}), c.module)
                if isinstance(mv, ClassV):
                    Interp.note_gap(f"metaclass {mv.qualname} of {c.qualname} defined in the repository is not modelled")
        except Unsupported as e:
            Interp.note_gap(f"class creation effects of {c.qualname} not modelled ({e})")

    def _all_bases(self, c: ClassV, depth: int = 0) -> List[Any]:
        out: List[Any] = []
        for b in self.class_bases(c):
            out.append(b)
            if isinstance(b, ClassV) and depth < 10:
                out.extend(self._all_bases(b, depth + 1))
        return out

    def is_dataclass(self, c: ClassV) -> bool:
        """Is the class decorated with dataclasses.dataclass (under any import alias)?"""
        for d in c.node.decorator_list:
            base = d.func if isinstance(d, ast.Call) else d
            dn = _dotted(base) or ""
            if dn.split(".")[-1] == "dataclass":
                return True
            try:
                rv = self.eval(base, Env(c.env, {}), c.module)
            except Exception:
                continue
            if isinstance(rv, ExtV) and rv.name == "dataclasses.dataclass":
                return True
        return False

    def class_const(self, c: ClassV, name: str, expr: ast.AST) -> Any:
        """A class-level attribute is evaluated once (one object shared by every access, as in Python)."""
        key = "__const__:" + name
        if key not in c.overrides:
            c.overrides[key] = self.eval(expr, Env(c.env, {}), c.module)
        return c.overrides[key]

    def class_setter(self, c: ClassV, name: str) -> Any:
        for st in c.node.body:
            if isinstance(st, ast.FunctionDef) and st.name == name and any((_dotted(d) or "").endswith(".setter") for d in st.decorator_list):
                return self.make_func(st, c.module, c.env, f"{c.qualname}.{name}.setter", cls=c)
        for b in self.class_bases(c):
            if isinstance(b, ClassV):
                r = self.class_setter(b, name)
                if r is not None:
                    return r
        return None

    def is_subclass_of_ext(self, c: ClassV, ext_suffix: str) -> bool:
        for b in self.class_bases(c):
            if isinstance(b, ExtV) and b.name.endswith(ext_suffix):
                return True
            if isinstance(b, ClassV) and self.is_subclass_of_ext(b, ext_suffix):
                return True
        return False

    def _autograd_apply(self, c: ClassV, args: List[Any], kwargs: Dict[str, Any], node: Any) -> Any:
        fwd = self.class_attr(c, "forward")
        qn = f"{c.module.name}.{c.qualname}"
        bound: Dict[str, Any] = {}
        if isinstance(fwd, FuncV):
            pn = [p.arg for p in fwd.node.args.args][1:]  # skip ctx
            for p, v in zip(pn, args):
                bound[p] = v
        if qn == "unit_scaling.scale._ScaledGrad" and set(bound) >= {"X", "fwd_scale", "bwd_scale"}:
            x, fs, bs = bound["X"], bound["fwd_scale"], bound["bwd_scale"]
            res = TV(T("scale", (_term(x), _term(fs), _term(bs))), shape=getattr(x, "shape", None), dtype=getattr(x, "dtype", None))
            self.log("scale", node, x=x, fwd=fs, bwd=bs, result=res)
            return res
        term = T("autograd", (qn, tuple(_term(a) for a in args)))
        res = TV(term, shape=getattr(args[0], "shape", None) if args else None)
        self.log("autograd", node, cls=c, args=list(args), result=res)
        return res

    # ------------------------------------------------------------------ statements
    def exec_stmts(self, stmts: List[ast.stmt], env: Env, mi: ModInfo, k: Callable[[Env], Tuple[str, Any]]) -> Tuple[str, Any]:
        """Continuation-passing execution; returns ('return', v) or ('raise', info)."""
        i = 0
        n = len(stmts)
        while i < n:
            st = stmts[i]
            rest = stmts[i + 1 :]
            if isinstance(st, ast.Match):
                return self.exec_stmts(self._lower_match(st, env, mi) + rest, env, mi, k)
            if isinstance(st, ast.For) and not st.orelse and not getattr(st, "_usa_lowered", False) and any(isinstance(n_, ast.Return) for b_ in st.body for n_ in _walk_no_defs(b_)) and not any(isinstance(n_, (ast.Break, ast.Continue)) for b_ in st.body for n_ in _walk_no_defs(b_)):
                # a search loop (`for a in xs: if p(a): return a`) over a collection held by an external object:
                # one uninterpreted element under the guard "non-empty", then the statements after the loop
                itv = self.eval(st.iter, env, mi)
                const = ast.Constant(value=itv)
                ast.copy_location(const, st)
                if self.concrete_iter_peek(itv) is None and isinstance(itv, (TV, Obj)) and not (isinstance(itv, TV) and itv.kind == "tensor"):
                    cond = ast.Constant(value=T("nonempty", (_term(itv),)))
                    elem = ast.Constant(value=TV(T("elem", (_term(itv),)), kind="opaque"))
                    asg = ast.Assign(targets=[st.target], value=elem)
                    node = ast.If(test=cond, body=[asg, *st.body], orelse=[])
                    for x_ in (cond, elem, asg, node):
                        ast.copy_location(x_, st)
                    ast.fix_missing_locations(node)
                    self.log("havoc-loop", st, iter=itv)
                    return self.exec_stmts([node] + rest, env, mi, k)
                st2 = ast.For(target=st.target, iter=const, body=st.body, orelse=st.orelse)
                ast.copy_location(st2, st)
                st2._usa_lowered = True  # type: ignore[attr-defined]
                return self.exec_stmts([st2] + rest, env, mi, k)
            if isinstance(st, ast.If):
                cond = self.truth(self.eval(st.test, env, mi), st)
                if cond is True:
                    return self.exec_stmts(list(st.body) + rest, env, mi, k)
                if cond is False:
                    return self.exec_stmts(list(st.orelse) + rest, env, mi, k)
                if isinstance(cond, Gamma):
                    raise Unsupported("γ-valued branch condition")
                pol = self.guard_lookup(cond)
                if pol is not None:
                    return self.exec_stmts(list(st.body if pol else st.orelse) + rest, env, mi, k)
                self.log("branch", st, cond=cond)
                if not _contains_ctrl(st.body) and not _contains_ctrl(st.orelse):
                    ea, eb = env.copy(), env.copy()
                    self._guarded(cond, True, lambda: self.exec_stmts(list(st.body), ea, mi, lambda e: ("return", None)))
                    self._guarded(cond, False, lambda: self.exec_stmts(list(st.orelse), eb, mi, lambda e: ("return", None)))
                    for name in set(ea.vars) | set(eb.vars):
                        va = ea.vars.get(name, Unknown(f"{name} unbound on one branch"))
                        vb = eb.vars.get(name, Unknown(f"{name} unbound on one branch"))
                        env.vars[name] = self.mkgamma(cond, va, vb)
                    i += 1
                    continue
                ea, eb = env.copy(), env.copy()
                ka, va = self._guarded(cond, True, lambda: self.exec_stmts(list(st.body) + rest, ea, mi, k))
                kb, vb = self._guarded(cond, False, lambda: self.exec_stmts(list(st.orelse) + rest, eb, mi, k))
                if ka == kb == "return":
                    return ("return", self.mkgamma(cond, va, vb))
                # one arm raised: the other arm's outcome and environment survive
                if ka == "return" and va is BOTTOM:
                    env.vars.clear(); env.vars.update(eb.vars)
                    return (kb, vb)
                if kb == "return" and vb is BOTTOM:
                    env.vars.clear(); env.vars.update(ea.vars)
                    return (ka, va)
                if ka == kb:
                    for name in set(ea.vars) | set(eb.vars):
                        xa = ea.vars.get(name, Unknown(f"{name} unbound on one branch"))
                        xb = eb.vars.get(name, Unknown(f"{name} unbound on one branch"))
                        env.vars[name] = self.mkgamma(cond, xa, xb)
                    return (ka, None)
                raise Unsupported(f"branches end differently ({ka}/{kb}) at {mi.rel}:{st.lineno}")
            r = self.exec_one(st, env, mi)
            if r is not None:
                kind, val = r
                if kind == "return":
                    return ("return", val)
                if kind == "raise":
                    return ("return", BOTTOM)
                if kind in ("break", "continue"):
                    return (kind, val)
            i += 1
        return k(env)

    def _guarded(self, cond: Any, pol: bool, thunk: Callable[[], Any]) -> Any:
        self.guard.append((cond, pol))
        try:
            return thunk()
        finally:
            self.guard.pop()

    def exec_one(self, st: ast.stmt, env: Env, mi: ModInfo) -> Optional[Tuple[str, Any]]:
        saved = self.cur_mod
        self.cur_mod = mi
        try:
            return self._exec_one(st, env, mi)
        finally:
            self.cur_mod = saved

    def _exec_one(self, st: ast.stmt, env: Env, mi: ModInfo) -> Optional[Tuple[str, Any]]:
        if isinstance(st, ast.Expr):
            if isinstance(st.value, ast.Constant):
                return None  # docstring
            v = self.eval(st.value, env, mi)
            if v is BOTTOM:
                return ("raise", None)  # the exception raised inside the callee propagates
            # `y.div_(c)` as a statement: an in-place tensor method updates its receiver, i.e. the
            # variable (or attribute) now denotes the updated tensor
            c_ = st.value
            if isinstance(c_, ast.Call) and isinstance(c_.func, ast.Attribute) and c_.func.attr.endswith("_") and not c_.func.attr.endswith("__") and ((isinstance(v, TV) and v.kind == "tensor") or isinstance(v, Gamma)):
                recv = c_.func.value
                if isinstance(recv, ast.NamedExpr) and isinstance(recv.target, ast.Name):
                    recv = recv.target  # `(q := expr).mul_(c)`: the name just bound is the receiver
                if isinstance(recv, ast.Name):
                    ok_, cur_ = env.lookup(recv.id)
                    if ok_ and ((isinstance(cur_, TV) and cur_.kind == "tensor") or isinstance(cur_, Gamma)):
                        env.set(recv.id, v)
                elif isinstance(recv, ast.Attribute):
                    try:
                        holder = self.eval(recv.value, env, mi)
                    except Unsupported:
                        holder = None
                    if isinstance(holder, Obj) and isinstance(holder.attrs.get(recv.attr), TV) and holder.attrs[recv.attr].kind == "tensor":
                        holder.attrs[recv.attr] = v
            return None
        if isinstance(st, ast.Assign):
            v = self.eval(st.value, env, mi)
            if v is BOTTOM:
                return ("raise", None)
            try:
                for t in st.targets:
                    self.assign(t, v, env, mi, st)
            except (_AssignRaised, _Raised):
                return ("raise", None)
            return None
        if isinstance(st, ast.AnnAssign):
            if st.value is not None:
                v = self.eval(st.value, env, mi)
                if v is BOTTOM:
                    return ("raise", None)
                try:
                    self.assign(st.target, v, env, mi, st)
                except (_AssignRaised, _Raised):
                    return ("raise", None)
            return None
        if isinstance(st, ast.AugAssign):
            cur = self.eval(_load(st.target), env, mi)
            rhs = self.eval(st.value, env, mi)
            if cur is BOTTOM or rhs is BOTTOM:
                return ("raise", None)
            res = self.lift(lambda a, b: self.binop(st.op, a, b, st, inplace=True), cur, rhs)
            self.assign(st.target, res, env, mi, st)
            return None
        if isinstance(st, ast.Return):
            v = self.eval(st.value, env, mi) if st.value is not None else None
            if v is BOTTOM:
                return ("raise", None)
            return ("return", v)
        if isinstance(st, ast.Raise):
            if st.exc is None:
                # bare `raise`: re-raise the exception being handled
                cur = self._handling[-1] if self._handling else None
                if cur is not None:
                    self.log("raise", st, exc=cur["exc"], chain=cur.get("chain"), value=cur.get("value"), exc_class=cur.get("exc_class"))
                    return ("raise", cur["exc"])
                self.log("raise", st, exc=None)
                return ("raise", None)
            base = st.exc.func if isinstance(st.exc, ast.Call) else st.exc
            exc = _dotted(base)
            chain: List[str] = [exc.split(".")[-1]] if exc else []
            value: Any = None
            exc_class = None
            try:
                cv = self.eval(base, env, mi)
            except Unsupported:
                cv = None
            if isinstance(cv, Obj) and isinstance(cv.term, T) and cv.term.op == "exc":
                # `raise e` of a caught exception object
                chain = list(cv.attrs.get("__chain__", [cv.term.args[0]]))
                exc, value = cv.attrs.get("__exc__", cv.term.args[0]), cv
            elif isinstance(cv, ClassV):
                exc_class = cv.qualname
                names = [cv.node.name]
                for b_ in self._all_bases(cv):
                    names.append(b_.node.name if isinstance(b_, ClassV) else (b_.name.split(".")[-1] if isinstance(b_, ExtV) else "?"))
                chain = names
                builtin = next((n_ for n_ in names[1:] if n_ in _EXC_PARENT or n_ in ("Exception", "BaseException")), "Exception")
                exc = builtin
                try:
                    value = self.eval(st.exc, env, mi) if isinstance(st.exc, ast.Call) else self.call_function(cv, [], {}, st)
                except Unsupported:
                    value = None
                if value is BOTTOM:
                    return ("raise", None)
            elif isinstance(st.exc, ast.Call):
                try:
                    argv = [self.eval(a_, env, mi) for a_ in st.exc.args if not isinstance(a_, ast.Starred)]
                except Unsupported:
                    argv = []
                value = Obj("builtins." + (chain[0] if chain else "Exception"), attrs={"args": tuple(argv)}, term=T("exc", (chain[0] if chain else "Exception",)))
            n0 = chain[-1] if chain else None
            while n0 in _EXC_PARENT:
                n0 = _EXC_PARENT[n0]
                chain.append(n0)
            self.log("raise", st, exc=exc, chain=chain, value=value, exc_class=exc_class)
            return ("raise", exc)
        if isinstance(st, ast.Assert):
            mark_ = len(self.events)
            c = self.truth(self.eval(st.test, env, mi), st)
            eff_ = [e for e in self.events[mark_:] if e.kind in ("setattr", "inplace", "setitem", "delete")]
            if eff_:
                # the condition of an assert has an effect: under `python -O` the statement -- and the effect -- vanish
                self.log("assert-side-effect", st, effects=[(e.kind, e.data.get("attr") or e.data.get("op")) for e in eff_])
            if c is False:
                self.log("raise", st, exc="AssertionError")
                return ("raise", "AssertionError")
            if c is not True:
                self.log("assert", st, cond=c)
            return None
        if isinstance(st, ast.Pass):
            return None
        if isinstance(st, (ast.FunctionDef, ast.AsyncFunctionDef)):
            qn = (self.call_stack[-1] + ".<locals>." if self.call_stack else "") + st.name
            env.vars[st.name] = self.decorate(self.make_func(st, mi, env, qn), env, mi)
            return None
        if isinstance(st, ast.ClassDef):
            qn = (self.call_stack[-1] + ".<locals>." if self.call_stack else "") + st.name
            env.vars[st.name] = ClassV(st, mi, qn, env)
            return None
        if isinstance(st, ast.For):
            it = self.eval(st.iter, env, mi)
            if hasattr(it, "first") and hasattr(it, "after"):  # live linked-list iteration (fx node list)
                cur = it.first()
                steps = 0
                while cur is not None:
                    steps += 1
                    if steps > 5000:
                        raise Unsupported("live iteration does not terminate")
                    self.assign(st.target, cur, env, mi, st)
                    kind, val = self.exec_stmts(list(st.body), env, mi, lambda e: ("continue", None))
                    if kind == "return":
                        return ("raise", None) if val is BOTTOM else ("return", val)
                    if kind == "break":
                        break
                    cur = it.after(cur)
                return None
            if it is BOTTOM:
                return ("raise", None)
            try:
                seq = _LazySeq(self, it) if isinstance(it, GenV) else (_live_list(it) if type(it) is list else self.concrete_iter(it))
            except _Raised:
                return ("raise", None)
            if seq is None and isinstance(it, (TV, Obj)) and not (isinstance(it, TV) and it.kind == "tensor") and not st.orelse:
                # a collection held by an external (uninterpreted) object: its elements are unknown; the
                # body is evaluated once, on an uninterpreted element, under the guard "non-empty"
                cond = T("nonempty", (_term(it),))
                e2 = env.copy()
                self.assign(st.target, TV(T("elem", (_term(it),)), kind="opaque"), e2, mi, st)
                kind, val = self._guarded(cond, True, lambda: self.exec_stmts(list(st.body), e2, mi, lambda e: ("continue", None)))
                if kind in ("return", "break"):
                    raise Unsupported(f"control transfer in a loop over an uninterpreted collection at {mi.rel}:{st.lineno}")
                self.log("havoc-loop", st, iter=it)
                for name in e2.vars:
                    old = env.vars.get(name, Unknown(f"{name} unbound when the collection is empty"))
                    if not value_eq(e2.vars[name], old):
                        env.vars[name] = self.mkgamma(cond, e2.vars[name], old)
                return None
            if seq is None:
                raise Unsupported(f"loop over non-concrete iterable at {mi.rel}:{st.lineno}")
            seq_it = iter(seq)
            while True:
                try:
                    item = next(seq_it)
                except StopIteration:
                    if st.orelse:
                        kind, val = self.exec_stmts(list(st.orelse), env, mi, lambda e: ("next", None))
                        if kind == "return":
                            return ("return", val)
                    break
                except _Raised:
                    return ("raise", None)
                if isinstance(item, Maybe):
                    # conditional member: the body runs under the membership guard
                    self.assign(st.target, item.value, env, mi, st)
                    kind, val = self._guarded(item.cond, True, lambda: self.exec_stmts(list(st.body), env, mi, lambda e: ("continue", None)))
                    if kind in ("return", "break"):
                        raise Unsupported("control transfer inside a conditionally executed loop body")
                    continue
                self.assign(st.target, item, env, mi, st)
                kind, val = self.exec_stmts(list(st.body), env, mi, lambda e: ("continue", None))
                if kind == "return":
                    if val is BOTTOM:
                        return ("raise", None)
                    return ("return", val)
                if kind == "break":
                    break
            return None
        if isinstance(st, ast.Match):
            kind, val = self.exec_stmts(self._lower_match(st, env, mi), env, mi, lambda e: ("next", None))
            if kind == "next":
                return None
            return (kind, val) if not (kind == "return" and val is BOTTOM) else ("raise", None)
        if isinstance(st, ast.Try):
            mark = len(self.events)
            hnames = set()
            for h_ in st.handlers:
                for x_ in (h_.type.elts if isinstance(h_.type, ast.Tuple) else ([h_.type] if h_.type is not None else [])):
                    hnames.add((_dotted(x_) or "").split(".")[-1])
            catches_attr = "AttributeError" in hnames
            self._catching_attr_error += 1 if catches_attr else 0
            try:
                kind, val = self.exec_stmts(list(st.body), env, mi, lambda e: ("next", None))
            finally:
                self._catching_attr_error -= 1 if catches_attr else 0
            raised = kind == "return" and val is BOTTOM
            out: Optional[Tuple[str, Any]] = None
            if raised:
                excs = [e for e in self.events[mark:] if e.kind == "raise" and e.guard == tuple(self.guard)]
                exc = excs[-1]["exc"] if excs else None
                handler = None
                for h in st.handlers:
                    names = []
                    if h.type is None:
                        names = ["*"]
                    elif isinstance(h.type, ast.Tuple):
                        names = [(_dotted(x) or "").split(".")[-1] for x in h.type.elts]
                    else:
                        names = [(_dotted(h.type) or "").split(".")[-1]]
                    base = (exc or "").split("(")[0]
                    chain_ = list(excs[-1].get("chain") or []) if excs else []
                    if not chain_:
                        chain_, n0_ = [base], base
                        while n0_ in _EXC_PARENT:
                            n0_ = _EXC_PARENT[n0_]
                            chain_.append(n0_)
                    if "*" in names or any(c_ in names for c_ in chain_) or "Exception" in names or "BaseException" in names:
                        handler = h
                        break
                if handler is None or exc is None:
                    out = ("raise", None)
                else:
                    # the exception is handled: it is not an observable raise of the enclosing function
                    last = excs[-1]
                    self.events.remove(last)
                    self.log("handled", st, exc=exc)
                    if handler.name:
                        val_ = last.get("value")
                        if not isinstance(val_, Obj):
                            val_ = Obj("builtins." + base, term=T("exc", (base,)))
                        val_.attrs.setdefault("__chain__", list(last.get("chain") or [base]))
                        val_.attrs.setdefault("__exc__", exc)
                        env.vars[handler.name] = val_
                    self._handling.append({"exc": exc, "chain": last.get("chain"), "value": last.get("value"), "exc_class": last.get("exc_class")})
                    try:
                        k2, v2 = self.exec_stmts(list(handler.body), env, mi, lambda e: ("next", None))
                    finally:
                        self._handling.pop()
                    if k2 != "next":
                        out = (k2, v2) if not (k2 == "return" and v2 is BOTTOM) else ("raise", None)
            elif kind != "next":
                out = (kind, val)
            elif st.orelse:
                k2, v2 = self.exec_stmts(list(st.orelse), env, mi, lambda e: ("next", None))
                if k2 != "next":
                    out = (k2, v2) if not (k2 == "return" and v2 is BOTTOM) else ("raise", None)
            if st.finalbody:
                k3, v3 = self.exec_stmts(list(st.finalbody), env, mi, lambda e: ("next", None))
                if k3 != "next":
                    out = (k3, v3) if not (k3 == "return" and v3 is BOTTOM) else ("raise", None)
            return out
        if isinstance(st, ast.While):
            for _ in range(20000):
                c = self.truth(self.eval(st.test, env, mi), st)
                if c is False:
                    break
                if c is not True:
                    if isinstance(c, T) and not st.orelse:
                        # the bound comes from an uninterpreted (external) value, e.g. `i < len(doc.params)`:
                        # as for a `for` over such a collection, the body is evaluated once on uninterpreted
                        # elements under the guard, and what it assigns becomes conditional
                        e2 = env.copy()
                        kind, val = self._guarded(c, True, lambda: self.exec_stmts(list(st.body), e2, mi, lambda e: ("continue", None)))
                        if kind in ("return", "break"):
                            raise Unsupported(f"control transfer in a loop bounded by an uninterpreted value at {mi.rel}:{st.lineno}")
                        self.log("havoc-loop", st, iter=c)
                        for name in e2.vars:
                            old = env.vars.get(name, Unknown(f"{name} unbound when the loop body does not run"))
                            if not value_eq(e2.vars[name], old):
                                env.vars[name] = self.mkgamma(c, e2.vars[name], old)
                        break
                    raise Unsupported(f"while loop with undecidable condition at {mi.rel}:{st.lineno}")
                kind, val = self.exec_stmts(list(st.body), env, mi, lambda e: ("continue", None))
                if kind == "return":
                    return ("raise", None) if val is BOTTOM else ("return", val)
                if kind == "break":
                    break
            else:
                raise Unsupported("while loop does not terminate within the bound")
            return None
        if isinstance(st, ast.With):
            return self._exec_with(st, 0, env, mi)
        if isinstance(st, ast.Break):
            return ("break", None)
        if isinstance(st, ast.Continue):
            return ("continue", None)
        if isinstance(st, (ast.Import, ast.ImportFrom)):
            tmp = ModInfo.__new__(ModInfo)
            tmp.interp, tmp.module, tmp.name, tmp.rel = self, mi.module, mi.name, mi.rel
            tmp._thunks, tmp._cache, tmp._busy = {}, {}, set()
            tmp._scan([st])
            for nm in tmp.names():
                env.vars[nm] = tmp.get(nm)
            return None
        if isinstance(st, ast.Delete):
            for t in st.targets:
                self.log("delete", st, target=ast.unparse(t))
                if isinstance(t, ast.Name):
                    env.vars.pop(t.id, None)
                elif isinstance(t, ast.Subscript):
                    obj = self.eval(t.value, env, mi)
                    idx = self.eval(t.slice, env, mi)
                    if isinstance(obj, dict) and _hashable(idx):
                        if idx in obj:
                            del obj[idx]
                        else:
                            self.log("raise", st, exc="KeyError")
                            return ("raise", "KeyError")
                    elif isinstance(obj, list) and isinstance(idx, (int, slice)):
                        del obj[idx]
                    elif self.dunder(obj, "__delitem__") is not None:
                        if self.call_function(self.dunder(obj, "__delitem__"), [idx], {}, st) is BOTTOM:
                            return ("raise", None)
                    else:
                        raise Unsupported("del of a non-concrete container item")
                elif isinstance(t, ast.Attribute):
                    obj = self.eval(t.value, env, mi)
                    if isinstance(obj, Obj):
                        obj.attrs.pop(t.attr, None)
            return None
        if isinstance(st, ast.Nonlocal):
            env.outer_names.update(st.names)
            return None
        if isinstance(st, ast.Global):
            self.log("global-decl", st, names=list(st.names))
            env.global_names.update(st.names)
            return None
        raise Unsupported(f"statement {type(st).__name__} at {mi.rel}:{st.lineno}")

    def _exec_with(self, st: ast.With, idx: int, env: Env, mi: ModInfo) -> Optional[Tuple[str, Any]]:
        if idx >= len(st.items):
            kind, val = self.exec_stmts(list(st.body), env, mi, lambda e: ("next", None))
            if kind in ("return", "break", "continue"):
                return (kind, val) if not (kind == "return" and val is BOTTOM) else ("raise", None)
            return None
        item = st.items[idx]
        cm = self.eval(item.context_expr, env, mi)
        if isinstance(cm, CtxGen):
            # generator-based context manager defined in the repository: run its body, and the
            # remaining items / the with-body at its yield
            box: List[Any] = []

            def at_yield(value: Any) -> None:
                self._ctx_yield.append((-1, None))  # nested yields are not this manager's
                try:
                    if item.optional_vars is not None:
                        self.assign(item.optional_vars, value, env, mi, st)
                    box.append(self._exec_with(st, idx + 1, env, mi))
                finally:
                    self._ctx_yield.pop()

            self._ctx_yield.append((self.depth + 1, at_yield))
            self._ctx_running = cm.func
            try:
                r = self._call_funcv(cm.func, cm.args, cm.kwargs, st)
            finally:
                self._ctx_yield.pop()
                self._ctx_running = None
            if not box:
                if r is BOTTOM:
                    return ("raise", None)
                raise Unsupported(f"context manager {cm.func.qualname} did not yield")
            if r is BOTTOM and box[0] is None:
                return ("raise", None)
            return box[0]
        self.log("with", st, ctx=cm)
        gm_ = _grad_mode_of(cm)
        if gm_ is not None:
            # torch.no_grad() / inference_mode() / set_grad_enabled(False) (or enable_grad()): tensors created in the
            # block carry the grad-mode typestate
            from . import values as _V

            saved_ = _V.GRAD_MODE[0]
            _V.GRAD_MODE[0] = (saved_ + 1) if gm_ is False else 0
            try:
                return self._exec_with(st, idx + 1, env, mi)
            finally:
                _V.GRAD_MODE[0] = saved_
        m_enter, m_exit = self.dunder(cm, "__enter__"), self.dunder(cm, "__exit__")
        entered = self.call_function(m_enter, [], {}, st) if m_enter is not None else cm
        if entered is BOTTOM:
            return ("raise", None)
        if item.optional_vars is not None:
            self.assign(item.optional_vars, entered, env, mi, st)
        out = self._exec_with(st, idx + 1, env, mi)
        if isinstance(cm, Obj) and "__exit__" in cm.attrs:
            self.call_function(cm.attrs["__exit__"], [], {}, st)
        elif m_exit is not None:
            self.call_function(m_exit, [None, None, None], {}, st)  # normal exit; on an exception the raise is what the caller sees
        return out

    def _match(self, pat: Any, subj: Any, binds: Dict[str, Any], env: Env, mi: ModInfo) -> Any:
        """Structural pattern match: True / False / a condition term (decided only at run
        time; the bindings are then valid under that condition) / None (not representable)."""

        def conj(parts: List[Any]) -> Any:
            if any(p is None for p in parts):
                return False if any(p is False for p in parts) else None
            return _boolcomb(True, parts)

        if isinstance(subj, Gamma):
            return None
        if isinstance(pat, ast.MatchValue):
            r = self.compare(ast.Eq(), subj, self.eval(pat.value, env, mi), pat)
            return r if isinstance(r, bool) or _is_cond(r) else None
        if isinstance(pat, ast.MatchSingleton):
            r = self.compare(ast.Is(), subj, pat.value, pat)
            return r if isinstance(r, bool) or _is_cond(r) else None
        if isinstance(pat, ast.MatchAs):
            r: Any = True
            if pat.pattern is not None:
                r = self._match(pat.pattern, subj, binds, env, mi)
                if r is False or r is None:
                    return r
            if pat.name:
                binds[pat.name] = subj
            return r
        if isinstance(pat, ast.MatchOr):
            if all(isinstance(p_, ast.MatchClass) and not p_.patterns and not p_.kwd_patterns for p_ in pat.patterns):
                # `int() | float()`: one isinstance test against the tuple of classes
                r = BUILTINS["isinstance"].fn(self, [subj, tuple(self.eval(p_.cls, env, mi) for p_ in pat.patterns)], {}, pat)
                return r if isinstance(r, bool) or _is_cond(r) else None
            parts = []
            for p_ in pat.patterns:
                r = self._match(p_, subj, binds, env, mi)
                if r is True:
                    return True if not parts else (None if any(x is None for x in parts) else _boolcomb(False, parts + [True]))
                if r is False:
                    continue
                parts.append(r)
            if not parts:
                return False
            if any(x is None for x in parts):
                return None
            return _boolcomb(False, parts)
        if isinstance(pat, ast.MatchClass):
            cls = self.eval(pat.cls, env, mi)
            r = BUILTINS["isinstance"].fn(self, [subj, cls], {}, pat)
            if r is False:
                return False
            if r is not True and not _is_cond(r):
                return None
            parts = [r]
            if pat.patterns:
                margs = None
                if isinstance(cls, ClassV):
                    margs = self.class_attr(cls, "__match_args__")
                    if margs is None and self.is_subclass_of_ext(cls, "NamedTuple"):
                        margs = self.getattr(cls, "_fields", pat)
                    if margs is None and self.is_dataclass(cls):
                        margs = tuple(st.target.id for st in cls.node.body if isinstance(st, ast.AnnAssign) and isinstance(st.target, ast.Name))
                if margs is None:
                    if len(pat.patterns) == 1 and not isinstance(cls, ClassV):
                        parts.append(self._match(pat.patterns[0], subj, binds, env, mi))  # int(x), str(x), ...
                    else:
                        return None
                else:
                    for p_, nm in zip(pat.patterns, margs):
                        parts.append(self._match(p_, self.getattr(subj, nm, pat), binds, env, mi))
            for nm, p_ in zip(pat.kwd_attrs, pat.kwd_patterns):
                mark_ = len(self.events)
                av_ = self.getattr(subj, nm, pat)
                if av_ is BOTTOM:
                    del self.events[mark_:]  # no such attribute: the pattern does not match (no error)
                    return False
                parts.append(self._match(p_, av_, binds, env, mi))
            return conj(parts)
        if isinstance(pat, ast.MatchMapping):
            if not isinstance(subj, dict):
                return False if not isinstance(subj, (TV, Obj, Unknown)) else None
            used, parts = [], []
            for k_, p_ in zip(pat.keys, pat.patterns):
                kv = self.eval(k_, env, mi)
                if not (_hashable(kv) and kv in subj):
                    return False
                used.append(kv)
                parts.append(self._match(p_, subj[kv], binds, env, mi))
            if pat.rest:
                binds[pat.rest] = {k_: v_ for k_, v_ in subj.items() if k_ not in used}
            return conj(parts)
        if isinstance(pat, ast.MatchSequence):
            if isinstance(subj, Shape):
                subj = tuple(subj)
            if isinstance(subj, OneShot) or not isinstance(subj, (tuple, list)):
                return False if not isinstance(subj, (TV, Obj, Unknown)) else None
            pats = pat.patterns
            stars = [i for i, p_ in enumerate(pats) if isinstance(p_, ast.MatchStar)]
            parts = []
            if not stars:
                if len(pats) != len(subj):
                    return False
                for p_, x in zip(pats, subj):
                    parts.append(self._match(p_, x, binds, env, mi))
                    if parts[-1] is False:
                        return False
                return conj(parts)
            i = stars[0]
            after = len(pats) - i - 1
            if len(subj) < len(pats) - 1:
                return False
            for p_, x in zip(pats[:i], subj[:i]):
                parts.append(self._match(p_, x, binds, env, mi))
            if pats[i].name:
                binds[pats[i].name] = list(subj[i : len(subj) - after])
            for p_, x in zip(pats[i + 1 :], subj[len(subj) - after :]):
                parts.append(self._match(p_, x, binds, env, mi))
            return conj(parts)
        return None

    def _lower_match(self, st: ast.Match, env: Env, mi: ModInfo) -> List[ast.stmt]:
        """Rewrite a match statement, for the current subject value, into the statements of the
        selected case, or into an if/else on a run-time condition followed by the remaining cases."""
        subj = self.eval(st.subject, env, mi) if not isinstance(st.subject, ast.Constant) or not getattr(st.subject, "_usa_value", False) else st.subject.value
        if isinstance(subj, Gamma):
            raise Unsupported(f"match on a γ-valued subject at {mi.rel}:{st.lineno}")
        for i, case in enumerate(st.cases):
            binds: Dict[str, Any] = {}
            m = self._match(case.pattern, subj, binds, env, mi)
            if m is None:
                raise Unsupported(f"match statement with an undecidable pattern at {mi.rel}:{st.lineno}")
            if m is False:
                continue
            for k_, v_ in binds.items():
                env.set(k_, v_)
            if m is True and case.guard is None:
                return list(case.body)
            sub = ast.Constant(value=subj)
            sub._usa_value = True  # type: ignore[attr-defined]
            rest = ast.Match(subject=sub, cases=st.cases[i + 1 :])
            tests: List[ast.expr] = []
            if m is not True:
                tests.append(ast.Constant(value=m))
            if case.guard is not None:
                tests.append(case.guard)
            test = tests[0] if len(tests) == 1 else ast.BoolOp(op=ast.And(), values=tests)
            node = ast.If(test=test, body=list(case.body), orelse=[rest] if rest.cases else [])
            for x in (sub, rest, test, node, *tests):
                ast.copy_location(x, st)
            ast.fix_missing_locations(node)
            return [node]
        return []

    def concrete_iter_peek(self, it: Any) -> Optional[List[Any]]:
        """concrete_iter without consuming a one-shot iterable."""
        if isinstance(it, GenV) or type(it).__name__ == "LiveIter":
            return []  # cannot look ahead: treated as a concrete (lazy) iterable
        if isinstance(it, OneShot):
            return [] if it.consumed else list(it)[it.pos :]
        return self.concrete_iter(it)

    def concrete_iter(self, it: Any) -> Optional[List[Any]]:
        if isinstance(it, GenV):
            return self.gen_exhaust(it)
        if type(it).__name__ == "LiveIter":
            out_: List[Any] = []
            while not it.done and len(out_) < 5000:
                nxt = it.live.after(it.cur) if it.started else it.live.first()
                it.started = True
                if nxt is None:
                    it.done = True
                    break
                it.cur = nxt
                out_.append(nxt)
            return out_
        if isinstance(it, OneShot):
            if it.consumed:
                return []
            it.consumed = True
            return list(it)[it.pos :]
        if isinstance(it, (tuple, list)):
            return list(it)
        m_iter = self.dunder(it, "__iter__") if isinstance(it, Obj) else None
        if m_iter is not None:
            return self.concrete_iter(self.call_function(m_iter, [], {}, None))
        if isinstance(it, ClassV) and self.enum_members(it) is not None:
            return list(self.enum_members(it).values())
        if isinstance(it, (set, frozenset)):
            return sorted(it, key=_set_order)
        if hasattr(it, "snapshot") and hasattr(it, "after"):
            return it.snapshot()
        if isinstance(it, Obj) and isinstance(it.attrs.get("_modules"), dict):
            return list(it.attrs["_modules"].values())  # iterating an nn container
        if isinstance(it, range):
            return list(it)
        if isinstance(it, str):
            return list(it)
        if isinstance(it, dict):
            return list(it.keys())
        if isinstance(it, _DictItems):
            return list(it.items)
        return None

    def assign(self, target: ast.AST, v: Any, env: Env, mi: ModInfo, st: ast.AST) -> None:
        if isinstance(target, ast.Name):
            if self._is_global_name(env, target.id):
                # `global x` in this function: the module's binding is updated (seen by every later reader)
                mi._cache[target.id] = v
                mi._thunks.setdefault(target.id, ("assign", ast.Constant(value=None), None))
                self.log("global-store", st, name=target.id, value=v)
                return
            env.set(target.id, v)
            return
        if isinstance(target, (ast.Tuple, ast.List)):
            if isinstance(v, Gamma):
                # distribute unpacking over the γ-node
                parts_a = self._unpack(target, v.a)
                parts_b = self._unpack(target, v.b)
                for t, a, b in zip(target.elts, parts_a, parts_b):
                    self.assign(t, self.mkgamma(v.cond, a, b), env, mi, st)
                return
            for t, x in zip(target.elts, self._unpack(target, v)):
                self.assign(t, x, env, mi, st)
            return
        if isinstance(target, ast.Attribute):
            obj = self.eval(target.value, env, mi)
            self.setattr_value(obj, target.attr, v, st)
            return
        if isinstance(target, ast.Subscript):
            obj = self.eval(target.value, env, mi)
            idx = self.eval(target.slice, env, mi)
            m_set = self.dunder(obj, "__setitem__")
            if m_set is not None:
                self.call_function(m_set, [idx, v], {}, st)
                return
            if isinstance(obj, dict) and _hashable(idx):
                ids_ = [k_ for k_ in (idx if isinstance(idx, tuple) else (idx,)) if type(k_).__name__ == "IdInt"]
                if ids_ and any(obj is g_ for m_ in self._mods.values() for g_ in m_._cache.values() if isinstance(g_, dict)):
                    # a module-level table keyed by id(x): unless x itself is kept alive by the entry, the key can be
                    # taken over by another object once x is collected
                    def holds(val: Any, target: Any, depth: int = 0) -> bool:
                        if val is target:
                            return True
                        if depth > 3:
                            return False
                        if isinstance(val, (tuple, list)):
                            return any(holds(x_, target, depth + 1) for x_ in val)
                        if isinstance(val, dict):
                            return any(holds(x_, target, depth + 1) for x_ in val.values())
                        return False

                    for k_ in ids_:
                        if not holds(v, k_.of):
                            self.log("identity-keyed-cache", st, key=idx, table=obj)
                obj[idx] = v
                return
            if isinstance(obj, list) and isinstance(idx, int):
                obj[idx] = v
                return
            if isinstance(obj, list) and isinstance(idx, slice):
                seq = self.concrete_iter(v)
                if seq is None:
                    raise Unsupported("slice assignment from a non-concrete iterable")
                obj[idx] = seq
                return
            self.log("setitem", st, obj=obj, index=idx, value=v)
            if isinstance(obj, TV):
                self.log("inplace", st, target=obj, op="setitem", alias=obj.alias)
            return
        if isinstance(target, ast.Starred):
            self.assign(target.value, v, env, mi, st)
            return
        raise Unsupported(f"assignment target {type(target).__name__}")

    def setattr_value(self, obj: Any, attr: str, v: Any, st: Any) -> None:
        """obj.attr = v  (also what the builtin setattr() does)."""
        if isinstance(obj, Obj) and isinstance(obj.cls, ClassV) and obj.term is None:
            setter = self.class_setter(obj.cls, attr)
            if setter is not None:
                self.call_function(setter, [obj, v], {}, st)
                return
        if isinstance(obj, Obj):
            if ("set:" + attr) in obj.dyn:
                obj.dyn["set:" + attr](v)
            else:
                obj.attrs[attr] = v
            obj.stores.append((attr, v))
            self.log("setattr", st, obj=obj, attr=attr, value=v)
            return
        if isinstance(obj, TV):
            self.log("setattr", st, obj=obj, attr=attr, value=v)
            if attr == "data" or obj.kind == "tensor":
                self.log("inplace", st, target=obj, op=f"setattr .{attr}", alias=obj.alias)
            return
        if isinstance(obj, FuncV):
            obj.attrs[attr] = v
        elif isinstance(obj, ClassV):
            obj.overrides[attr] = v
        self.log("setattr", st, obj=obj, attr=attr, value=v)

    def _unpack(self, target: Any, v: Any) -> List[Any]:
        n = len(target.elts)
        star = [i for i, e in enumerate(target.elts) if isinstance(e, ast.Starred)]
        if v is BOTTOM:
            return [BOTTOM] * n
        if isinstance(v, (GenV, OneShot)) or type(v).__name__ == "LiveIter" or isinstance(v, (set, frozenset, dict, range)) or (isinstance(v, Obj) and self.dunder(v, "__iter__") is not None):
            v = self.concrete_iter(v)
        if isinstance(v, (tuple, list)):
            seq = list(v)
            if star:
                s = star[0]
                after = n - s - 1
                if len(seq) < n - 1:
                    self.log("raise", target, exc="ValueError(unpack)")
                    raise _AssignRaised()
                mid = seq[s : len(seq) - after]
                out = seq[:s] + [list(mid)] + seq[len(seq) - after :]
                # the Starred target is assigned via its .value below
                return out
            if len(seq) != n:
                self.log("raise", target, exc="ValueError(unpack)")
                raise _AssignRaised()
            return seq
        if isinstance(v, (TV, Obj)):
            return [TV(T("getitem", (_term(v), i)), kind=getattr(v, "kind", "tensor")) for i in range(n)]
        if isinstance(v, Unknown):
            return [Unknown(v.why)] * n
        raise Unsupported(f"unpack of {type(v).__name__}")

    # ------------------------------------------------------------------ truthiness
    def truth(self, v: Any, node: Any = None) -> Any:
        """True / False when decidable, otherwise the condition value itself."""
        r = self._truth(v, node)
        if self.decide is not None and not isinstance(r, bool) and not isinstance(r, Gamma):
            d = self.decide(r)
            if d is not None:
                return d
        return r

    def _truth(self, v: Any, node: Any = None) -> Any:
        if isinstance(v, bool):
            return v
        if v is None:
            return False
        if isinstance(v, NTuple) and v.cls is not None:
            for dn_ in ("__bool__", "__len__"):
                m = self.dunder(v, dn_)
                if m is not None:
                    return self._truth(self.call_function(m, [], {}, node), node)
        if isinstance(v, (int, str, tuple, list, dict, Shape, range, set, frozenset)):
            return bool(v)
        if isinstance(v, sp.Basic):
            v = num(v)
            if isinstance(v, (bool, int)):
                return bool(v)
            if v is sp.true:
                return True
            if v is sp.false:
                return False
            if isinstance(v, sp.Expr):
                if v.is_zero is True:
                    return False
                if v.is_zero is False:
                    return True
                return sp.Ne(v, 0)
            return v
        if isinstance(v, TV):
            if v.kind == "tensor":
                self.log("data-truth", node, value=v)
            return T("truth", (v.term,))
        if isinstance(v, (FuncV, ClassV, ExtV, ModV, Bound)):
            return True
        if isinstance(v, Obj):
            for dn_ in ("__bool__", "__len__"):
                m = self.dunder(v, dn_)
                if m is not None:
                    return self._truth(self.call_function(m, [], {}, node), node)
            if v.term is None and v.cls is not None and not v.open_attrs:
                return True  # an instance of a repository class without __bool__/__len__
            return T("truth", (_term(v),))
        if isinstance(v, Gamma):
            a, b = self.truth(v.a, node), self.truth(v.b, node)
            if a is b and isinstance(a, bool):
                return a
            if isinstance(a, Gamma) or isinstance(b, Gamma):
                return Gamma(v.cond, a, b)
            # truth of γ(c ? a : b)  ==  (c and a) or (not c and b)
            return _boolcomb(False, [_boolcomb(True, [v.cond, a]), _boolcomb(True, [_not(v.cond), b])])
        if isinstance(v, Unknown):
            return T("truth", (T("unknown", (v.why,)),))
        if isinstance(v, T):
            return v
        if isinstance(v, _DictItems):
            return bool(v.items)
        raise Unsupported(f"truth of {type(v).__name__}")

    # ------------------------------------------------------------------ expressions
    def eval(self, node: ast.AST, env: Env, mi: ModInfo) -> Any:
        saved = self.cur_mod
        self.cur_mod = mi
        try:
            m = getattr(self, "e_" + type(node).__name__, None)
            if m is None:
                raise Unsupported(f"expression {type(node).__name__} at {mi.rel}:{getattr(node, 'lineno', '?')}")
            try:
                return m(node, env, mi)
            except Unsupported as ex:
                if " @ " not in str(ex):
                    raise Unsupported(f"{ex} @ {mi.rel}:{getattr(node, 'lineno', '?')}") from None
                raise
        finally:
            self.cur_mod = saved

    def e_Constant(self, n: ast.Constant, env: Env, mi: ModInfo) -> Any:
        v = n.value
        if isinstance(v, (int, float)) and not isinstance(v, bool):
            return num(v)
        if v is Ellipsis:
            return Ellipsis
        return v

    def _is_global_name(self, env: Env, name: str) -> bool:
        e: Optional[Env] = env
        while e is not None:
            if name in e.global_names:
                return True
            if name in e.vars:
                return False
            e = e.parent
        return False

    def e_Name(self, n: ast.Name, env: Env, mi: ModInfo) -> Any:
        if env.global_names and self._is_global_name(env, n.id) and mi.has(n.id):
            return mi.get(n.id)
        ok, v = env.lookup(n.id)
        if ok:
            return v
        if mi.has(n.id):
            return mi.get(n.id)
        if n.id in BUILTINS:
            return BUILTINS[n.id]
        if n.id in ("__name__",):
            return mi.name
        return Unknown(f"unbound name {n.id}")

    def e_Tuple(self, n: ast.Tuple, env: Env, mi: ModInfo) -> Any:
        try:
            return tuple(self._elts(n.elts, env, mi))
        except _OpaqueStar as e:
            return e.value

    def e_List(self, n: ast.List, env: Env, mi: ModInfo) -> Any:
        try:
            return list(self._elts(n.elts, env, mi))
        except _OpaqueStar as e:
            return e.value

    def e_Set(self, n: ast.Set, env: Env, mi: ModInfo) -> Any:
        return make_set(self._elts(n.elts, env, mi))

    def _elts(self, elts: Sequence[ast.AST], env: Env, mi: ModInfo) -> List[Any]:
        out: List[Any] = []
        for e in elts:
            if isinstance(e, ast.Starred):
                v = self.eval(e.value, env, mi)
                seq = self.concrete_iter(v)
                if seq is None:
                    if isinstance(v, ExtV) or (isinstance(v, TV) and v.kind == "opaque"):
                        # unpacking an external / uninterpreted collection: the display is uninterpreted too
                        parts = tuple(T("star", (_term(self.eval(x.value, env, mi)),)) if isinstance(x, ast.Starred) else _term(self.eval(x, env, mi)) for x in elts)
                        raise _OpaqueStar(TV(T("display", parts), kind="opaque"))
                    raise Unsupported("star of non-concrete sequence")
                out.extend(seq)
            else:
                out.append(self.eval(e, env, mi))
        return out

    def e_Dict(self, n: ast.Dict, env: Env, mi: ModInfo) -> Any:
        d: Dict[Any, Any] = {}
        for k, v in zip(n.keys, n.values):
            if k is None:
                inner = self.eval(v, env, mi)
                if not isinstance(inner, dict):
                    raise Unsupported("** of non-concrete dict")
                d.update(inner)
            else:
                kk = self.eval(k, env, mi)
                if not _hashable(kk):
                    raise Unsupported("unhashable dict key")
                d[kk] = self.eval(v, env, mi)
        return d

    def e_JoinedStr(self, n: ast.JoinedStr, env: Env, mi: ModInfo) -> Any:
        parts: List[str] = []
        for v in n.values:
            if isinstance(v, ast.Constant):
                parts.append(str(v.value))
            elif isinstance(v, ast.FormattedValue):
                try:
                    val = self.eval(v.value, env, mi)
                    if isinstance(val, Obj):
                        m_fmt = self.dunder(val, "__format__") if v.conversion == -1 else None
                        m_str = self.dunder(val, "__repr__" if v.conversion == ord("r") else "__str__")
                        if m_fmt is not None:
                            spec = self.eval(v.format_spec, env, mi) if v.format_spec is not None else ""
                            val = self.call_function(m_fmt, [spec], {}, v)
                        elif m_str is not None:
                            val = self.call_function(m_str, [], {}, v)
                    parts.append(format_value(val))
                except Unsupported:
                    parts.append("{?}")
        return "".join(parts)

    def e_Lambda(self, n: ast.Lambda, env: Env, mi: ModInfo) -> Any:
        return FuncV(n, mi, env, "<lambda>")

    def e_IfExp(self, n: ast.IfExp, env: Env, mi: ModInfo) -> Any:
        c = self.truth(self.eval(n.test, env, mi), n)
        if c is True:
            return self.eval(n.body, env, mi)
        if c is False:
            return self.eval(n.orelse, env, mi)
        if isinstance(c, Gamma):
            raise Unsupported("γ-valued condition")
        pol = self.guard_lookup(c)
        if pol is not None:
            return self.eval(n.body if pol else n.orelse, env, mi)
        a = self._guarded(c, True, lambda: self.eval(n.body, env, mi))
        b = self._guarded(c, False, lambda: self.eval(n.orelse, env, mi))
        return self.mkgamma(c, a, b)

    def e_BoolOp(self, n: ast.BoolOp, env: Env, mi: ModInfo) -> Any:
        """Python semantics: `a or b` / `a and b` return one of the operand *values*;
        an undecidable operand gives a gated value γ(truth(a) ? ... : ...)."""
        is_and = isinstance(n.op, ast.And)

        def rec(i: int) -> Any:
            val = self.eval(n.values[i], env, mi)
            if i == len(n.values) - 1:
                return val
            t = self.truth(val, n)
            if t is True:
                return rec(i + 1) if is_and else val
            if t is False:
                return val if is_and else rec(i + 1)
            if isinstance(t, Gamma):
                raise Unsupported("γ-valued operand of a boolean operator")
            pol = self.guard_lookup(t)
            if pol is not None:
                return (rec(i + 1) if pol else val) if is_and else (val if pol else rec(i + 1))
            # value of the remaining operands under the guard that decides them
            rest = self._guarded(t, is_and, lambda: rec(i + 1))
            if is_and:
                # a and rest: rest if a is truthy else a.  When both are conditions keep a condition.
                if _is_cond(val):  # boolean-valued left operand: the whole expression is a condition
                    return _boolcomb(True, [t, self.truth(rest, n)])
                return self.mkgamma(t, rest, val)
            if _is_cond(val):
                return _boolcomb(False, [t, self.truth(rest, n)])
            return self.mkgamma(t, val, rest)

        return rec(0)

    def e_UnaryOp(self, n: ast.UnaryOp, env: Env, mi: ModInfo) -> Any:
        v = self.eval(n.operand, env, mi)
        return self.lift(lambda x: self.unop(n.op, x, n), v)

    def unop(self, op: ast.unaryop, x: Any, node: Any) -> Any:
        if isinstance(op, ast.Not):
            t = self.truth(x, node)
            if isinstance(t, bool):
                return not t
            if isinstance(t, sp.Basic):
                return sp.Not(t)
            return T("not", (t,))
        if isinstance(x, Unknown):
            return x
        if isinstance(x, (TV, Obj)):
            name = {ast.USub: "neg", ast.UAdd: "pos", ast.Invert: "invert"}[type(op)]
            if isinstance(x, TV) and x.const is not None and name == "neg":
                return TV(T("tensor", (num(-x.const),)), const=num(-x.const), dtype=x.dtype)
            return TV(T(name, (_term(x),)), shape=getattr(x, "shape", None), dtype=getattr(x, "dtype", None))
        if isinstance(op, ast.USub):
            return num(-_sym(x))
        if isinstance(op, ast.UAdd):
            return x
        if isinstance(op, ast.Invert) and isinstance(x, int):
            return ~x
        raise Unsupported("unary op")

    def e_BinOp(self, n: ast.BinOp, env: Env, mi: ModInfo) -> Any:
        a = self.eval(n.left, env, mi)
        if a is BOTTOM:
            return BOTTOM  # the left operand raised: the right one is never evaluated
        b = self.eval(n.right, env, mi)
        if b is BOTTOM:
            return BOTTOM
        return self.lift(lambda x, y: self.binop(n.op, x, y, n), a, b)

    def binop(self, op: ast.operator, a: Any, b: Any, node: Any, inplace: bool = False) -> Any:
        name = _OPNAME[type(op)]
        a, b = self.coerce_enum(a), self.coerce_enum(b)
        if isinstance(a, Unknown):
            return a
        if isinstance(b, Unknown):
            return b
        dn_ = {"add": "add", "sub": "sub", "mul": "mul", "div": "truediv", "floordiv": "floordiv", "mod": "mod", "pow": "pow", "and": "and", "or": "or", "xor": "xor", "matmul": "matmul", "lshift": "lshift", "rshift": "rshift"}.get(name)
        if dn_:
            m_op = (self.dunder(a, f"__i{dn_}__") if inplace else None) or self.dunder(a, f"__{dn_}__")
            if m_op is not None:
                return self.call_function(m_op, [b], {}, node)
            m_rop = self.dunder(b, f"__r{dn_}__")
            if m_rop is not None:
                return self.call_function(m_rop, [a], {}, node)
        if isinstance(a, (TV, Obj)) or isinstance(b, (TV, Obj)):
            return self.ext.tensor_binop(self, name, a, b, node, inplace)
        if (isinstance(a, ExtV) and a.name not in self.ext.DTYPES) or (isinstance(b, ExtV) and b.name not in self.ext.DTYPES):
            # an external constant (e.g. a library's default list) combined with a value: uninterpreted
            return TV(T(name, (_term(a), _term(b))), kind="opaque")
        if isinstance(a, str) or isinstance(b, str):
            if name == "add" and isinstance(a, str) and isinstance(b, str):
                return a + b
            if name == "mod" and isinstance(a, str):
                return _percent_format(a, b)
            if name == "mod":
                return "<formatted>"
            if name == "mul":
                return "<str>"
            raise Unsupported("string operator")
        if name in ("and", "or", "sub", "xor") and (isinstance(a, (set, frozenset)) or isinstance(b, (set, frozenset))) and isinstance(a, (set, frozenset, list)) and isinstance(b, (set, frozenset, list)):
            # dict.keys() views (modelled as lists) take part in set algebra
            try:
                a, b = set(a), set(b)
            except TypeError:
                raise Unsupported("set algebra over unhashable abstract values")
        if isinstance(a, (set, frozenset)) and isinstance(b, (set, frozenset)) and name in ("and", "or", "sub", "xor"):
            return {"and": a & b, "or": a | b, "sub": a - b, "xor": a ^ b}[name]
        if isinstance(a, dict) and isinstance(b, dict) and name == "or":
            return {**a, **b}
        if isinstance(a, (tuple, list)) and isinstance(b, (tuple, list)) and name == "add":
            return type(a)(list(a) + list(b)) if not isinstance(a, Shape) else Shape(tuple(a) + tuple(b))
        if isinstance(a, (tuple, list)) and isinstance(b, int) and name == "mul":
            return type(a)(list(a) * b)
        if isinstance(b, (tuple, list)) and not isinstance(b, Shape) and isinstance(a, int) and not isinstance(a, bool) and name == "mul":
            return type(b)(list(b) * a)  # 2 * (p,) == (p, p)
        if (isinstance(a, (tuple, list)) or isinstance(b, (tuple, list))) and not isinstance(a, Shape) and not isinstance(b, Shape):
            other = b if isinstance(a, (tuple, list)) else a
            if isinstance(other, (int, float, sp.Basic)) and not (name == "mul" and not isinstance(other, (int,)) and getattr(other, "is_integer", False)):
                # a sequence combined with a number (other than repetition by an int): TypeError in Python
                self.log("raise", node, exc="TypeError")
                return BOTTOM
        if isinstance(a, dict) or isinstance(b, dict):
            raise Unsupported("dict operator")
        return scalar_binop(name, a, b)

    def e_Compare(self, n: ast.Compare, env: Env, mi: ModInfo) -> Any:
        left = self.eval(n.left, env, mi)
        result: Any = True
        pend: List[Any] = []
        for op, rn in zip(n.ops, n.comparators):
            right = self.eval(rn, env, mi)
            r = self.lift(lambda x, y: self.compare(op, x, y, n), left, right)
            if len(n.ops) == 1 and isinstance(r, TV) and r.kind == "tensor":
                return r  # elementwise tensor comparison: a tensor value, not a truth value
            t = self.truth(r, n) if not isinstance(r, (T, sp.Basic)) else r
            if t is False:
                return False
            if t is not True:
                pend.append(t)
            left = right
        if not pend:
            return True
        return pend[0] if len(pend) == 1 else _boolcomb(True, pend)

    def compare(self, op: ast.cmpop, a: Any, b: Any, node: Any) -> Any:
        if not isinstance(op, (ast.Is, ast.IsNot)):
            a, b = self.coerce_enum(a), self.coerce_enum(b)
        if isinstance(op, (ast.Is, ast.IsNot)):
            neg = isinstance(op, ast.IsNot)
            if a is None or b is None:
                other = b if a is None else a
                if other is None:
                    return not neg
                if isinstance(other, Unknown):
                    return T("is", (T("unknown", (other.why,)), None)) if not neg else T("not", (T("is", (T("unknown", (other.why,)), None)),))
                if isinstance(other, TV) and other.kind == "opaque" and other.term.op in ("attr", "param", "getitem", "method", "callv"):
                    c = T("is", (other.term, None))
                    return T("not", (c,)) if neg else c
                return neg  # a definite non-None value
            if isinstance(a, (bool,)) or isinstance(b, bool):
                r = a is b
                return (not r) if neg else r
            if isinstance(a, str) and isinstance(b, str) and a == b:
                # identity of two equal strings is an accident of interning (a tag that went through pickle is an
                # equal but different object): neither outcome can be relied on
                c = T("is", (T("strobj", (a, "lhs")), T("strobj", (b, "rhs"))))
                self.log("string-identity", node, value=a)
                return T("not", (c,)) if neg else c
            if isinstance(a, Obj) and isinstance(b, Obj) and not a.open_attrs and not b.open_attrs:
                return (a is b) != neg
            for s_, o_ in ((a, b), (b, a)):
                # a sentinel made by `object()` in the analysed code is identical only to itself: a value that
                # comes from elsewhere (a parameter, an element of the caller's list) cannot be it
                if isinstance(s_, Obj) and s_.cls_name == "builtins.object" and s_.cls is None and o_ is not s_ and not isinstance(o_, (Gamma, Unknown)):
                    return neg
            if isinstance(a, (TV, Obj)) and isinstance(b, (TV, Obj)):
                if a is b or _term(a) == _term(b):
                    return not neg
                c = T("is", (_term(a), _term(b)))
                return T("not", (c,)) if neg else c
            if a is Ellipsis or b is Ellipsis:
                r = a is b
                return (not r) if neg else r
            r = value_eq(a, b)
            return (not r) if neg else r
        if isinstance(op, (ast.In, ast.NotIn)):
            neg = isinstance(op, ast.NotIn)
            if isinstance(b, dict):
                b = list(b.keys())
            m_c = self.dunder(b, "__contains__")
            if m_c is not None:
                r = self.truth(self.call_function(m_c, [a], {}, node), node)
                return _not(r) if neg else r
            if isinstance(b, str) and isinstance(a, str):
                r = a in b
                return (not r) if neg else r
            seq = self.concrete_iter(b)
            if seq is None:
                c = T("in", (_term(a), _term(b)))
                return T("not", (c,)) if neg else c
            pend = []
            for x in seq:
                e = self.compare(ast.Eq(), a, x, node)
                if e is True:
                    return not neg
                if e is not False:
                    pend.append(e)
            if pend:
                c = pend[0] if len(pend) == 1 else _boolcomb(False, pend)
                return _not(c) if neg else c
            return neg
        name = _CMPNAME[type(op)]
        if isinstance(a, Unknown) or isinstance(b, Unknown):
            return T(name, (_term(a), _term(b)))
        if name in ("eq", "ne", "lt", "le", "gt", "ge"):
            m_eq = self.dunder(a, f"__{name}__") or (self.dunder(a, "__eq__") if name == "ne" else None)
            if m_eq is not None:
                r = self.call_function(m_eq, [b], {}, node)
                if not (isinstance(r, ExtV) and r.name.endswith("NotImplemented")):
                    return _not(self.truth(r, node)) if (name == "ne" and m_eq.func.node.name == "__eq__") else r
        if isinstance(a, (TV, Obj)) or isinstance(b, (TV, Obj)):
            # comparisons with opaque values / tensors
            ta, tb = _term(a), _term(b)
            ca = isinstance(a, Obj) and not a.open_attrs
            cb = isinstance(b, Obj) and not b.open_attrs
            if name in ("eq", "ne") and (ca or cb) and "__eq__" not in getattr(a, "attrs", {}):
                # a closed abstract object (exact class known, identity semantics for ==)
                other = b if ca else a
                if (ca and cb) or not isinstance(other, (TV, Obj)):
                    same = a is b
                    return same if name == "eq" else (not same)
            if name in ("eq", "ne") and (isinstance(a, Obj) or isinstance(b, Obj) or (isinstance(a, TV) and a.kind == "opaque") or (isinstance(b, TV) and b.kind == "opaque")):
                if ta == tb:
                    return name == "eq"
                return T(name, (ta, tb))
            return TV(T(name, (ta, tb)))
        if isinstance(a, str) or isinstance(b, str) or a is None or b is None or isinstance(a, (tuple, list, dict)) or isinstance(b, (tuple, list, dict)):
            if name == "eq":
                return struct_eq(a, b)
            if name == "ne":
                return _not(struct_eq(a, b))
            if isinstance(a, str) and isinstance(b, str):
                return {"lt": a < b, "le": a <= b, "gt": a > b, "ge": a >= b}[name]
            raise Unsupported("ordering of non-numeric values")
        if isinstance(a, (FuncV, ClassV, ExtV, ModV)) or isinstance(b, (FuncV, ClassV, ExtV, ModV)):
            if isinstance(a, ExtV) and isinstance(b, ExtV):
                same = a.name == b.name
            elif isinstance(a, ModV) and isinstance(b, ModV):
                same = a.info is b.info or a.info.rel == b.info.rel
            else:
                same = a is b or (type(a) == type(b) and isinstance(a, (FuncV, ClassV)) and a.node is b.node)
            return same if name == "eq" else (not same)
        return scalar_compare(name, a, b)

    def e_Attribute(self, n: ast.Attribute, env: Env, mi: ModInfo) -> Any:
        if isinstance(n.value, ast.Call) and isinstance(n.value.func, ast.Name) and n.value.func.id == "super" and not n.value.args:
            # super().<attribute> (not a call): a property / class attribute of the next class in the MRO
            ok, selfv = env.lookup("self")
            ok2, clsv = env.lookup("__class__")
            cls = clsv if ok2 else (selfv.cls if isinstance(selfv, Obj) else None)
            if ok and isinstance(cls, ClassV):
                inst_cls = selfv.cls if isinstance(getattr(selfv, "cls", None), ClassV) else cls
                mro = self.mro(inst_cls)
                idx = next((i for i, k_ in enumerate(mro) if isinstance(k_, ClassV) and k_.node is cls.node), None)
                for b in (mro[idx + 1 :] if idx is not None else self.mro(cls)[1:]):
                    if isinstance(b, ClassV):
                        r = self.class_own_attr(b, n.attr)
                        if isinstance(r, FuncV):
                            if r.kind in ("property", "cached_property"):
                                return self.call_function(r, [selfv], {}, n)
                            return Bound(r, selfv) if r.kind not in ("staticmethod",) else r
                        r2 = self.class_attr(b, n.attr) if self.class_own_attr(b, n.attr) is None and any(isinstance(st, (ast.Assign, ast.AnnAssign)) and any(isinstance(t, ast.Name) and t.id == n.attr for t in (st.targets if isinstance(st, ast.Assign) else [st.target])) for st in b.node.body) else None
                        if r2 is not None:
                            return r2
        v = self.eval(n.value, env, mi)
        return self.lift(lambda x: self.getattr(x, n.attr, n), v)

    def getattr(self, v: Any, attr: str, node: Any = None) -> Any:
        if isinstance(v, ModV):
            if v.info.has(attr):
                return v.info.get(attr)
            sub = self.repo.module_by_name(v.info.name + "." + attr)
            if sub is not None:
                return ModV(self.modinfo(sub.rel))
            return Unknown(f"{v.info.name} has no attribute {attr}")
        if isinstance(v, ExtV):
            if attr == "__name__":
                return v.name.rsplit(".", 1)[-1]
            if attr == "__module__" and "." in v.name:
                return v.name.rsplit(".", 1)[0]
            if v.name + "." + attr in self.ext.EXT_CONSTS:
                return self.ext.EXT_CONSTS[v.name + "." + attr]
            return ExtV(v.name + "." + attr)
        if isinstance(v, NTuple):
            if attr in v.fields:
                return v[v.fields.index(attr)]
            if attr == "_fields":
                return tuple(v.fields)
            if attr == "_asdict":
                return _Builtin("_asdict", lambda it, a, k, nd, t=v: dict(zip(t.fields, t)))
            if attr == "_replace":
                return _Builtin("_replace", lambda it, a, k, nd, t=v: NTuple.make(t.cls, t.fields, [k.get(f_, x_) for f_, x_ in zip(t.fields, t)]))
            r = self.class_attr(v.cls, attr) if v.cls is not None else None
            if isinstance(r, FuncV):
                if r.kind == "property":
                    return self.call_function(r, [v], {}, node)
                if r.kind == "staticmethod":
                    return r
                if r.kind == "classmethod":
                    return Bound(r, v.cls)
                return Bound(r, v)
            if r is not None:
                return r
        if isinstance(v, ClassV):
            members = self.enum_members(v)
            if members is not None:
                if attr in members:
                    return members[attr]
                if attr == "__members__":
                    return dict(members)
            r = self.class_attr(v, attr)
            if isinstance(r, FuncV) and r.kind == "classmethod":
                return Bound(r, v)
            if attr == "_fields" and self.is_subclass_of_ext(v, "NamedTuple"):
                return tuple(st.target.id for st in v.node.body if isinstance(st, ast.AnnAssign) and isinstance(st.target, ast.Name))
            if attr == "_make" and self.is_subclass_of_ext(v, "NamedTuple"):
                return _Builtin("_make", lambda it, a, k, nd, c=v: it._instantiate(c, list(it.concrete_iter(a[0]) or ()), {}, nd))
            if r is not None:
                return r
            if attr == "apply" and self.is_subclass_of_ext(v, "autograd.Function"):
                return AutogradApply(v)
            if attr == "__dataclass_fields__":
                return {st.target.id: None for st in v.node.body if isinstance(st, ast.AnnAssign) and isinstance(st.target, ast.Name)}
            if attr == "__name__":
                return v.node.name
            if attr == "__doc__":
                return ast.get_docstring(v.node)
            if attr in ("mro", "__mro__"):
                chain_: List[Any] = []
                cur: Any = v
                while isinstance(cur, ClassV) and len(chain_) < 20:
                    chain_.append(cur)
                    bs = self.class_bases(cur)
                    cur = bs[0] if bs else None
                if cur is not None:
                    chain_.append(cur)
                chain_.append(ExtV("builtins.object"))
                return _Builtin("mro", lambda it, a, k, nd, c_=chain_: list(c_)) if attr == "mro" else tuple(chain_)
            for b in self.class_bases(v):
                if isinstance(b, ExtV):
                    return ExtV(b.name + "." + attr)
            return Unknown(f"class attr {attr}")
        if isinstance(v, Obj):
            if attr in v.dyn:
                return v.dyn[attr]()
            if v.cls is not None and not attr.startswith("__"):
                # descriptor protocol: a class attribute that is an instance of a repository class with __get__
                # (data descriptors -- those that also define __set__ -- win over the instance dictionary)
                cand_ = self.class_attr(v.cls, attr) if self._class_has_descriptor(v.cls, attr) else None
                if isinstance(cand_, Obj) and isinstance(cand_.cls, ClassV):
                    g_ = self.class_attr(cand_.cls, "__get__")
                    if isinstance(g_, FuncV) and (attr not in v.attrs or self.class_attr(cand_.cls, "__set__") is not None):
                        return self.call_function(g_, [cand_, v, v.cls], {}, node)
            if attr in v.attrs:
                return v.attrs[attr]
            if v.cls is not None:
                r = self.class_attr(v.cls, attr)
                if isinstance(r, FuncV):
                    if r.kind == "property":
                        return self.call_function(r, [v], {}, node)
                    if r.kind == "cached_property":
                        val_ = self.call_function(r, [v], {}, node)
                        if val_ is not BOTTOM:
                            v.attrs[attr] = val_
                        return val_
                    if r.kind == "staticmethod":
                        return r
                    if r.kind == "classmethod":
                        return Bound(r, v.cls)
                    return Bound(r, v)
                if r is not None:
                    return r
            if attr == "__class__":
                return v.cls if v.cls is not None else ExtV(v.cls_name)
            if attr == "__dict__":
                return v.attrs
            if not v.open_attrs:
                return Unknown(f"{v.cls_name} has no attribute {attr}")
            if self._catching_attr_error and v.term is None and attr not in MODULE_API and not attr.startswith("__"):
                # EAFP: inside `try: ... except AttributeError`, an attribute that an abstract object built by a
                # rule does not have is missing (the object's data attributes are all explicit)
                self.log("raise", node, exc="AttributeError", chain=["AttributeError", "Exception", "BaseException"])
                return BOTTOM
            return self.ext.obj_attr(self, v, attr, node)
        if isinstance(v, TV):
            return self.ext.tensor_attr(self, v, attr, node)
        if isinstance(v, FuncV):
            if attr in v.attrs:
                return v.attrs[attr]
            if attr == "__doc__":
                return ast.get_docstring(v.node) if not isinstance(v.node, ast.Lambda) else None
            if attr == "__wrapped__":
                if v.wrapped is not None:
                    expr, env_, mi_ = v.wrapped
                    return self.eval(expr, env_ or Env(None, {}), mi_)
                self.log("raise", node, exc="AttributeError")
                return BOTTOM
            if attr == "__name__":
                return v.node.name if not isinstance(v.node, ast.Lambda) else "<lambda>"
            if attr == "__qualname__":
                return v.qualname
            if attr == "__get__":
                return _Builtin("__get__", lambda it, a, k, nd, f=v: Bound(f, a[0]))
            if attr == "register" and v.registry is not None:
                def _register(it, a, k, nd, f=v):
                    if len(a) == 2:
                        f.registry.append((a[0], a[1]))
                        return a[1]
                    if len(a) == 1 and isinstance(a[0], FuncV):
                        # annotation form: the class is the annotation of the first parameter
                        impl = a[0]
                        ann = impl.node.args.args[0].annotation if impl.node.args.args else None
                        if ann is None:
                            raise Unsupported("singledispatch.register without a class")
                        cls_ = it.eval(ann if not isinstance(ann, ast.Constant) or not isinstance(ann.value, str) else ast.parse(ann.value, mode="eval").body, impl.env or Env(None, {}), impl.module)
                        f.registry.append((cls_, impl))
                        return impl
                    cls_ = a[0]
                    return _Builtin("register", lambda it2, a2, k2, nd2: (f.registry.append((cls_, a2[0])), a2[0])[1])

                return _Builtin("singledispatch.register", _register)
            if attr == "cache_clear" and v.memo is not None:
                return _Builtin("cache_clear", lambda it, a, k, nd, f=v: f.memo.clear())
            return Unknown(f"function attr {attr}")
        if isinstance(v, Shape):
            if attr == "numel":
                return _Builtin("numel", lambda it, a, k, nd, s=v: num(s.numel()))
            raise Unsupported(f"Size.{attr}")
        if type(v).__name__ == "ClassDictV" and isinstance(v.cls, ClassV):
            if attr in v.attrs:
                return v.attrs[attr]
            r = self.class_attr(v.cls, attr)
            if isinstance(r, FuncV):
                if r.kind == "property":
                    return self.call_function(r, [v], {}, node)
                if r.kind == "staticmethod":
                    return r
                if r.kind == "classmethod":
                    return Bound(r, v.cls)
                return Bound(r, v)
            if r is not None:
                return r
        if isinstance(v, (dict, list, str, set)) and not hasattr(type(v), attr) and not hasattr(dict if isinstance(v, dict) else type(v), attr) and not (isinstance(v, list) and hasattr(_collections.deque, attr)) and not (isinstance(v, dict) and (hasattr(_collections.OrderedDict, attr) or hasattr(_collections.Counter, attr))) and not (isinstance(v, set) and hasattr(frozenset, attr)):
            # (a deque is modelled as a list, OrderedDict / Counter / defaultdict as dicts)
            self.log("raise", node, exc="AttributeError")
            return BOTTOM
        if isinstance(v, dict):
            return _Builtin(f"dict.{attr}", lambda it, a, k, nd, d=v, at=attr: _dict_method(it, d, at, a, k))
        if isinstance(v, list):
            return _Builtin(f"list.{attr}", lambda it, a, k, nd, l=v, at=attr: _list_method(it, l, at, a, k))
        if isinstance(v, str):
            return _Builtin(f"str.{attr}", lambda it, a, k, nd, s=v, at=attr: _str_method(s, at, a, k))
        if isinstance(v, set):
            return _Builtin(f"set.{attr}", lambda it, a, k, nd, st=v, at=attr: _set_method(it, st, at, a, k))
        if isinstance(v, tuple):
            if attr in ("count", "index"):
                return _Builtin(f"tuple.{attr}", lambda it, a, k, nd, s=v, at=attr: getattr(s, at)(*a))
        if isinstance(v, _Builtin) and v.name == "dict" and attr == "fromkeys":
            def _fromkeys(it, a, k, nd):
                seq = it.concrete_iter(a[0])
                if seq is None:
                    raise Unsupported("dict.fromkeys over a non-concrete iterable")
                return {x: (a[1] if len(a) > 1 else None) for x in seq}

            return _Builtin("dict.fromkeys", _fromkeys)
        if isinstance(v, _Builtin) and v.name == "str" and attr in ("join", "format", "startswith", "lower", "upper"):
            return _Builtin(f"str.{attr}", lambda it, a, k, nd, at=attr: _str_method(a[0], at, list(a[1:]), k))
        if isinstance(v, PartialV) and attr in ("func", "args", "keywords"):
            return getattr(v, attr)
        if isinstance(v, Unknown):
            return Unknown(v.why + f".{attr}")
        if isinstance(v, Bound) and attr == "__func__":
            return v.func
        if isinstance(v, sp.Basic) or isinstance(v, (int, float)):
            if attr in ("is_integer",):
                return _Builtin("is_integer", lambda it, a, k, nd, x=v: bool(_sym(x).is_integer))
            if not hasattr(1, attr) and not hasattr(1.0, attr):
                self.log("raise", node, exc="AttributeError")  # python numbers have no such attribute
                return BOTTOM
            return Unknown(f"numeric attr {attr}")
        if v is None:
            self.log("raise", node, exc="AttributeError(None)")
            return BOTTOM
        raise Unsupported(f"attribute {attr} of {type(v).__name__}")

    def e_Subscript(self, n: ast.Subscript, env: Env, mi: ModInfo) -> Any:
        v = self.eval(n.value, env, mi)
        idx = self.eval(n.slice, env, mi)
        return self.lift(lambda x, i: self.getitem(x, i, n), v, idx)

    def e_Slice(self, n: ast.Slice, env: Env, mi: ModInfo) -> Any:
        def ev(x: Optional[ast.AST]) -> Any:
            return None if x is None else self.eval(x, env, mi)

        lo, hi, st = ev(n.lower), ev(n.upper), ev(n.step)
        if all(x is None or isinstance(x, int) for x in (lo, hi, st)):
            return slice(lo, hi, st)
        return T("slice", (_term(lo), _term(hi), _term(st)))

    def getitem(self, v: Any, idx: Any, node: Any) -> Any:
        idx = self.coerce_enum(idx)
        if isinstance(v, (tuple, list, Shape, str, range)):
            if isinstance(idx, (int, slice)):
                try:
                    r = v[idx]
                except IndexError:
                    self.log("raise", node, exc="IndexError")
                    return BOTTOM
                return r
            return Unknown(f"symbolic index {fmt(idx)} into concrete sequence")
        if isinstance(v, dict):
            def missing() -> Any:
                if type(v).__name__ == "DefaultDictV":
                    if v.is_counter:
                        return 0
                    if v.factory is not None and _hashable(idx):
                        v[idx] = self.call_function(v.factory, [], {}, node)
                        return v[idx]
                self.log("raise", node, exc="KeyError")
                return BOTTOM

            return self.dict_lookup(v, idx, missing, node)
        if isinstance(v, (TV, Obj)):
            if isinstance(v, Obj) and "__getitem__" in v.attrs:
                return self.call_function(v.attrs["__getitem__"], [idx], {}, node)
            m_gi = self.dunder(v, "__getitem__")
            if m_gi is not None:
                return self.call_function(m_gi, [idx], {}, node)
            if isinstance(v, Obj) and isinstance(v.attrs.get("_modules"), dict) and isinstance(idx, (int, slice)):
                # nn.Sequential / nn.ModuleList indexing: an int selects an entry, a slice a container of entries
                ents = list(v.attrs["_modules"].values())
                if isinstance(idx, int):
                    if -len(ents) <= idx < len(ents):
                        return ents[idx]
                    self.log("raise", node, exc="IndexError")
                    return BOTTOM
                sub = Obj("torch.nn.Sequential", open_attrs=False)
                sub.attrs["_modules"] = {str(i_): m_ for i_, m_ in enumerate(ents[idx])}
                sub.attrs["training"] = v.attrs.get("training", True)
                return sub
            shape = None
            vs = getattr(v, "shape", None)
            if vs is not None and isinstance(idx, tuple) and len(idx) == len(vs) and all(isinstance(i_, slice) or (isinstance(i_, T) and i_.op == "slice") or isinstance(i_, Gamma) for i_ in idx):
                # slicing keeps the rank; the sizes become fresh symbols
                shape = Shape(tuple(sp.Symbol(f"sliced{k_}({fmt(_term(v))})", integer=True, positive=True) for k_ in range(len(vs))))
            return TV(T("getitem", (_term(v), _term(idx))), shape=shape, alias=getattr(v, "alias", frozenset()), dtype=getattr(v, "dtype", None), kind=getattr(v, "kind", "opaque"))
        if isinstance(v, Unknown):
            return v
        if isinstance(v, ExtV) and v.name == "sys.modules" and isinstance(idx, str):
            m = self.repo.module_by_name(idx)
            if m is not None:
                return ModV(self.modinfo(m.rel))
            return ExtV(idx)
        if isinstance(v, ExtV) and v.name.endswith("typing.Literal"):
            return Obj("typing.Literal", attrs={"__args__": tuple(idx) if isinstance(idx, tuple) else (idx,)}, term=T("literal", (_term(idx),)), open_attrs=False)
        if isinstance(v, ClassV) and self.enum_members(v) is not None and isinstance(idx, str):
            if idx in self.enum_members(v):
                return self.enum_members(v)[idx]
            self.log("raise", node, exc="KeyError")
            return BOTTOM
        if isinstance(v, (ExtV, ClassV)):
            return v  # typing subscripts: Dict[...], Optional[...]
        raise Unsupported(f"subscript of {type(v).__name__}")

    def dict_lookup(self, d: Dict[Any, Any], idx: Any, missing: Callable[[], Any], node: Any) -> Any:
        """d[idx] / d.get(idx): keys that are equal to a symbolic index only under a condition
        give a γ-value (the entry under that condition, else the next candidate / `missing`)."""
        idx = self.coerce_enum(idx)
        if _is_cond(idx) and set(d.keys()) <= {True, False} and d:
            # {True: a, False: b}[<condition decided at run time>]
            t_ = self.truth(idx, node)  # (the guards in force and the schema's assumptions may decide it)
            if t_ is True or t_ is False:
                return d[t_] if t_ in d else missing()
            a_ = d[True] if True in d else missing()
            b_ = d[False] if False in d else missing()
            return self.mkgamma(idx, a_, b_)
        if _hashable(idx) and idx in d:
            return d[idx]
        cands: List[Tuple[Any, Any]] = []
        for k, val in d.items():
            r = self.compare(ast.Eq(), k, idx, node)
            if r is True:
                cands.append((True, val))
                break
            if r is False:
                continue
            if isinstance(r, Gamma) or not _is_cond(r):
                raise Unsupported("dictionary lookup with an undecidable key comparison")
            cands.append((r, val))

        def build(i: int) -> Any:
            if i >= len(cands):
                return missing()
            c, val = cands[i]
            if c is True:
                return val
            pol = self.guard_lookup(c)
            if pol is True:
                return val
            if pol is False:
                return build(i + 1)
            rest = self._guarded(c, False, lambda: build(i + 1))
            return self.mkgamma(c, val, rest)

        return build(0)

    def e_Yield(self, n: ast.Yield, env: Env, mi: ModInfo) -> Any:
        if self._ctx_yield and self._ctx_yield[-1][0] == self.depth:
            # the yield of a @contextmanager generator: the body of the with statement runs here
            cb = self._ctx_yield[-1][1]
            cb(self.eval(n.value, env, mi) if n.value is not None else None)
            return None
        v = self.eval(n.value, env, mi) if n.value is not None else None
        self._yield_value(v)
        return None

    def _yield_value(self, v: Any) -> None:
        g = self._gen_current
        if g is None:
            raise Unsupported("yield outside a generator function")
        # elements produced under conditions decided only at run time (inside this generator) are conditional members
        own_guard = self.guard[g.base[2] :]
        if own_guard:
            conds = [c if pol else _not(c) for c, pol in own_guard]
            v = Maybe(conds[0] if len(conds) == 1 else _boolcomb(True, conds), v)
        g.saved_call = self.call_stack[g.base[0] :]
        g.saved_depth = self.depth - g.base[1]
        g.saved_guard = own_guard
        g.saved_mod = self.cur_mod
        g.outcome = ("yield", v)
        g.state = "suspended"
        g.to_con.release()
        g.to_gen.acquire()  # resumed by the next gen_next(), which has installed the stacks again

    def e_YieldFrom(self, n: ast.YieldFrom, env: Env, mi: ModInfo) -> Any:
        v = self.eval(n.value, env, mi)
        if isinstance(v, GenV):
            while True:
                kind, x = self.gen_next(v)
                if kind == "yield":
                    self._yield_value(x)
                elif kind == "raise":
                    raise _Raised()
                else:
                    return x
        seq = self.concrete_iter(v)
        if seq is None:
            raise Unsupported("yield from a non-concrete iterable")
        for x in seq:
            self._yield_value(x)
        return None

    def e_Starred(self, n: ast.Starred, env: Env, mi: ModInfo) -> Any:
        raise Unsupported("starred expression")

    def e_NamedExpr(self, n: ast.NamedExpr, env: Env, mi: ModInfo) -> Any:
        v = self.eval(n.value, env, mi)
        env.vars[n.target.id] = v
        return v

    def _comp(self, gens: List[ast.comprehension], env: Env, mi: ModInfo, emit: Callable[..., None]) -> None:
        if not gens:
            emit(env)
            return
        g = gens[0]
        it = self.eval(g.iter, env, mi)
        if it is BOTTOM:
            raise _CompRaised()
        try:
            seq = _LazySeq(self, it) if isinstance(it, GenV) else self.concrete_iter(it)
        except _Raised:
            raise _CompRaised()
        if seq is None and isinstance(it, (Obj, TV)):
            raise _OpaqueComp(TV(T("comprehension", (_term(it),)), kind="opaque"))
        if seq is None:
            raise Unsupported(f"comprehension over non-concrete iterable at {mi.rel}:{getattr(g.iter, 'lineno', '?')}")
        seq_it = iter(seq)
        while True:
            try:
                item = next(seq_it)
            except StopIteration:
                break
            except _Raised:
                raise _CompRaised()
            e2 = Env(env, {})
            self.assign(g.target, item, e2, mi, g.iter)
            ok = True
            pending: List[Any] = []
            if isinstance(item, Maybe):
                pending.append(item.cond)
                e2.vars.clear()
                self.assign(g.target, item.value, e2, mi, g.iter)
            for c in g.ifs:
                t = self.truth(self.eval(c, e2, mi), c)
                if t is False:
                    ok = False
                    break
                if t is not True:
                    if isinstance(t, Gamma):
                        raise Unsupported("undecidable comprehension filter")
                    pending.append(t)
            if ok and not pending:
                self._comp(gens[1:], e2, mi, emit)
            elif ok:
                # membership depends on an undecided condition: the element is emitted under that guard
                cond = pending[0] if len(pending) == 1 else _boolcomb(True, pending)
                if gens[1:]:
                    raise Unsupported("undecidable comprehension filter in a nested comprehension")
                self.guard.append((cond, True))
                try:
                    emit(e2, cond)
                finally:
                    self.guard.pop()

    def e_ListComp(self, n: ast.ListComp, env: Env, mi: ModInfo) -> Any:
        out: List[Any] = []

        def emit(e: Env, cond: Any = None) -> None:
            v = self.eval(n.elt, e, mi)
            if v is BOTTOM:
                raise _CompRaised()
            out.append(v if cond is None else Maybe(cond, v))

        try:
            self._comp(n.generators, env, mi, emit)
        except _CompRaised:
            return BOTTOM
        except _OpaqueComp as oc:
            self.log("havoc-comp", n, value=oc.value)
            return oc.value
        return out

    def e_GeneratorExp(self, n: ast.GeneratorExp, env: Env, mi: ModInfo) -> Any:
        out: List[Any] = []

        def emit(e: Env, cond: Any = None) -> None:
            v = self.eval(n.elt, e, mi)
            if v is BOTTOM:
                raise _CompRaised()
            out.append(v if cond is None else Maybe(cond, v))

        try:
            self._comp(n.generators, env, mi, emit)
        except _CompRaised:
            return BOTTOM
        except _OpaqueComp as oc:
            self.log("havoc-comp", n, value=oc.value)
            return oc.value
        return OneShot(out)

    def e_SetComp(self, n: ast.SetComp, env: Env, mi: ModInfo) -> Any:
        out: List[Any] = []
        try:
            self._comp(n.generators, env, mi, lambda e, cond=None: out.append(self.eval(n.elt, e, mi)))
        except _CompRaised:
            return BOTTOM
        except _OpaqueComp as oc:
            return oc.value
        return make_set(out)

    def e_DictComp(self, n: ast.DictComp, env: Env, mi: ModInfo) -> Any:
        out: Dict[Any, Any] = {}

        def emit(e: Env, cond: Any = None) -> None:
            if cond is not None:
                raise Unsupported("undecidable filter in a dict comprehension")
            k = self.eval(n.key, e, mi)
            if not _hashable(k):
                raise Unsupported("unhashable key in dict comprehension")
            out[k] = self.eval(n.value, e, mi)

        try:
            self._comp(n.generators, env, mi, emit)
        except _CompRaised:
            return BOTTOM
        except _OpaqueComp as oc:
            self.log("havoc-comp", n, value=oc.value)
            return oc.value
        return out

    def e_Call(self, n: ast.Call, env: Env, mi: ModInfo) -> Any:
        try:
            return self._e_call(n, env, mi)
        except _Raised:
            return BOTTOM  # a generator consumed while evaluating this call raised

    def _e_call(self, n: ast.Call, env: Env, mi: ModInfo) -> Any:
        # super().__init__(...) and friends
        if isinstance(n.func, ast.Attribute) and isinstance(n.func.value, ast.Call) and isinstance(n.func.value.func, ast.Name) and n.func.value.func.id == "super":
            return self._super_call(n, env, mi)
        f = self.eval(n.func, env, mi)
        args: List[Any] = []
        star_unknown = False
        for a in n.args:
            if isinstance(a, ast.Starred):
                v = self.eval(a.value, env, mi)
                seq = self.concrete_iter(v)
                if seq is None:
                    args.append(TV(T("star", (_term(v),)), kind="opaque"))
                    star_unknown = True
                else:
                    args.extend(seq)
            else:
                args.append(self.eval(a, env, mi))
        kwargs: Dict[str, Any] = {}
        for kw in n.keywords:
            if kw.arg is None:
                v = self.eval(kw.value, env, mi)
                if isinstance(v, dict) and all(isinstance(k, str) for k in v):
                    kwargs.update(v)
                else:
                    kwargs["**"] = v
                    star_unknown = True
            else:
                kwargs[kw.arg] = self.eval(kw.value, env, mi)
        if f is BOTTOM or any(a is BOTTOM for a in args) or any(v is BOTTOM for v in kwargs.values()):
            return BOTTOM  # evaluating the callee or an argument raised: the call never happens
        if star_unknown and isinstance(f, (FuncV, ClassV)) and not (isinstance(f, FuncV) and self.opaque(f)):
            raise Unsupported(f"call with non-concrete * / ** arguments at {mi.rel}:{n.lineno}")
        try:
            return self.call_function(f, args, kwargs, n)
        except _Raised:
            return BOTTOM  # a generator consumed by this call raised

    def _super_call(self, n: ast.Call, env: Env, mi: ModInfo) -> Any:
        ok, selfv = env.lookup("self")
        meth = n.func.attr  # type: ignore[attr-defined]
        args = []
        for a in n.args:
            if isinstance(a, ast.Starred):
                v = self.eval(a.value, env, mi)
                seq = self.concrete_iter(v)
                args.extend(seq if seq is not None else [TV(T("star", (_term(v),)), kind="opaque")])
            else:
                args.append(self.eval(a, env, mi))
        kwargs = {}
        for kw in n.keywords:
            if kw.arg:
                kwargs[kw.arg] = self.eval(kw.value, env, mi)
            else:
                v = self.eval(kw.value, env, mi)
                if isinstance(v, dict):
                    kwargs.update(v)
                else:
                    kwargs["**"] = v
        # find the class whose method we are in
        ok2, clsv = env.lookup("__class__")
        cls = clsv if ok2 else (selfv.cls if isinstance(selfv, Obj) else None)
        if isinstance(cls, ClassV):
            # cooperative super(): the classes that follow `cls` in the MRO of the *instance's* class (so that a
            # mixin without bases still reaches the next class of the instance), each looked up in its own body
            inst_cls = selfv.cls if isinstance(selfv, (Obj, NTuple)) and isinstance(getattr(selfv, "cls", None), ClassV) else (selfv if isinstance(selfv, ClassV) else cls)
            mro = self.mro(inst_cls)
            idx = next((i for i, k_ in enumerate(mro) if isinstance(k_, ClassV) and k_.node is cls.node), None)
            rest = mro[idx + 1 :] if idx is not None else self.mro(cls)[1:]
            for b in rest:
                if isinstance(b, ClassV) and self.opaque(b):
                    self.log("super", n, method=meth, args=args, kwargs=kwargs, obj=selfv, base=b)
                    return None
                if isinstance(b, ClassV):
                    r = self.class_own_attr(b, meth)
                    if isinstance(r, FuncV):
                        e2 = dict(kwargs)
                        return self._call_super_func(r, b, selfv, args, e2, n)
        self.log("super", n, method=meth, args=args, kwargs=kwargs, obj=selfv, cls=cls)
        if self.super_hook is not None:
            r = self.super_hook(self, selfv, cls, meth, args, kwargs)
            if r is not NotImplemented:
                return r
        if meth in ("__init__",):
            return None
        return TV(T("super", (meth, tuple(_term(a) for a in args), tuple(sorted((k, _term(v)) for k, v in kwargs.items())))), kind="opaque")

    def _call_super_func(self, f: FuncV, base: ClassV, selfv: Any, args: List[Any], kwargs: Dict[str, Any], node: Any) -> Any:
        return self.call_function(f, [selfv, *args], kwargs, node)


class _OpaqueComp(Exception):
    """A comprehension over a collection held by an external object: its value is uninterpreted."""

    def __init__(self, value: Any):
        self.value = value


class _OpaqueStar(Exception):
    def __init__(self, value: Any):
        self.value = value


def _live_list(lst: list):
    """Iteration over a list follows the list as it is (elements appended during the loop are visited)."""
    i = 0
    while i < len(lst):
        yield lst[i]
        i += 1
        if i > 20000:
            raise Unsupported("loop over a growing list does not terminate within the bound")


_EXC_PARENT = {
    "KeyError": "LookupError", "IndexError": "LookupError", "LookupError": "Exception", "ValueError": "Exception",
    "TypeError": "Exception", "AttributeError": "Exception", "RuntimeError": "Exception", "NotImplementedError": "RuntimeError",
    "AssertionError": "Exception", "StopIteration": "Exception", "ZeroDivisionError": "ArithmeticError", "OverflowError": "ArithmeticError",
    "ArithmeticError": "Exception", "OSError": "Exception", "FileNotFoundError": "OSError", "ImportError": "Exception",
    "ModuleNotFoundError": "ImportError", "NameError": "Exception", "UnicodeError": "ValueError", "RecursionError": "RuntimeError",
    "Exception": "BaseException",
}


MODULE_API = {
    "named_modules", "modules", "named_parameters", "parameters", "children", "named_children", "apply", "state_dict", "load_state_dict",
    "train", "eval", "to", "float", "half", "double", "bfloat16", "requires_grad_", "zero_grad", "forward", "register_buffer",
    "register_parameter", "register_module", "add_module", "get_submodule", "get_parameter", "buffers", "named_buffers", "cuda", "cpu",
    "type", "extra_repr", "register_forward_hook", "register_forward_pre_hook", "register_full_backward_hook", "share_memory",
}


class _AssignRaised(Unsupported):
    """Unpacking failed (ValueError in the analysed program)."""


class _LazySeq:
    """Python-level iterator over a generator of the analysed program (one step per element)."""

    def __init__(self, it: "Interp", g: GenV):
        self.it, self.g = it, g

    def __iter__(self) -> "_LazySeq":
        return self

    def __next__(self) -> Any:
        kind, v = self.it.gen_next(self.g)
        if kind == "yield":
            return v
        if kind == "raise":
            raise _Raised()
        raise StopIteration


class _Raised(Unsupported):
    """A Python exception raised by the analysed program while a generator was being consumed; converted
    to BOTTOM by the nearest enclosing call / loop / comprehension."""


class _CompRaised(Exception):
    """An exception raised while a comprehension was being evaluated (its value is BOTTOM)."""


class _Builtin:
    def __init__(self, name: str, fn: Callable[..., Any]):
        self.name, self.fn = name, fn

    def __repr__(self) -> str:
        return f"<builtin {self.name}>"


class PartialV(_Builtin):
    """functools.partial(func, *args, **keywords): callable, with the three read-only attributes."""

    def __init__(self, func: Any, args: List[Any], keywords: Dict[str, Any]):
        self.func, self.args, self.keywords = func, tuple(args), dict(keywords)
        super().__init__("partial", lambda it, a, k, nd: it.call_function(self.func, list(self.args) + list(a), {**self.keywords, **k}, nd))


class _DictItems:
    def __init__(self, items: List[Tuple[Any, Any]]):
        self.items = items


_order_counter = [0]
_order_ids: Dict[int, int] = {}


def _set_order(x: Any) -> Any:
    """Deterministic iteration order for abstract sets (creation order of objects)."""
    if isinstance(x, Obj):
        return (1, x.ident, "")
    if isinstance(x, str):
        return (0, 0, x)
    return (2, _order_ids.setdefault(id(x), len(_order_ids)), "")


def make_set(elts: Sequence[Any]) -> Any:
    try:
        return set(elts)
    except TypeError:
        return tuple(elts)


def _set_method(it: "Interp", st: set, attr: str, a: List[Any], k: Dict[str, Any]) -> Any:
    def other(x: Any) -> set:
        seq = it.concrete_iter(x)
        if seq is None:
            raise Unsupported("set operation with a non-concrete operand")
        return set(seq)

    if attr == "add":
        st.add(a[0])
        return None
    if attr == "update":
        for x in a:
            st.update(other(x))
        return None
    if attr in ("discard", "remove"):
        st.discard(a[0])
        return None
    if attr == "copy":
        return set(st)
    if attr == "intersection":
        r = set(st)
        for x in a:
            r &= other(x)
        return r
    if attr == "union":
        r = set(st)
        for x in a:
            r |= other(x)
        return r
    if attr == "difference":
        r = set(st)
        for x in a:
            r -= other(x)
        return r
    if attr == "issubset":
        return st <= other(a[0])
    if attr == "isdisjoint":
        return st.isdisjoint(other(a[0]))
    if attr == "issuperset":
        return st >= other(a[0])
    raise Unsupported(f"set.{attr}")


def _dict_method(it: Interp, d: Dict[Any, Any], attr: str, a: List[Any], k: Dict[str, Any]) -> Any:
    if attr == "copy":
        return dict(d)
    if attr == "items":
        return _DictItems([(x, y) for x, y in d.items()])
    if attr == "keys":
        return list(d.keys())
    if attr == "values":
        return list(d.values())
    if attr == "get":
        return it.dict_lookup(d, a[0], lambda: (a[1] if len(a) > 1 else None), None)
    if attr == "setdefault":
        return d.setdefault(a[0], a[1] if len(a) > 1 else None)
    if attr == "update":
        for x in a:
            if isinstance(x, (Obj, NTuple)) and isinstance(getattr(x, "cls", None), ClassV) and isinstance(it.class_attr(x.cls, "keys"), FuncV):
                # mapping protocol: an object with keys() and __getitem__
                ks = it.concrete_iter(it.call_function(it.getattr(x, "keys", None), [], {}, None))
                if ks is None:
                    raise Unsupported("dict.update from a mapping whose keys are not concrete")
                for k_ in ks:
                    d[k_] = it.getitem(x, k_, None)
            elif isinstance(x, dict):
                d.update(x)
            else:
                seq_ = it.concrete_iter(x)
                if seq_ is None:
                    raise Unsupported("dict.update from a non-concrete iterable")
                d.update({p_[0]: p_[1] for p_ in seq_})
        d.update(k)
        return None
    if attr == "pop":
        return d.pop(*a)
    if attr == "__getitem__":
        return it.getitem(d, a[0], None)
    if attr == "__contains__":
        return it.compare(ast.In(), a[0], d, None)
    if attr == "__setitem__":
        d[a[0]] = a[1]
        return None
    if attr == "__delitem__":
        if a[0] in d:
            del d[a[0]]
            return None
        it.log("raise", None, exc="KeyError")
        return BOTTOM
    if attr == "__len__":
        return len(d)
    if attr == "__iter__":
        return OneShot(list(d.keys()))
    if attr == "popitem":
        return d.popitem()
    if attr == "clear":
        d.clear()
        return None
    if attr == "move_to_end":
        v_ = d.pop(a[0])
        d[a[0]] = v_
        return None
    raise Unsupported(f"dict.{attr}")


def _list_method(it: Interp, l: List[Any], attr: str, a: List[Any], k: Dict[str, Any]) -> Any:
    if attr == "append":
        l.append(a[0])
        return None
    if attr == "extend":
        seq = it.concrete_iter(a[0])
        if seq is None:
            raise Unsupported("list.extend of non-concrete")
        l.extend(seq)
        return None
    if attr == "copy":
        return list(l)
    if attr == "pop":
        return l.pop(*a)
    if attr == "popleft":
        return l.pop(0)
    if attr == "appendleft":
        l.insert(0, a[0])
        return None
    if attr == "insert":
        l.insert(a[0], a[1])
        return None
    if attr == "index":
        for i, x in enumerate(l):
            if value_eq(x, a[0]):
                return i
        it.log("raise", None, exc="ValueError")
        return BOTTOM
    if attr == "remove":
        for i, x in enumerate(l):
            if value_eq(x, a[0]):
                del l[i]
                return None
        it.log("raise", None, exc="ValueError")
        return BOTTOM
    if attr == "clear":
        l.clear()
        return None
    if attr == "reverse":
        l.reverse()
        return None
    if attr == "count":
        return sum(1 for x in l if value_eq(x, a[0]))
    if attr == "sort":
        key = k.get("key")
        try:
            l.sort(key=(lambda x: _sort_key(it.call_function(key, [x], {}, None))) if key is not None else _sort_key, reverse=bool(k.get("reverse", False)))
        except TypeError:
            raise Unsupported("sort of abstract values")
        return None
    if attr in ("extendleft", "rotate"):
        raise Unsupported(f"deque.{attr}")
    raise Unsupported(f"list.{attr}")


def _sort_key(x: Any) -> Any:
    """Ordering key for concrete abstract values (numbers, strings, tuples of those)."""
    if isinstance(x, (tuple, list)):
        return tuple(_sort_key(y) for y in x)
    if isinstance(x, sp.Basic):
        if not x.is_number:
            raise TypeError("symbolic")
        return (0, float(x))
    if isinstance(x, bool) or isinstance(x, (int, float)):
        return (0, float(x))
    if isinstance(x, str):
        return (1, x)
    if x is None:
        raise TypeError("None is not orderable")
    raise TypeError("abstract")


def _percent_format(fmt_s: str, arg: Any) -> str:
    """printf-style formatting: string arguments are substituted exactly, other values as placeholders."""
    import re as _re

    if isinstance(arg, dict):
        return _re.sub(r"%\((\w+)\)[-#0 +]*\d*(?:\.\d+)?[sdrfgeixX]", lambda m: format_value(arg.get(m.group(1), "{?}")), fmt_s).replace("%%", "%")
    args = list(arg) if isinstance(arg, tuple) else [arg]
    pos = [0]

    def sub(m: Any) -> str:
        if m.group(0) == "%%":
            return "%"
        i = pos[0]
        pos[0] += 1
        return format_value(args[i]) if i < len(args) else "{?}"

    return _re.sub(r"%%|%[-#0 +]*\d*(?:\.\d+)?[sdrfgeixXc]", sub, fmt_s)


def format_value(val: Any) -> str:
    """Text of a formatted value: strings as they are, anything else a `{...}` placeholder
    (the digits are not decided; that a value *is* printed is)."""
    if isinstance(val, str):
        return val
    if isinstance(val, bool) or val is None:
        return str(val)
    if isinstance(val, int) or (isinstance(val, sp.Integer)):
        return str(int(val))  # integers print exactly; the digits of other numbers are not decided
    return "{" + fmt(_term(val)) + "}"


def _str_format(s: str, a: List[Any], k: Dict[str, Any]) -> str:
    import string as _string

    out, auto = [], 0
    for lit, field, _spec, _conv in _string.Formatter().parse(s):
        out.append(lit)
        if field is None:
            continue
        head = field.split(".")[0].split("[")[0]
        if head == "":
            val = a[auto] if auto < len(a) else "{?}"
            auto += 1
        elif head.isdigit():
            val = a[int(head)] if int(head) < len(a) else "{?}"
        else:
            val = k.get(head, "{?}")
        out.append(format_value(val) if head == field else "{" + field + "}")
    return "".join(out)


def _str_method(s: str, attr: str, a: List[Any], k: Dict[str, Any]) -> Any:
    if attr == "format":
        return _str_format(s, a, k)
    if attr in ("startswith", "endswith", "replace", "split", "strip", "lower", "upper", "format", "join"):
        try:
            return getattr(s, attr)(*a, **k)
        except Exception:
            return "<str>"
    raise Unsupported(f"str.{attr}")


_OPNAME = {
    ast.Add: "add", ast.Sub: "sub", ast.Mult: "mul", ast.Div: "div", ast.FloorDiv: "floordiv",
    ast.Mod: "mod", ast.Pow: "pow", ast.LShift: "lshift", ast.RShift: "rshift",
    ast.BitAnd: "and", ast.BitOr: "or", ast.BitXor: "xor", ast.MatMult: "matmul",
}
_CMPNAME = {ast.Eq: "eq", ast.NotEq: "ne", ast.Lt: "lt", ast.LtE: "le", ast.Gt: "gt", ast.GtE: "ge"}


def _sym(x: Any) -> Any:
    if isinstance(x, bool):
        return sp.Integer(int(x))
    if isinstance(x, int):
        return sp.Integer(x)
    if isinstance(x, float):
        return sp.Rational(repr(x))
    if isinstance(x, sp.Basic):
        return x
    raise Unsupported(f"not a scalar: {type(x).__name__} {x!r}")


def scalar_binop(name: str, a: Any, b: Any) -> Any:
    if isinstance(a, int) and isinstance(b, int) and not isinstance(a, bool) and not isinstance(b, bool):
        if name == "add":
            return a + b
        if name == "sub":
            return a - b
        if name == "mul":
            return a * b
        if name == "floordiv" and b != 0:
            return a // b
        if name == "mod" and b != 0:
            return a % b
        if name == "pow" and b >= 0:
            return a**b
        if name == "lshift" and b >= 0:
            return a << b
        if name == "rshift" and b >= 0:
            return a >> b
        if name == "and":
            return a & b
        if name == "or":
            return a | b
        if name == "xor":
            return a ^ b
    x, y = _sym(a), _sym(b)
    from . import values as _V

    if _V.FLOAT_KIND[0] and all(isinstance(z, (int, sp.Integer, sp.Rational)) and not isinstance(z, bool) for z in (x, y)):
        # number-kind mode: int / int and int ** negative int are floats in Python
        if name == "div" and y != 0:
            return sp.Float(sp.Rational(x) / sp.Rational(y), 30)
        if name == "pow" and y < 0 and x != 0:
            return sp.Float(sp.Pow(x, y), 30)
    if name == "add":
        return num(x + y)
    if name == "sub":
        return num(x - y)
    if name == "mul":
        return num(x * y)
    if name == "div":
        return num(x / y)
    if name == "pow":
        return num(sp.Pow(x, y))
    if name == "floordiv":
        q = sp.cancel(x / y)
        if q.is_integer:
            return num(q)
        q2 = sp.simplify(q)
        if q2.is_integer:
            return num(q2)
        return num(sp.floor(q2))
    if name == "mod":
        return num(sp.Mod(x, y))
    if name == "lshift":
        return num(x * sp.Pow(2, y))
    if name == "rshift":
        return num(sp.floor(x / sp.Pow(2, y)))
    if name in ("and", "or", "xor"):
        if isinstance(x, sp.Basic) and isinstance(y, sp.Basic) and (x.is_Boolean or x.is_Relational) and (y.is_Boolean or y.is_Relational):
            return {"and": sp.And, "or": sp.Or, "xor": sp.Xor}[name](x, y)
        return sp.Function("bit" + name)(x, y)
    raise Unsupported(f"scalar operator {name}")


def scalar_compare(name: str, a: Any, b: Any) -> Any:
    x, y = _sym(a), _sym(b)
    if any(isinstance(z, sp.Basic) and (z.is_Relational or isinstance(z, sp.logic.boolalg.BooleanFunction)) for z in (x, y)) and name in ("eq", "ne"):
        # a condition compared with a constant or another condition (`cond == True`, `{True: ..}[cond]`)
        cx = x if isinstance(x, sp.Basic) else (sp.true if x else sp.false)
        cy = y if isinstance(y, sp.Basic) else (sp.true if y else sp.false)
        if cx in (sp.Integer(1), sp.Integer(0)):
            cx = sp.true if cx == 1 else sp.false
        if cy in (sp.Integer(1), sp.Integer(0)):
            cy = sp.true if cy == 1 else sp.false
        try:
            e = sp.simplify(sp.Equivalent(cx, cy))
        except Exception:
            raise Unsupported("comparison of a condition with a non-boolean value")
        if name == "ne":
            e = sp.Not(e)
        return True if e is sp.true else (False if e is sp.false else e)
    if name in ("eq", "ne"):
        d = sp.simplify(x - y)
        if d == 0:
            r: Any = True
        elif d.is_zero is False or d.is_nonzero:
            r = False
        elif d.is_number:
            r = bool(d == 0)
        else:
            r = sp.Eq(x, y)
            if r is sp.true:
                r = True
            elif r is sp.false:
                r = False
        if name == "eq":
            return r
        return _not(r)
    rel = {"lt": sp.Lt, "le": sp.Le, "gt": sp.Gt, "ge": sp.Ge}[name](x, y)
    if rel is sp.true:
        return True
    if rel is sp.false:
        return False
    d = sp.simplify(x - y)
    if name == "gt" and d.is_positive:
        return True
    if name == "gt" and d.is_nonpositive:
        return False
    if name == "ge" and d.is_nonnegative:
        return True
    if name == "ge" and d.is_negative:
        return False
    if name == "lt" and d.is_negative:
        return True
    if name == "lt" and d.is_nonnegative:
        return False
    if name == "le" and d.is_nonpositive:
        return True
    if name == "le" and d.is_positive:
        return False
    return rel


def _resolve(r: Any, cond: Any, pol: bool) -> Any:
    """A condition value computed under guard (cond, pol) that is cond itself (or its
    negation) is decided by the guard."""
    if isinstance(r, (T, sp.Basic)):
        if _same(r, cond):
            return pol
        if isinstance(r, T) and r.op == "not" and _same(r.args[0], cond):
            return not pol
        if isinstance(cond, T) and cond.op == "not" and _same(cond.args[0], r):
            return not pol
        if isinstance(r, sp.Not) and _same(r.args[0], cond):
            return not pol
    return r


def _not(c: Any) -> Any:
    if isinstance(c, bool):
        return not c
    if isinstance(c, sp.Basic):
        return sp.Not(c)
    if isinstance(c, T) and c.op == "not":
        return c.args[0]
    return T("not", (c,))


def _grad_mode_of(cm: Any) -> Optional[bool]:
    """False for a context manager that switches autograd recording off, True for one that switches it on."""
    t = _term(cm) if isinstance(cm, (TV, Obj)) else None
    if not (isinstance(t, T) and t.op == "call" and isinstance(t.args[0], str)):
        return None
    name = t.args[0]
    short = name.split(".")[-1]
    if not name.startswith("torch"):
        return None
    if short in ("no_grad", "inference_mode"):
        a = dict(t.args[1]) if len(t.args) > 1 and isinstance(t.args[1], tuple) else {}
        if short == "inference_mode" and a.get("mode") is False:
            return None
        return False
    if short == "enable_grad":
        return True
    if short == "set_grad_enabled":
        a = dict(t.args[1]) if len(t.args) > 1 and isinstance(t.args[1], tuple) else {}
        v = a.get("mode", next(iter(a.values()), None))
        return v if isinstance(v, bool) else None
    return None


def _is_cond(v: Any) -> bool:
    """Is this value itself a truth condition (result of a comparison / predicate)?"""
    if isinstance(v, T):
        return v.op in ("truth", "not", "and", "or", "eq", "ne", "lt", "le", "gt", "ge", "is", "in", "isinstance", "hasattr", "callable")
    return isinstance(v, sp.Basic) and (getattr(v, "is_Relational", False) or getattr(v, "is_Boolean", False))


def _is_cond_or_bool(v: Any) -> bool:
    return isinstance(v, bool) or _is_cond(v)


def _boolcomb(is_and: bool, parts: List[Any]) -> Any:
    if any(p is (False if is_and else True) for p in parts):
        return False if is_and else True
    parts = [p for p in parts if p is not (True if is_and else False)]
    if not parts:
        return True if is_and else False
    if len(parts) == 1:
        return parts[0]
    if all(isinstance(p, (sp.Basic, bool)) for p in parts):
        return (sp.And if is_and else sp.Or)(*parts)
    return T("and" if is_and else "or", tuple(parts))


def struct_eq(a: Any, b: Any) -> Any:
    """Python == on abstract values: True / False / condition."""
    if isinstance(a, (tuple, list)) and isinstance(b, (tuple, list)):
        if isinstance(a, list) != isinstance(b, list) and not (isinstance(a, Shape) or isinstance(b, Shape)):
            if isinstance(a, list) or isinstance(b, list):
                return False
        if len(a) != len(b):
            return False
        pend = []
        for x, y in zip(a, b):
            r = struct_eq(x, y)
            if r is False:
                return False
            if r is not True:
                pend.append(r)
        return True if not pend else (pend[0] if len(pend) == 1 else _boolcomb(True, pend))
    if a is None or b is None:
        if a is None and b is None:
            return True
        other = a if b is None else b
        if isinstance(other, (TV, Obj, Unknown)):
            return T("eq", (_term(other), None))
        return False
    if isinstance(a, str) or isinstance(b, str):
        if isinstance(a, str) and isinstance(b, str):
            return a == b
        other = b if isinstance(a, str) else a
        if isinstance(other, (TV, Obj, Unknown)):
            return T("eq", (_term(a), _term(b)))
        return False
    if isinstance(a, (tuple, list)) or isinstance(b, (tuple, list)):
        other = b if isinstance(a, (tuple, list)) else a
        if isinstance(other, (TV, Obj, Unknown)):
            return T("eq", (_term(a), _term(b)))
        return False
    if isinstance(a, dict) and isinstance(b, dict):
        return value_eq(a, b)
    if isinstance(a, (set, frozenset)) or isinstance(b, (set, frozenset)):
        return isinstance(a, (set, frozenset)) and isinstance(b, (set, frozenset)) and a == b
    if isinstance(a, (TV, Obj, Unknown)) or isinstance(b, (TV, Obj, Unknown)):
        if _term(a) == _term(b):
            return True
        return T("eq", (_term(a), _term(b)))
    if isinstance(a, (bool, int, float, sp.Basic)) and isinstance(b, (bool, int, float, sp.Basic)):
        return scalar_compare("eq", a, b)
    return a is b or a == b


def value_eq(a: Any, b: Any) -> bool:
    """Structural identity of abstract values (used for γ-merging)."""
    if a is b:
        return True
    if isinstance(a, TV) and isinstance(b, TV):
        return a.term == b.term and a.dtype == b.dtype and a.alias == b.alias
    if isinstance(a, Obj) or isinstance(b, Obj):
        return a is b
    if isinstance(a, Gamma) and isinstance(b, Gamma):
        return _same(a.cond, b.cond) and value_eq(a.a, b.a) and value_eq(a.b, b.b)
    if isinstance(a, (tuple, list)) and isinstance(b, (tuple, list)):
        return len(a) == len(b) and all(value_eq(x, y) for x, y in zip(a, b))
    if isinstance(a, dict) and isinstance(b, dict):
        return set(a) == set(b) and all(value_eq(a[k], b[k]) for k in a)
    if isinstance(a, Unknown) or isinstance(b, Unknown):
        return False
    if isinstance(a, FuncV) and isinstance(b, FuncV):
        return a.node is b.node and a.env is b.env
    if isinstance(a, sp.Basic) or isinstance(b, sp.Basic):
        try:
            if isinstance(a, (sp.Basic, int, float)) and isinstance(b, (sp.Basic, int, float)) and not isinstance(a, bool) and not isinstance(b, bool):
                return sp.simplify(_sym(a) - _sym(b)) == 0
        except Exception:
            return False
        return False
    try:
        return type(a) == type(b) and a == b
    except Exception:
        return False


def _same(a: Any, b: Any) -> bool:
    if a is b:
        return True
    try:
        return bool(a == b)
    except Exception:
        return False


def _hashable(x: Any) -> bool:
    try:
        hash(x)
        return isinstance(x, (str, int, tuple, bool, type(None), sp.Basic, T, ExtV, FuncV, ClassV, Obj, ModV))  # Obj: identity, as object.__hash__
    except Exception:
        return False


def _term(v: Any) -> Any:
    """Project a value into a hashable term component."""
    if isinstance(v, TV):
        return v.term
    if isinstance(v, Obj):
        return v.term if v.term is not None else T("obj", (v.cls_name, v.ident))
    if isinstance(v, Gamma):
        return T("gamma", (_term(v.cond), _term(v.a), _term(v.b)))
    if isinstance(v, (tuple, list)):
        return tuple(_term(x) for x in v)
    if isinstance(v, dict):
        return T("dict", tuple((k if _hashable(k) else repr(k), _term(x)) for k, x in v.items()))
    if isinstance(v, (set, frozenset)):
        return T("set", tuple(_term(x) for x in sorted(v, key=_set_order)))
    if isinstance(v, Unknown):
        return T("unknown", (v.why,))
    if isinstance(v, FuncV):
        return T("func", (f"{v.module.name}.{v.qualname}",))
    if isinstance(v, ClassV):
        return T("class", (f"{v.module.name}.{v.qualname}",))
    if isinstance(v, ExtV):
        return T("ext", (v.name,))
    if isinstance(v, ModV):
        return T("module", (v.info.name,))
    if isinstance(v, Bound):
        return T("bound", (_term(v.func), _term(v.self_val)))
    if isinstance(v, AutogradApply):
        return T("apply", (_term(v.cls),))
    if isinstance(v, float):
        return num(v)
    if v is BOTTOM:
        return T("bottom", ())
    if isinstance(v, _Builtin):
        return T("builtin", (v.name,))
    if isinstance(v, slice):
        return T("slice", (v.start, v.stop, v.step))
    if isinstance(v, _DictItems):
        return T("items", tuple((_term(a), _term(b)) for a, b in v.items))
    if isinstance(v, range):
        return T("range", (v.start, v.stop, v.step))
    return v


def _dotted(n: ast.AST) -> Optional[str]:
    if isinstance(n, ast.Name):
        return n.id
    if isinstance(n, ast.Attribute):
        b = _dotted(n.value)
        return f"{b}.{n.attr}" if b else None
    return None


def _load(t: ast.AST) -> ast.AST:
    import copy

    c = copy.copy(t)
    if hasattr(c, "ctx"):
        c.ctx = ast.Load()  # type: ignore[attr-defined]
    return c


from .builtins_model import BUILTINS  # noqa: E402  (needs the names defined above)
