"""Source of truth for MANIFEST.json (tools/mkmanifest.py renders it)."""

PY = "/venv/bin/python usa/check.py"


def entry(pid, text, note, technique, ref):
    return {
        "property_id": pid,
        "quick_cmd": f"{PY} {pid} --tier quick",
        "thorough_cmd": f"{PY} {pid} --tier thorough",
        "evidence_file": f"evidence/{pid}.json",
        "replay_cmd_template": f"{PY} {pid} --replay {{path}}",
        "engine": "usa",
        "level_claimed": {"category": "other", "text": text, "design_ref": ref},
        "level_note": note,
        "technique": technique,
    }


TRUST = (
    "Trusted base: Python/sympy semantics of the abstract interpreter; the frozen oracle tables in usa/rules/*.py;"
    " PyTorch reference-op semantics as documented. Numerical equality on concrete tensors is not decided."
)

AI = "abstract interpretation over ast (symbolic constant propagation with gated joins, shape schemas)"

IMPLEMENTED = {}


def _add(pid, text, note, technique, ref=None):
    IMPLEMENTED[pid] = entry(pid, text, note, technique, ref or f"DESIGN.md §4 {pid}")


_add(
    "C01",
    "Static, all sizes per rank: for each of the 16 mirrored functions x shape schema the forward value extracted from"
    " functional.py (scale primitives -> their forward factor) divided by a frozen reference program (the PyTorch op with"
    " the documented mult temperature) simplifies to a positive expression free of tensor symbols and op applications"
    " (==1 for losses/norms/embedding); every scale factor is tensor-value independent (taint); no in-place effect on"
    " an argument alias; every parameter is read or rejected; docs._validate raises for non-default unsupported args.",
    TRUST + " Reference programs in usa/rules/c01.py state what each function mirrors. dtype/shape preservation follows from float x Tensor semantics.",
    AI + " + taint / ownership domains + sympy ratio with uninterpreted reference ops",
)
_add(
    "C02",
    "Static: scale.py's primitives touch one pass each for any real factor (forward returns fwd_scale*X, backward saved*grad;"
    " sibling tracing branches all save bwd_scale); in every public function x schema each differentiable operand passes"
    " exactly one backward-only, data-independent, positive scale directly on the operand below the reference op, and no"
    " backward factor sits above it.",
    TRUST + " PyTorch autograd of the reference op is trusted; a scale node multiplies the gradient by its backward factor (R1).",
    AI + " + term-path rules on scale nodes",
)
_add(
    "C03",
    "Static, all sizes per rank: every forward/backward scale expression of linear, linear_readout, matmul, conv1d, add,"
    " embedding, dropout, mse_loss, layer_norm, rms_norm is extracted from functional.py by symbolic constant propagation"
    " under rank-concrete/size-symbolic shape schemas and proven equal (sympy) to the 1/sqrt(#terms) oracle table.",
    TRUST + " Term counts of the PyTorch ops are a frozen table (the dynamic all-ones measurement is not run).",
    AI + " + computer-algebra equality with frozen oracle table",
)
_add(
    "C04",
    "ONE clause only: the cross-entropy logit-gradient scale extracted from functional.py equals V/sqrt(V-1) for symbolic V"
    " (RMS exactly 1 for uniform logits). The tolerance bands of C04 (gelu/silu/softmax/attention/norm RMS windows) are"
    " moments of nonlinear functions over continuous ranges and are NOT decidable by static analysis; they are not claimed.",
    TRUST + " Only the exact clause is decided; every tolerance-band clause is explicitly out of reach of this family.",
    AI + " + sympy equality (single exact clause)",
)
_add(
    "C05",
    "Static: apply_constraint's contract (identity for None/'', ValueError for unknown names, one value repeated), the"
    " lookup domain (every other module-level name must be rejected), mean formulas == textbook G/H/A for arity 1..6 and"
    " selectors; for every constrained op x rule name: forward scale == each constrained grad scale == rule(ideal scales),"
    " weight/bias grad scales outside the group; fixed-constraint ops use one value.",
    TRUST + " 8 known findings: module globals of constraints.py leak into the name lookup (see known_findings.json).",
    AI + " + sympy equality; call-graph model of getattr(sys.modules[__name__], name)",
)
_add(
    "C06",
    "Static, symbolic tau: residual_split is backward-only (tau/d, 1/d) in (residual, skip) order, residual_add forward-only"
    " with the same weights, squares sum to 1, residual_apply's dataflow term equals split -> fn(first) -> add with one tau.",
    TRUST,
    AI + " + term equality with closed form",
)
_add(
    "C07",
    "Static, every depth: tau(index, layers) extracted from the rule's closure at index 2k and 2k+1 (k, L, m, r symbolic)"
    " equals the unique closed form a(i)/sqrt(S(i)) whose telescoping obligations are discharged by sympy; TransformerStack"
    " wires (2i, 2i+1, 2*layers) in order (layers in a finite set), TransformerLayer pairs each tau with its branch"
    " (term equality with a reference program), defaults and decoder forwarding.",
    TRUST + " Lemma of DESIGN.md C07 (telescoping) is a paper step; stack wiring evaluated for a finite set of depths.",
    AI + " with parity schemas + term equality with reference program",
)
_add(
    "C10",
    "Static, all sizes/depths: case enumeration (rule x tag x ndim 1..4 x depth None/symbolic) of lr_scale_func_adam /"
    " lr_scale_func_sgd compared with the u-muP factor table; exhaustiveness and error paths; scaled_parameters stores"
    " group-or-global lr x factor for float and tensor lr; SGD/Adam/AdamW wiring of rule and options.",
    TRUST,
    AI + " with case schemas + frozen factor table",
)
_add(
    "C12",
    "Static cross-file product law: out_scale(functional op under the module's default / None constraint) x Adam factor(tag"
    " set at the module's Parameter site, ndim, depth) x fan-in count == depth^-1/2 for Linear, LinearReadout, Conv1d with"
    " all widths/kernel/depth symbolic.",
    TRUST + " Adam's first step with eps=0 is lr*sign(g) (assumption).",
    AI + " across functional.py/_modules.py/optim.py + sympy identity",
)

PENDING = {}

NOT_APPLICABLE = [
    {
        "property_id": "C20",
        "reason": "Agreement of eager vs TorchDynamo/AOT/Inductor execution is decided by torch's run-time tracing compiler;"
        " nothing in /repo's source shape bounds it, and a faithful decision needs running the tracer (a different family)."
        " Its one source-visible ingredient (sibling branches of the tracing special-case save the same quantity) is checked under C02.",
    }
]

ALL_IDS = [f"C{i:02d}" for i in range(1, 21)]
CHECKS = [IMPLEMENTED[k] for k in sorted(IMPLEMENTED)]
for pid in ALL_IDS:
    if pid not in IMPLEMENTED and pid != "C20":
        NOT_APPLICABLE.append({"property_id": pid, "reason": "check under construction in this session (see DESIGN.md §4 for the planned static rule); not claimed until it runs clean"})
NOT_APPLICABLE.sort(key=lambda d: d["property_id"])
