"""Source of truth for MANIFEST.json (tools/mkmanifest.py renders it)."""

PY = "/venv/bin/python usa/check.py"


def entry(pid, text, note, technique, ref):
    return {
        "property_id": pid,
        "quick_cmd": f"{PY} {pid} --tier quick",
        "thorough_cmd": f"{PY} {pid} --tier thorough",
        "evidence_file": f"evidence/{pid}.json",
        "replay_cmd_template": f"{PY} {pid} --replay {{path}}",
        "engine": "usa",
        "level_claimed": {"category": "other", "text": text, "design_ref": ref},
        "level_note": note,
        "technique": technique,
    }


TRUST = (
    "Trusted base: Python/sympy semantics of the abstract interpreter; the frozen oracle tables in usa/rules/*.py;"
    " PyTorch reference-op semantics as documented. Numerical equality on concrete tensors is not decided."
)

IMPLEMENTED = {
    "C03": entry(
        "C03",
        "Static, all sizes per rank: every forward/backward scale expression of linear, linear_readout, matmul, conv1d, add,"
        " embedding, dropout, mse_loss, layer_norm, rms_norm is extracted from functional.py by symbolic constant propagation"
        " under rank-concrete/size-symbolic shape schemas and proven equal (sympy) to the 1/sqrt(#terms) oracle table.",
        TRUST + " Term counts of the PyTorch ops are a frozen table (the dynamic all-ones measurement is not run).",
        "abstract interpretation (symbolic constant propagation over ast, shape schemas) + computer-algebra equality with frozen oracle table",
        "DESIGN.md §4 C03",
    ),
}

PENDING = {}

NOT_APPLICABLE = [
    {
        "property_id": "C20",
        "reason": "Agreement of eager vs TorchDynamo/AOT/Inductor execution is decided by torch's run-time tracing compiler;"
        " nothing in /repo's source shape bounds it, and a faithful decision needs running the tracer (a different family)."
        " Its one source-visible ingredient (sibling branches of the tracing special-case save the same quantity) is checked under C02.",
    }
]

ALL_IDS = [f"C{i:02d}" for i in range(1, 21)]
CHECKS = [IMPLEMENTED[k] for k in sorted(IMPLEMENTED)]
for pid in ALL_IDS:
    if pid not in IMPLEMENTED and pid != "C20":
        NOT_APPLICABLE.append({"property_id": pid, "reason": "check under construction in this session (see DESIGN.md §4 for the planned static rule); not claimed until it runs clean"})
NOT_APPLICABLE.sort(key=lambda d: d["property_id"])
