"""Source of truth for MANIFEST.json (tools/mkmanifest.py renders it)."""

PY = "/venv/bin/python usa/check.py"


def entry(pid, text, note, technique, ref):
    return {
        "property_id": pid,
        "quick_cmd": f"{PY} {pid} --tier quick",
        "thorough_cmd": f"{PY} {pid} --tier thorough",
        "evidence_file": f"evidence/{pid}.json",
        "replay_cmd_template": f"{PY} {pid} --replay {{path}}",
        "engine": "usa",
        "level_claimed": {"category": "other", "text": text, "design_ref": ref},
        "level_note": note,
        "technique": technique,
    }


TRUST = (
    "Trusted base: Python/sympy semantics of the abstract interpreter; the frozen oracle tables in usa/rules/*.py;"
    " PyTorch reference-op semantics as documented. Numerical equality on concrete tensors is not decided."
)

AI = "abstract interpretation over ast (symbolic constant propagation with gated joins, shape schemas)"

IMPLEMENTED = {}


def _add(pid, text, note, technique, ref=None):
    IMPLEMENTED[pid] = entry(pid, text, note, technique, ref or f"DESIGN.md §4 {pid}")


_add(
    "C01",
    "Static, all sizes per rank: for each of the 16 mirrored functions x shape schema the forward value extracted from"
    " functional.py (scale primitives -> their forward factor) divided by a frozen reference program (the PyTorch op with"
    " the documented mult temperature) simplifies to a positive expression free of tensor symbols and op applications"
    " (==1 for losses/norms/embedding); every scale factor is tensor-value independent (taint); no in-place effect on"
    " an argument alias; every parameter is read or rejected; the docstring decorators, applied to probe objects, raise for"
    " non-default unsupported args; the result's dtype typestate (out-of-place promotion vs in-place receiver dtype) equals"
    " that of the reference program; no value of the input's dtype is squeezed through a fixed narrower float dtype"
    " (precision typestate). Schemas include degenerate sizes (pointwise conv, cross-attention, one position, value head size"
    " != query head size, 1-tuple conv arguments, class-probability targets, mismatched mse operands, single-affine norms).",
    TRUST + " Reference programs in usa/rules/c01.py state what each function mirrors. dtype/shape preservation follows from float x Tensor semantics.",
    AI + " + taint / ownership domains + sympy ratio with uninterpreted reference ops",
)
_add(
    "C02",
    "Static: scale.py's primitives touch one pass each for any real factor (forward returns fwd_scale*X, backward saved*grad;"
    " sibling tracing branches all save bwd_scale); in every public function x schema each differentiable operand passes"
    " exactly one backward-only, data-independent, positive scale directly on the operand below the reference op, and no"
    " backward factor sits above it.",
    TRUST + " PyTorch autograd of the reference op is trusted; a scale node multiplies the gradient by its backward factor (R1).",
    AI + " + term-path rules on scale nodes",
)
_add(
    "C03",
    "Static, all sizes per rank: every forward/backward scale expression of linear, linear_readout, matmul, conv1d, add,"
    " embedding, dropout, mse_loss, layer_norm, rms_norm is extracted from functional.py by symbolic constant propagation"
    " under rank-concrete/size-symbolic shape schemas and proven equal (sympy) to the 1/sqrt(#terms) oracle table.",
    TRUST + " Term counts of the PyTorch ops are a frozen table (the dynamic all-ones measurement is not run).",
    AI + " + computer-algebra equality with frozen oracle table",
)
_add(
    "C04",
    "ONE clause only: the cross-entropy logit-gradient scale extracted from functional.py equals V/sqrt(V-1) for symbolic V"
    " (RMS exactly 1 for uniform logits). The tolerance bands of C04 (gelu/silu/softmax/attention/norm RMS windows) are"
    " moments of nonlinear functions over continuous ranges and are NOT decidable by static analysis; they are not claimed.",
    TRUST + " Only the exact clause is decided; every tolerance-band clause is explicitly out of reach of this family.",
    AI + " + sympy equality (single exact clause)",
)
_add(
    "C05",
    "Static: apply_constraint's contract (identity for None/'', ValueError for unknown names, one value repeated), the"
    " lookup domain (every other module-level name must be rejected), mean formulas == textbook G/H/A for arity 1..6 and"
    " selectors; for every constrained op x rule name: forward scale == each constrained grad scale == rule(ideal scales),"
    " weight/bias grad scales outside the group; fixed-constraint ops use one value.",
    TRUST + "",
    AI + " + sympy equality; call-graph model of getattr(sys.modules[__name__], name)",
)
_add(
    "C06",
    "Static, symbolic tau: residual_split is backward-only (tau/d, 1/d) in (residual, skip) order, residual_add forward-only"
    " with the same weights, squares sum to 1, residual_apply's dataflow term equals split -> fn(first) -> add with one tau.",
    TRUST,
    AI + " + term equality with closed form",
)
_add(
    "C07",
    "Static, every depth: tau(index, layers) extracted from the rule's closure at index 2k and 2k+1 (k, L, m, r symbolic)"
    " equals the unique closed form a(i)/sqrt(S(i)) whose telescoping obligations are discharged by sympy; TransformerStack"
    " wires (2i, 2i+1, 2*layers) in order (layers in a finite set), TransformerLayer pairs each tau with its branch"
    " (term equality with a reference program), defaults and decoder forwarding; a forward/__call__ the stack defines is"
    " executed abstractly (every layer once, in order, for depths 1..13, training/eval, autograd on/off); constructor options"
    " outside the scenarios make the verdict undecided.",
    TRUST + " Lemma of DESIGN.md C07 (telescoping) is a paper step; stack wiring evaluated for a finite set of depths.",
    AI + " with parity schemas + term equality with reference program",
)
_add(
    "C10",
    "Static, all sizes/depths: case enumeration (rule x tag x ndim 1..4 x depth None/symbolic) of lr_scale_func_adam /"
    " lr_scale_func_sgd compared with the u-muP factor table; exhaustiveness and error paths; scaled_parameters stores"
    " group-or-global lr x factor for float and tensor lr (incl. one-shot iterables, equal shapes with different depths);"
    " SGD/Adam/AdamW hand scaled_parameters a rule that is extensionally the table's rule, and the options.",
    TRUST,
    AI + " with case schemas + frozen factor table",
)
_add(
    "C12",
    "Static cross-file product law: out_scale(functional op under the module's default / None constraint) x Adam factor(tag"
    " set at the module's Parameter site, ndim, depth) x fan-in count == depth^-1/2 for Linear, LinearReadout, Conv1d with"
    " all widths/kernel/depth symbolic; a group configured with eps=0 / weight_decay=0 keeps exactly these settings; depth"
    " containers tag every layer (frozen ones included) with the number of layers.",
    TRUST + " Adam's first step with eps=0 is lr*sign(g) (assumption).",
    AI + " across functional.py/_modules.py/optim.py + sympy identity",
)

AIX = "abstract interpretation over ast of the repository source on abstract objects"
_add(
    "C08",
    "Static: for the 11 leaf modules (constructor options symbolic, flags enumerated) __init__ and forward are abstractly"
    " evaluated with the torch.nn base constructor modelled by its attribute convention: forward = exactly one call of the"
    " same-role functional on the module's own parameters; every option with a same-named functional parameter is bound to"
    " it (no dead / mis-routed option), others are consumed at construction, read in forward or rejected; Conv1d passes"
    " padding 0 after an explicit pad; Parameter tag table; reset_parameters (normal_ / zeroed bias), RMSNorm ones; depth"
    " containers tag with len(self) and refuse untagged parameters; MLP/MHSA/TransformerLayer forward their options.",
    TRUST + " torch.nn constructors' attribute convention is a frozen table. Numerical equality with the torch.nn twin is not decided (follows from C01 given the delegation).",
    AIX + " + option-forwarding relation on resolved call bindings",
)
_add(
    "C09",
    "Static induction over producers: every function of parameter.py that returns a parameter object (Parameter,"
    " _parameter_deepcopy, _rebuild_parameter_with_state) is shown by abstract evaluation to re-establish the whole"
    " invariant {mup_type, mup_scaling_depth, instance __deepcopy__, instance __reduce_ex__ bound to the new object}; the"
    " pickled state filters exactly the two hooks and keeps the tags; reduce rebuilds through the library's function;"
    " has_parameter_data reads only the tags; apply_transform copies via copy.deepcopy (which goes through the instance hook);"
    " unit_scale on a module holding tagged parameters keeps tags and hooks; no public transform calls a converting /"
    " freezing method on its working copy. Pickling is run with symbolic and concrete (incl. None) tag values.",
    TRUST + " nn.Parameter.__deepcopy__/torch._utils rebuild produce parameters with only the shipped state; .to/.half/load_state_dict keep object identity (torch default).",
    AIX + " (producer-closure / typestate of the tag invariant)",
)
_add(
    "C11",
    "Static: scaled_parameters is abstractly executed on symbolic group lists (bare, grouped with own lr/decay/extra keys,"
    " allowed-untagged, tensor lr, independent decay on/off, opaque lr_scale_func): one output group per parameter in order,"
    " extra keys carried by identity, caller's dicts/lists unchanged, tensor lr cloned per parameter and never modified in"
    " place, stored decay == group decay / float(the stored scaled lr) (lr x wd == requested decay) or passed through."
    " Inputs include one-shot iterables, frozen parameters, falsy option values, a group mixing untagged and tagged"
    " parameters; SGD/Adam/AdamW are run end to end (groups handed to torch carry lr x wd == requested decay, or the plain"
    " decay when disabled). Bounded in the length of the lists (the earlier syntactic loop-shape rule was removed: it fired on"
    " behaviour-preserving refactorings).",
    TRUST + " One optimizer step multiplying parameters by (1 - lr*wd) is PyTorch optimizer semantics, not decided.",
    AIX + " on symbolic group lists",
)
_add(
    "C13",
    "STRUCTURAL clauses only: FPFormat.quantise (nearest) abstractly evaluated with symbolic E, M (thorough: every E in 2..8 x"
    " M in 0..23): the int32 bit reinterpretation acts on a float32 value on every path and the result is cast back to"
    " x.dtype; no in-place op on an alias of the argument; the returned dataflow term equals the reference pipeline with"
    " mask 2^(23-M)-1, offset in {floor,ceil}(mask/2) (exhaustive over M), downscale 2^(127-2^(E-1)), clip at max; unknown"
    " mode raises ValueError; range properties consistent; a rank-0 input keeps the int32 pattern int32 (0-d promotion); the"
    " clip bound is a float or a 64-bit int for every format (number-kind mode). Per-bit-pattern neighbour/idempotence/monotonicity clauses are"
    " NOT decidable statically and are not claimed.",
    TRUST + " That add-half-then-truncate on the float32 pattern rounds to nearest is an integer-arithmetic argument, not mechanised here.",
    AIX + " + dtype typestate + term equality with reference pipeline (finite-domain exact comparison of constants)",
)
_add(
    "C14",
    "STRUCTURAL clauses only: stochastic path of FPFormat.quantise with symbolic E, M, srbits: exactly one torch.randint with"
    " low 0, high 2^srbits, size x.shape (one draw per element), int32, x.device; the returned term equals the reference"
    " scheme (randint << (23-M-srbits)) + [23-M-srbits>0] half-step under both arms; dtype typestate / no mutation;"
    " __post_init__ default srbits = 23-M, explicit kept, rejected with nearest. The probabilities themselves are NOT"
    " decided (would need enumerating draws: another family).",
    TRUST + " The carry argument linking the scheme to the probability clause is a paper step.",
    AIX + " + term equality with reference scheme under gated guards",
)
_add(
    "C15",
    "Static: straight-through autograd functions are value/gradient identities on the untouched pass; the backend that"
    " simulate_format hands to apply_transform is run on abstract FX graphs (no private helper is named): it rewrites"
    " exactly the linear / attention calls (plain and unit-scaled), each to a callable whose dataflow term equals"
    " quantise_fwd(tensor operands only, once per operand even when aliased) -> the op with all remaining arguments ->"
    " quantise_bwd; the rewritten call binds positional / omitted / keyword forms to the signature a caller sees with each"
    " argument in its role and format_to_tuple(fwd), format_to_tuple(bwd) in that order; tuple transport restores every"
    " field quantise reads (found by recording field reads); statement nodes survive; lint; simulate_fp8 = E4M3/E5M2; a"
    " torch.nn root module is entered through a library function (else TorchDynamo captures nothing).",
    TRUST + " What TorchDynamo captures and bit-exactness under a lossless format are not decided.",
    AIX + " + abstract fx node model + signature binding",
)
_add(
    "C16",
    "Translation validation on a covering set of abstract FX graphs (residual with input skip, nested blocks with softmax"
    " branch + readout + plain add after the last residual, skip produced by a plain add, scalar / in-place adds +"
    " attention + user replacement precedence): the unit-scaling backend (incl. utils.replace_node_with_function) is"
    " abstractly executed on an fx model and its result compared, as an unfolded dataflow term, with an independent"
    " reference rewriter written from the User-Guide recipe; every rewritten call must bind; torch_map is evaluated"
    " statically from the module namespace and torch name tables; unit_scale() re-initialises and reorders the copy; the"
    " call forms of torch.nn's own wrapper modules (read from the installed sources) bind to the unit-scaled counterparts;"
    " the global torch_map and the caller's replace mapping are unchanged by a backend run.",
    TRUST + " The fx contract is modelled in usa/fxmodel.py; Dynamo-captured graphs are not decided; graph shapes are a finite covering set.",
    AIX + " (abstract fx graph model) vs reference rewriter",
)
_add(
    "C17",
    "Static: apply_transform abstractly executed on fresh / already-transformed abstract modules: result is a deepcopy, all"
    " stores land on the copy, input attributes and backend list unchanged, result.backends = old + [new] as its own list"
    " which the composite backend closes over; composition applies each backend once in order; _order_backends puts the"
    " backend unit_scale installed before the one simulate_format installed for every order (name coupling through the"
    " real closures' __qualname__); both user orders end [unit, quant]; rerun/base_forward cache flags, Dynamo reset before"
    " re-tracing; every public entry point returns a copy (also for lossless formats) that shares no parameter, sub-module"
    " or tensor with its input (frozen parameters included); a root whose forward is torch.nn's (also inherited by a user"
    " subclass) is entered through a library function; mutable defaults never mutated.",
    TRUST + " Equality of outputs across orders, storage independence at run time and Dynamo caching are not decided.",
    AIX + " (ownership / copy-before-write, provenance of backend objects)",
)
_add(
    "C18",
    "Static: tracker autograd functions return their argument (or clone) in both passes and record metrics from the"
    " forward resp. backward argument; both interpreters' run_node return gamma(float-tensor predicate(out) ?"
    " tracker.apply(out) : out) for out = super().run_node(n); each Metrics field equals its definition as a method chain;"
    " the requires-grad shim only calls requires_grad_ under the float predicate and delegates unchanged; the wrap decision is"
    " a truth table over every condition the code consults and depends on the float-tensor predicate alone; other"
    " Interpreter hook overrides hand on super()'s value itself; a recorded 0 is printed as a number.",
    TRUST + " Autograd sums consumer gradients before a custom function's backward; bit-identity under Dynamo not decided.",
    AIX + " + method-chain normal forms",
)
_add(
    "C19",
    "Static: the three pruning helpers are abstractly executed on an abstract FX graph whose removable nodes are used"
    " positionally, by keyword, inside a list, inside a nested tuple and in the output tuple: no raise under the fx contract"
    " (erase_node raises while users remain), surviving nodes/order/args == an independently computed expectation (bypass"
    " to the single float input or cut), copying helpers leave the input unchanged, selective helper in place, caller's"
    " rtol reaches isclose (purely relative), only mean|x| compared, the same-scale predicate decided through the public helper"
    " on two-node graphs, chains of three same-scale nodes, the copying helpers chained.",
    TRUST + " fx contract as modelled in usa/fxmodel.py; what track_scales records at run time is not decided.",
    AIX + " (abstract fx graph model) vs reference expectation",
)

PENDING = {}

NOT_APPLICABLE = [
    {
        "property_id": "C20",
        "reason": "Agreement of eager vs TorchDynamo/AOT/Inductor execution is decided by torch's run-time tracing compiler;"
        " nothing in /repo's source shape bounds it, and a faithful decision needs running the tracer (a different family)."
        " Its one source-visible ingredient (sibling branches of the tracing special-case save the same quantity) is checked under C02.",
    }
]

ALL_IDS = [f"C{i:02d}" for i in range(1, 21)]
CHECKS = [IMPLEMENTED[k] for k in sorted(IMPLEMENTED)]
for pid in ALL_IDS:
    if pid not in IMPLEMENTED and pid != "C20":
        raise SystemExit(f"{pid} neither claimed nor declared not applicable")
NOT_APPLICABLE.sort(key=lambda d: d["property_id"])
