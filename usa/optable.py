"""The op table: scale summaries of the public functional namespace, extracted by
abstract interpretation of unit_scaling/functional.py under shape schemas."""
from __future__ import annotations

from dataclasses import dataclass, field
from typing import Any, Dict, List, Optional, Tuple

from . import terms as TM
from .absint import Event, Interp, Unsupported
from .core import AnalysisError, Repo
from .schemas import Schema, dims_ge2_decider
from .values import BOTTOM, FuncV, Gamma, T, TV, Unknown, fmt

FUNCTIONAL = "unit_scaling/functional.py"

PUBLIC_FUNCTIONS = [
    "gelu", "silu", "silu_glu", "softmax", "dropout", "matmul", "linear", "linear_readout",
    "conv1d", "layer_norm", "rms_norm", "add", "embedding", "scaled_dot_product_attention",
    "cross_entropy", "mse_loss", "residual_split", "residual_add", "residual_apply",
]


@dataclass
class Case:
    guard: Tuple[Tuple[Any, bool], ...]
    term: Any  # γ-free result term (may be a tuple for multi-result functions)
    out_fwd: Any
    out_bwd: Any
    core: Any
    operands: Dict[str, List[Tuple[Any, Any, Tuple[str, ...]]]]
    stripped: Any


@dataclass
class Summary:
    func: str
    schema: Schema
    result: Any
    events: List[Event]
    cases: List[Case]
    error: Optional[str] = None
    fobj: Any = None

    def scale_events(self) -> List[Event]:
        return [e for e in self.events if e.kind == "scale"]


def make_case(guard: Tuple[Tuple[Any, bool], ...], term: Any) -> Case:
    fw, bw, core = TM.peel_output(term)
    return Case(guard, term, TM.product(fw), TM.product(bw), core, TM.operand_scales(core), TM.normalize(TM.strip_scales(term)))


def summarise(repo: Repo, func: str, schema: Schema, rel: str = FUNCTIONAL, interp: Optional[Interp] = None, opaque=None) -> Summary:
    it = interp or Interp(repo, opaque=opaque)
    it.events = []
    it.decide = dims_ge2_decider if schema.dims_ge2 else None
    f = it.get_global(rel, func)
    if not isinstance(f, FuncV):
        raise AnalysisError(f"{rel}::{func} is not a function definition")
    try:
        res = it.run(f, **schema.args)
    except Unsupported as e:
        return Summary(func, schema, None, list(it.events), [], error=str(e), fobj=f)
    cases: List[Case] = []
    rt = TM.term_of(res)
    for g, t in TM.instances(rt):
        if isinstance(t, T) and t.op == "bottom":
            continue
        cases.append(make_case(g, t))
    return Summary(func, schema, res, list(it.events), cases, fobj=f)
