"""Shape schemas: rank concrete, sizes symbolic (positive integers), hyper-parameters
symbolic (positive reals).  One schema = one abstract call of a public function."""
from __future__ import annotations

from dataclasses import dataclass, field
from typing import Any, Callable, Dict, List, Optional, Tuple

import sympy as sp

from .values import Shape, T, TV, dim, hyper


def P(name: str, shape: Optional[Tuple[Any, ...]] = None, kind: str = "tensor") -> TV:
    return TV(
        T("param", (name,)),
        shape=Shape(shape) if shape is not None else None,
        dtype=("same", name),
        alias=frozenset([name]),
        kind=kind,
    )


def O(name: str) -> TV:
    """Opaque non-tensor parameter (flag, string, dtype…)."""
    return TV(T("param", (name,)), kind="opaque")


@dataclass
class Schema:
    name: str
    args: Dict[str, Any]
    note: str = ""
    dims_ge2: bool = True  # symbolic dims are >= 2 (single-element operands excluded)


def dims_ge2_decider(cond: Any) -> Optional[bool]:
    """Schema assumption: every symbolic dimension is >= 2, so a product of dimensions
    is never 1.  Decides only conditions of the form Eq(monomial, 1) and their
    boolean combinations."""
    if isinstance(cond, sp.Equality):
        for l, r in ((cond.lhs, cond.rhs), (cond.rhs, cond.lhs)):
            if r == 1 and l.free_symbols and all(s.is_integer and s.is_positive for s in l.free_symbols):
                if l.is_Symbol or (l.is_Mul and all(a.is_Symbol or (a.is_Pow and a.exp.is_positive) for a in l.args)):
                    return False
        return None
    if isinstance(cond, (sp.StrictGreaterThan, sp.GreaterThan, sp.StrictLessThan, sp.LessThan)):
        # a monomial of dimensions (each >= 2) compared with the constants 1 / 2: `seq_len > 1`, `n < 2`, ...
        def mono(e: Any) -> bool:
            return bool(e.free_symbols) and all(s.is_integer and s.is_positive for s in e.free_symbols) and (e.is_Symbol or (e.is_Mul and all(a.is_Symbol or (a.is_Pow and a.exp.is_positive) for a in e.args)))

        l, r = cond.lhs, cond.rhs
        if mono(r) and l.is_number:
            flip = {sp.StrictGreaterThan: sp.StrictLessThan, sp.GreaterThan: sp.LessThan, sp.StrictLessThan: sp.StrictGreaterThan, sp.LessThan: sp.GreaterThan}
            return dims_ge2_decider(flip[type(cond)](r, l))
        if mono(l) and r.is_number:
            if isinstance(cond, sp.StrictGreaterThan):  # l > r: true when r < 2
                return True if r < 2 else None
            if isinstance(cond, sp.GreaterThan):  # l >= r
                return True if r <= 2 else None
            if isinstance(cond, sp.StrictLessThan):  # l < r: false when r <= 2
                return False if r <= 2 else None
            if isinstance(cond, sp.LessThan):  # l <= r
                return False if r < 2 else None
        return None
    if isinstance(cond, sp.Unequality):
        r = dims_ge2_decider(sp.Eq(cond.lhs, cond.rhs))
        return None if r is None else (not r)
    if isinstance(cond, sp.Not):
        r = dims_ge2_decider(cond.args[0])
        return None if r is None else (not r)
    if isinstance(cond, sp.Or):
        rs = [dims_ge2_decider(a) for a in cond.args]
        if any(r is True for r in rs):
            return True
        if all(r is False for r in rs):
            return False
        return None
    if isinstance(cond, sp.And):
        rs = [dims_ge2_decider(a) for a in cond.args]
        if any(r is False for r in rs):
            return False
        if all(r is True for r in rs):
            return True
        return None
    return None


D = dim
d1, d2, d3 = D("d1"), D("d2"), D("d3")
LEAD = [(), (d1,), (d1, d2), (d1, d2, d3)]


def lead_numel(lead: Tuple[Any, ...]) -> Any:
    r: Any = sp.Integer(1)
    for x in lead:
        r = r * x
    return r


def linear_schemas(tier: str, constraint: Any = None, fn: str = "linear") -> List[Schema]:
    I, Oo = D("I"), D("O")
    out = []
    for lead in LEAD:
        for bias in (True, False):
            if tier == "quick" and not bias and len(lead) not in (0, 2):
                continue
            args = dict(input=P("input", lead + (I,)), weight=P("weight", (Oo, I)), bias=P("bias", (Oo,)) if bias else None, constraint=constraint)
            out.append(Schema(f"{fn}[lead={len(lead)},bias={bias}]", args))
    if fn == "linear":
        # the three documented powers (output, grad(input), grad(weight|bias)) as independent symbols
        pw = (hyper("p_out"), hyper("p_gin"), hyper("p_gpar"))
        out.append(Schema("linear[lead=2,bias=True,scale_power symbolic]", dict(input=P("input", (d1, d2, I)), weight=P("weight", (Oo, I)), bias=P("bias", (Oo,)), constraint=constraint, scale_power=pw)))
    return out


def matmul_schemas(tier: str, constraint: Any = None) -> List[Schema]:
    M, K, N = D("M"), D("K"), D("N")
    out = [
        Schema(f"matmul[batch={len(lead)}]", dict(left=P("left", lead + (M, K)), right=P("right", lead + (K, N)), constraint=constraint))
        for lead in LEAD
    ]
    # mixed ranks (broadcast batch): outside the exact term-count clause of C03, inside C01/C02/C05
    out.append(Schema("matmul[2-D left x batched right]", dict(left=P("left", (M, K)), right=P("right", (d1, K, N)), constraint=constraint), note="mixed-rank"))
    out.append(Schema("matmul[batched left x 2-D right]", dict(left=P("left", (d1, M, K)), right=P("right", (K, N)), constraint=constraint), note="mixed-rank"))
    return out


def conv1d_schemas(tier: str, constraint: Any = None) -> List[Schema]:
    N, C, L, Co, Cg, k = D("N"), D("C"), D("L"), D("Co"), D("Cg"), D("k")
    s, p, dl, G = D("s"), D("p"), D("dl"), D("G")
    out = []
    for batched in (False, True):
        for bias in (True, False):
            if tier == "quick" and batched != bias:
                continue
            ishape = (N, C, L) if batched else (C, L)
            out.append(
                Schema(
                    f"conv1d[batched={batched},bias={bias}]",
                    dict(input=P("input", ishape), weight=P("weight", (Co, Cg, k)), bias=P("bias", (Co,)) if bias else None,
                         stride=s, padding=p, dilation=dl, groups=G, constraint=constraint),
                )
            )
    one, zero = sp.Integer(1), sp.Integer(0)
    out.append(Schema("conv1d[pointwise: kernel 1, stride 1, padding 0, groups 1]", dict(input=P("input", (N, C, L)), weight=P("weight", (Co, C, one)), bias=P("bias", (Co,)),
                                                                                       stride=one, padding=zero, dilation=one, groups=one, constraint=constraint)))
    # stride / padding / dilation as 1-tuples: F.conv1d takes them, and torch.nn.Conv1d always passes them so
    out.append(Schema("conv1d[stride, padding, dilation given as 1-tuples]", dict(input=P("input", (N, C, L)), weight=P("weight", (Co, Cg, k)), bias=P("bias", (Co,)),
                                                                                  stride=(s,), padding=(p,), dilation=(dl,), groups=G, constraint=constraint)))
    pw = (hyper("p_out"), hyper("p_gin"), hyper("p_gpar"))
    out.append(Schema("conv1d[batched=True,bias=True,scale_power symbolic]", dict(input=P("input", (N, C, L)), weight=P("weight", (Co, Cg, k)), bias=P("bias", (Co,)),
                                                                                  stride=s, padding=p, dilation=dl, groups=G, constraint=constraint, scale_power=pw)))
    return out


def add_schemas(tier: str, constraint: Any = None) -> List[Schema]:
    a, b, c = D("a"), D("b"), D("c")
    pats = [
        ("same", (a, b, c), (a, b, c)),
        ("trailing", (a, b, c), (c,)),
        ("mid", (a, b, c), (b, 1)),
        ("cross", (a, 1, c), (1, b, 1)),
        ("rank-lift", (c,), (a, b, c)),
        ("2d", (a, b), (a, 1)),
        # single-element operands: the output is not rescaled (it shifts the mean, not the spread)
        ("single-element other", (a, b), (1,)),
        ("0-dim other", (a, b), ()),
        ("single-element input", (1, 1), (a, b)),
    ]
    return [Schema(f"add[{n}]", dict(input=P("input", x), other=P("other", y), constraint=constraint)) for n, x, y in pats]


def embedding_schemas(tier: str) -> List[Schema]:
    V, E = D("V"), D("E")
    out = [Schema(f"embedding[idx-rank={len(lead)}]", dict(input=P("input", lead), weight=P("weight", (V, E)))) for lead in LEAD]
    # rarely used options given (the indices are assumed not to hit padding_idx, as the property states)
    out.append(Schema("embedding[idx-rank=2,padding_idx given]", dict(input=P("input", (d1, d2)), weight=P("weight", (V, E)), padding_idx=sp.Symbol("padding_idx", integer=True, nonnegative=True))))
    return out


def norm_schemas(tier: str, fn: str) -> List[Schema]:
    n1, n2 = D("n1"), D("n2")
    out = []
    for lead in LEAD[1:] + [()]:
        for ns in ((n1,), (n1, n2)):
            if tier == "quick" and (len(lead), len(ns)) not in ((1, 1), (2, 1), (2, 2), (0, 1)):
                continue
            args: Dict[str, Any] = dict(input=P("input", lead + ns), normalized_shape=tuple(ns), weight=P("weight", ns))
            if fn == "layer_norm":
                args["bias"] = P("bias", ns)
            out.append(Schema(f"{fn}[lead={len(lead)},norm-rank={len(ns)}]", args))
    # no affine parameters
    args = dict(input=P("input", (d1, n1)), normalized_shape=(n1,))
    out.append(Schema(f"{fn}[no-affine]", args))
    if fn == "layer_norm":
        # each affine parameter is optional on its own
        out.append(Schema(f"{fn}[bias only]", dict(input=P("input", (d1, n1)), normalized_shape=(n1,), bias=P("bias", (n1,)))))
        out.append(Schema(f"{fn}[weight only]", dict(input=P("input", (d1, n1)), normalized_shape=(n1,), weight=P("weight", (n1,)))))
    return out


def elementwise_schemas(fn: str, tier: str, constraint: Any = "__default__") -> List[Schema]:
    a, b = D("a"), D("b")
    mult = hyper("mult")
    out = []
    for shape in ((a,), (a, b), (d1, a, b)):
        args: Dict[str, Any] = dict(input=P("input", shape), mult=mult)
        if constraint != "__default__":
            args["constraint"] = constraint
        if fn == "gelu":
            for ap in ("none", "tanh"):
                out.append(Schema(f"gelu[rank={len(shape)},approximate={ap}]", dict(args, approximate=ap)))
        elif fn == "silu":
            out.append(Schema(f"silu[rank={len(shape)}]", args))
        elif fn == "softmax":
            for dm in sorted({-1, 0, len(shape) - 1, -len(shape)}):
                out.append(Schema(f"softmax[rank={len(shape)},dim={dm}]", dict(args, dim=dm)))
        if tier == "quick" and len(shape) == 2:
            break
    return out


def sdpa_schemas(tier: str) -> List[Schema]:
    B, H, S, Dh = D("B"), D("H"), D("S"), D("Dh")
    mult = hyper("mult")
    pd = sp.Symbol("dropout_p", nonnegative=True)
    out = []
    for lead in ((), (B,), (B, H)):
        for causal in (False, True):
            for mask in (False, True):
                if mask and causal:
                    continue
                if tier == "quick" and (len(lead) != 2 and (causal or mask)):
                    continue
                sh = lead + (S, Dh)
                args = dict(query=P("query", sh), key=P("key", sh), value=P("value", sh), is_causal=causal, mult=mult, dropout_p=pd)
                if mask:
                    args["attn_mask"] = P("attn_mask", (S, S))
                out.append(Schema(f"sdpa[lead={len(lead)},causal={causal},mask={mask}]", args))
    # cross-attention / decoding with a KV cache: the query length differs from the key/value length
    Sq, Skv = D("Sq"), D("Skv")
    out.append(Schema("sdpa[cross-attention q_len != kv_len]", dict(query=P("query", (B, H, Sq, Dh)), key=P("key", (B, H, Skv, Dh)), value=P("value", (B, H, Skv, Dh)), is_causal=False, mult=mult, dropout_p=pd)))
    # the value head size may differ from the query / key head size (F.scaled_dot_product_attention allows it):
    # the softmax temperature is mult / (query head size)
    Dv = D("Dv")
    out.append(Schema("sdpa[value head size != query head size]", dict(query=P("query", (B, H, S, Dh)), key=P("key", (B, H, S, Dh)), value=P("value", (B, H, S, Dv)), is_causal=False, mult=mult, dropout_p=pd)))
    # a single position (the first step of incremental decoding), causal and not
    for causal in (True, False):
        out.append(Schema(f"sdpa[sequence of one position,causal={causal}]", dict(query=P("query", (B, H, 1, Dh)), key=P("key", (B, H, 1, Dh)), value=P("value", (B, H, 1, Dh)), is_causal=causal, mult=mult, dropout_p=pd)))
    return out


def cross_entropy_schemas(tier: str) -> List[Schema]:
    N, V = D("N"), D("V")
    mult = hyper("mult")
    out = []
    for rank2 in (True, False):
        for red in ("mean", "sum"):
            ish = (N, V) if rank2 else (V,)
            tsh = (N,) if rank2 else ()
            out.append(Schema(f"cross_entropy[2d={rank2},reduction={red}]", dict(input=P("input", ish), target=P("target", tsh), reduction=red, mult=mult, ignore_index=sp.Symbol("ignore_index", integer=True))))
    # class-probability targets: a float target of the same shape as the logits (F.cross_entropy takes both kinds)
    for rank2 in (True, False):
        ish = (N, V) if rank2 else (V,)
        out.append(Schema(f"cross_entropy[2d={rank2},reduction=mean,class-probability targets]", dict(input=P("input", ish), target=P("target", ish), reduction="mean", mult=mult, ignore_index=sp.Symbol("ignore_index", integer=True))))
    return out


def mse_schemas(tier: str) -> List[Schema]:
    a, b = D("a"), D("b")
    out = []
    for sh in ((a,), (a, b), (d1, a, b)):
        for red in ("mean", "sum"):
            out.append(Schema(f"mse_loss[rank={len(sh)},reduction={red}]", dict(input=P("input", sh), target=P("target", sh), reduction=red)))
    return out


def mse_mismatch_schemas() -> List[Schema]:
    """Shapes F.mse_loss would broadcast (with a warning): U.mse_loss must refuse them, as it documents."""
    a = D("a")
    return [
        Schema("mse_loss[(a,1) predictions vs (a,) targets]", dict(input=P("input", (a, sp.Integer(1))), target=P("target", (a,)), reduction="mean")),
        Schema("mse_loss[(a,) predictions vs (a,1) targets]", dict(input=P("input", (a,)), target=P("target", (a, sp.Integer(1))), reduction="mean")),
    ]


def dropout_schemas(tier: str) -> List[Schema]:
    a, b = D("a"), D("b")
    p = sp.Symbol("p", positive=True)
    return [Schema(f"dropout[training={tr}]", dict(input=P("input", (a, b)), p=p, training=tr)) for tr in (True, False)]


def silu_glu_schemas(tier: str) -> List[Schema]:
    a, b = D("a"), D("b")
    return [
        Schema("silu_glu", dict(input=P("input", (a, b)), gate=P("gate", (a, b)), mult=hyper("mult"))),
        # broadcast operands: one scale is shared by the output and both operand gradients all the same
        Schema("silu_glu[gate broadcast over rows]", dict(input=P("input", (d1, a, b)), gate=P("gate", (b,)), mult=hyper("mult"))),
    ]


def residual_schemas(tier: str) -> Dict[str, List[Schema]]:
    a, b = D("a"), D("b")
    tau = hyper("tau")
    return {
        "residual_split": [Schema("residual_split", dict(input=P("input", (a, b)), tau=tau))],
        "residual_add": [Schema("residual_add", dict(residual=P("residual", (a, b)), skip=P("skip", (a, b)), tau=tau))],
        "residual_apply": [Schema("residual_apply", dict(fn=O("fn"), input=P("input", (a, b)), tau=tau))],
    }


def all_schemas(tier: str, constraint_for_constrained: Any = None) -> Dict[str, List[Schema]]:
    """Schemas for the 19 public functions (constraint=None for ops that take one
    unless told otherwise)."""
    c = constraint_for_constrained
    d: Dict[str, List[Schema]] = {
        "gelu": elementwise_schemas("gelu", tier, c),
        "silu": elementwise_schemas("silu", tier, c),
        "softmax": elementwise_schemas("softmax", tier, c),
        "silu_glu": silu_glu_schemas(tier),
        "dropout": dropout_schemas(tier),
        "matmul": matmul_schemas(tier, c),
        "linear": linear_schemas(tier, c),
        "linear_readout": linear_schemas(tier, c, fn="linear_readout"),
        "conv1d": conv1d_schemas(tier, c),
        "layer_norm": norm_schemas(tier, "layer_norm"),
        "rms_norm": norm_schemas(tier, "rms_norm"),
        "add": add_schemas(tier, c),
        "embedding": embedding_schemas(tier),
        "scaled_dot_product_attention": sdpa_schemas(tier),
        "cross_entropy": cross_entropy_schemas(tier),
        "mse_loss": mse_schemas(tier),
    }
    d.update(residual_schemas(tier))
    return d
