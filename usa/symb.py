"""Forward-value algebra: map a γ-free dataflow term to a sympy expression in which
tensors are symbols, reference ops are uninterpreted functions and scale primitives are
multiplications by their *forward* factor.  Used to decide 'result == scalar x reference'."""
from __future__ import annotations

from typing import Any, Dict, Set, Tuple

import sympy as sp

from .values import T, fmt, num

ALIASES = {
    "torch.sigmoid": "torch.nn.functional.sigmoid",
    "torch.clamp": "torch.clip",
    "torch.Tensor.add": "torch.add",
}

_fn_cache: Dict[str, Any] = {}


def fn(name: str) -> Any:
    if name not in _fn_cache:
        _fn_cache[name] = sp.Function(name)
    return _fn_cache[name]


class Conv:
    def __init__(self, scale_mode: str = "fwd"):
        self.tensor_syms: Set[sp.Symbol] = set()
        self.scale_mode = scale_mode  # "fwd": scale nodes multiply by fwd; "strip": identity
        self.consts: Dict[str, sp.Symbol] = {}

    def const(self, v: Any) -> Any:
        key = f"const:{v!r}"
        if key not in self.consts:
            self.consts[key] = sp.Symbol(key)
        return self.consts[key]

    def conv(self, t: Any) -> Any:
        if isinstance(t, T):
            op, a = t.op, t.args
            if op == "param":
                s = sp.Symbol(f"T:{a[0]}", real=True)
                self.tensor_syms.add(s)
                return s
            if op == "scale":
                inner = self.conv(a[0])
                if self.scale_mode == "fwd":
                    return self.conv(a[1]) * inner
                return inner
            if op in ("mul", "div", "add", "sub", "pow"):
                x, y = self.conv(a[0]), self.conv(a[1])
                return {"mul": lambda: x * y, "div": lambda: x / y, "add": lambda: x + y, "sub": lambda: x - y, "pow": lambda: x**y}[op]()
            if op == "neg":
                return -self.conv(a[0])
            if op == "tensor":
                return self.conv(a[0])
            if op == "call":
                name, bound = a
                name = ALIASES.get(name, name)
                d = dict(bound)
                if name == "torch.nn.functional.silu":
                    x = self.conv(d.get("input"))
                    return x * fn("torch.nn.functional.sigmoid(input)")(x)
                keys = sorted(d, key=str)
                return fn(name + "(" + ",".join(map(str, keys)) + ")")(*[self.conv(d[k]) for k in keys])
            if op == "method":
                name, recv, args, kw = a
                kwd = dict(kw)
                keys = sorted(kwd, key=str)
                return fn(f"m:{name}({len(args)};{','.join(keys)})")(self.conv(recv), *[self.conv(x) for x in args], *[self.conv(kwd[k]) for k in keys])
            if op == "callv":
                f, args, kw = a
                kwd = dict(kw)
                keys = sorted(kwd, key=str)
                return fn(f"callv({len(args)};{','.join(keys)})")(self.conv(f), *[self.conv(x) for x in args], *[self.conv(kwd[k]) for k in keys])
            return fn(f"op:{op}/{len(a)}")(*[self.conv(x) for x in a]) if a else self.const((op,))
        if isinstance(t, tuple):
            return fn(f"tuple/{len(t)}")(*[self.conv(x) for x in t]) if t else self.const(())
        if isinstance(t, bool) or t is None or isinstance(t, str):
            return self.const(t)
        if isinstance(t, (int, float)):
            return sp.sympify(num(t))
        if isinstance(t, sp.Basic):
            return t
        return self.const(fmt(t))

    def data_free(self, e: Any) -> bool:
        """No tensor symbol and no uninterpreted application left in e."""
        e = sp.sympify(e)
        if e.free_symbols & self.tensor_syms:
            return False
        from sympy.core.function import AppliedUndef

        return not e.atoms(AppliedUndef)


def ratio(code_term: Any, ref_term: Any) -> Tuple[Any, Conv]:
    from . import terms as _TM

    c = Conv("fwd")
    x = c.conv(_TM.normalize(code_term))  # (one spelling per value: t.to(dtype=d) == t.to(d), x*1 == x, ...)
    y = c.conv(_TM.normalize(ref_term))
    try:
        r = sp.simplify(x / y)
    except Exception:
        r = x / y
    if not c.data_free(r):
        try:
            r2 = sp.simplify(sp.expand(x) / sp.expand(y))
            if c.data_free(r2):
                r = r2
        except Exception:
            pass
    return r, c
