"""C10 -- optimizer learning rates follow the u-muP rule: case enumeration
(rule x tag x ndim x depth) with symbolic sizes, compared with a frozen factor table."""
from __future__ import annotations

import ast
from typing import Any, Dict, List, Optional, Tuple

import sympy as sp

from .. import terms as TM
from ..absint import Interp, Unsupported
from .common import is_callable_value
from ..core import AnalysisError, Report, Repo
from ..schemas import O, P, dim, hyper
from ..values import BOTTOM, ClassV, FuncV, Gamma, Obj, Shape, T, TV, fmt

OP = "unit_scaling/optim.py"
PA = "unit_scaling/parameter.py"
half = sp.Rational(1, 2)
Dp = sp.Symbol("depth", integer=True, positive=True)


def mup_types(repo: Repo) -> List[str]:
    m = repo.module(PA)
    for st in m.tree.body:
        if isinstance(st, ast.Assign) and any(isinstance(t, ast.Name) and t.id == "MupType" for t in st.targets):
            v = st.value
            if isinstance(v, ast.Subscript):
                sl = v.slice
                elts = sl.elts if isinstance(sl, ast.Tuple) else [sl]
                out = [e.value for e in elts if isinstance(e, ast.Constant) and isinstance(e.value, str)]
                if out:
                    return out
    raise AnalysisError("anchor vanished: parameter.py::MupType literal set")


def mkparam(tag: Optional[str], ndim: int, depth: Any, name: str = "p", tagged: bool = True) -> Obj:
    shape = Shape(tuple(dim(f"{name}_s{i}") for i in range(ndim)))
    attrs: Dict[str, Any] = {"shape": shape, "requires_grad": True}
    if tagged:
        attrs.update(mup_type=tag, mup_scaling_depth=depth)
    return Obj("torch.nn.Parameter", attrs=attrs, term=T("param", (name,)), open_attrs=False)


def fan_in(shape: Shape) -> Any:
    if len(shape) == 1:
        return shape[0]
    if len(shape) == 2:
        return shape[1]
    if len(shape) == 3:
        return shape[1] * shape[2]
    return None


def oracle_factor(rule: str, tag: str, shape: Shape, depth: Any) -> Any:
    """u-muP table (Adam/AdamW and SGD with unconstrained readout share a row)."""
    d = 1 if depth is None else depth ** -half
    if rule in ("adam", "sgd-none"):
        if tag == "weight":
            f = fan_in(shape)
            return None if f is None else d * f ** -half
        return d
    if rule == "sgd-output":
        if tag == "weight":
            f = fan_in(shape)
            return None if f is None else d * f ** half
        if tag in ("bias", "norm"):
            return d * shape[0]
        return d
    raise KeyError(rule)


RULE_LABEL = {"adam": "lr_scale_func_adam", "sgd-none": "lr_scale_func_sgd(None)", "sgd-output": "lr_scale_func_sgd('to_output_scale')"}


def same_rule(it: Interp, f: Any, rname: str, tags: List[str]) -> Optional[bool]:
    """Does the callable f give the factors of the named rule for every tag, rank 1..3 and depth?"""
    if not is_callable_value(it, f):
        return False
    verdict: Optional[bool] = True
    for tag in tags:
        for ndim in (1, 2, 3):
            for depth in (None, Dp):
                p = mkparam(tag, ndim, depth)
                exp = oracle_factor(rname, tag, p.attrs["shape"], depth)
                if exp is None:
                    continue
                try:
                    got = it.call_function(f, [p], {})
                except Unsupported:
                    verdict = None
                    continue
                r = TM.expr_equal(got, exp) if isinstance(got, (int, sp.Basic)) else (False if got is BOTTOM else None)
                if r is False:
                    return False
                if r is None:
                    verdict = None
    return verdict


def check(report: Report, repo: Repo) -> None:
    report.rule_text = (
        "R1: abstractly evaluate lr_scale_func_adam and lr_scale_func_sgd(rc) for every tag of MupType x ndim 1..4 x"
        " depth in {None, symbolic} with symbolic sizes and compare with the u-muP factor table;"
        " R2: every tag returns, weight of ndim>=4 raises ValueError, lr=None raises ValueError, untagged raises"
        " ValueError unless allowed (then lr unscaled); R3: scaled_parameters stores (group lr) x factor (float and"
        " tensor lr alike, group lr overriding the global one); R4: SGD/Adam/AdamW route through scaled_parameters with"
        " the right rule and forward lr/weight_decay/independent_weight_decay/allow_non_unit_scaling_params."
    )
    report.explanation = "case-schema enumeration over (rule, tag, ndim, depth) with symbolic dimension sizes; conditions fold under each case"
    report.assumptions += ["u-muP factor table (paper Table 2) as written in rules/c10.py", "tensor-lr float32 rounding not decided"]
    tags = mup_types(repo)
    report.note("mup_types", tags)
    it = Interp(repo)
    adam = it.get_global(OP, "lr_scale_func_adam")
    sgd_f = it.get_global(OP, "lr_scale_func_sgd")
    rules: Dict[str, Any] = {"adam": adam}
    try:
        r_none = it.call_function(sgd_f, [None], {})
        report.add("R1-factor", f"{OP}::lr_scale_func_sgd[None]", is_callable_value(it, r_none), "SGD with unconstrained readout returns a scaling rule (its factors are compared with the Adam table below)", fmt(r_none), "a callable rule", nontrivial=False)
        rules["sgd-none"] = r_none if is_callable_value(it, r_none) else None
        r_out = it.call_function(sgd_f, ["to_output_scale"], {})
        rules["sgd-output"] = r_out if is_callable_value(it, r_out) else None
        if not is_callable_value(it, r_out):
            report.add("R1-factor", f"{OP}::lr_scale_func_sgd[to_output_scale]", False, "must return a scaling rule (a callable)", fmt(r_out), "callable")
    except Unsupported as e:
        report.add("R1-factor", f"{OP}::lr_scale_func_sgd", None, f"outside fragment: {e}")
    n_cases = 0
    for rname, f in rules.items():
        if f is None:
            continue
        for tag in tags:
            for ndim in (1, 2, 3, 4):
                for depth in (None, Dp):
                    p = mkparam(tag, ndim, depth)
                    it.events = []
                    cons = f"{OP}::{RULE_LABEL[rname]}[{tag},ndim={ndim}]"
                    try:
                        got = it.call_function(f, [p], {})
                    except Unsupported as e:
                        report.add("R1-factor", cons, None, f"outside fragment: {e}")
                        continue
                    n_cases += 1
                    raised = [e["exc"] for e in it.events if e.kind == "raise"]
                    exp = oracle_factor(rname, tag, p.attrs["shape"], depth)
                    dd = "None" if depth is None else "D"
                    if exp is None:
                        ok = got is BOTTOM and raised == ["ValueError"]
                        report.add("R2-errors", cons, ok, f"{rname}: weight with ndim>=4 must raise ValueError (depth={dd})", f"{fmt(got)} raises={raised}", "raise ValueError")
                        continue
                    if got is BOTTOM or raised:
                        report.add("R2-exhaustive", cons, False, f"{rname}: tag '{tag}' (depth={dd}) does not reach a return: raises {raised}", fmt(got), fmt(exp))
                        continue
                    if isinstance(got, Gamma):
                        report.add("R1-factor", cons, None, f"factor depends on an undecided condition: {fmt(got)}")
                        continue
                    report.add("R1-factor", cons, TM.expr_equal(got, exp), f"{rname}: LR factor for tag '{tag}', ndim {ndim}, depth={dd}", fmt(got), fmt(exp))
    report.floor("factor cases", n_cases, 70)

    # ---------------- scaled_parameters: R2 errors / R3 application
    sp_f = it.get_global(OP, "scaled_parameters")
    lr, glr, wd = hyper("lr"), hyper("group_lr"), sp.Symbol("wd", nonnegative=True)
    cons = f"{OP}::scaled_parameters"

    def run(params, **kw):
        it.events = []
        it.data_syms = {}
        try:
            return it.call_function(sp_f, [params], kw), [e for e in it.events if e.kind == "raise"]
        except Unsupported as e:
            return ("unsupported", str(e)), []

    p1, p2, p3 = mkparam("weight", 2, None, "p1"), mkparam("bias", 1, Dp, "p2"), mkparam("weight", 3, Dp, "p3")
    # lr missing
    res, raised = run([p1], lr_scale_func=adam)
    ok = res is BOTTOM and [e["exc"] for e in raised] == ["ValueError"]
    report.add("R2-errors", f"{cons}::lr-missing", ok, "lr=None without a group lr must raise ValueError", fmt(res), "raise ValueError")
    # untagged
    pu = mkparam(None, 2, None, "pu", tagged=False)
    res, raised = run([pu], lr_scale_func=adam, lr=lr)
    ok = res is BOTTOM and [e["exc"] for e in raised] == ["ValueError"]
    report.add("R2-errors", f"{cons}::untagged-rejected", ok, "an untagged parameter must raise ValueError by default", fmt(res), "raise ValueError")
    res, raised = run([pu], lr_scale_func=adam, lr=lr, allow_non_unit_scaling_params=True, independent_weight_decay=False)
    ok = isinstance(res, list) and len(res) == 1 and isinstance(res[0], dict) and TM.expr_equal(res[0].get("lr"), lr) is True and not raised
    report.add("R2-errors", f"{cons}::untagged-allowed", ok, "allowed untagged parameter keeps the group lr unscaled", fmt(res), f"[{{lr: {lr}}}]")
    # a tagged weight of 4 or more dims is an error through scaled_parameters too, whatever the untagged-parameter policy
    for rname in ("adam", "sgd-none", "sgd-output"):
        f = rules.get(rname)
        if f is None:
            continue
        for allow in (False, True):
            p4 = mkparam("weight", 4, None, "p4")
            res, raised = run([p1, p4], lr_scale_func=f, lr=lr, allow_non_unit_scaling_params=allow, independent_weight_decay=False)
            ok = (res is BOTTOM and [e["exc"] for e in raised][-1:] == ["ValueError"]) if not isinstance(res, tuple) else None
            report.add("R2-errors", f"{cons}::weight-ndim4[{rname}]", ok, f"{rname}, allow_non_unit_scaling_params={allow}: a tagged weight with 4 dims must raise ValueError (the allow flag concerns untagged parameters only)", fmt(res)[:200], "raise ValueError")
    # parameters frozen when the optimizer is built are scaled (and checked) like any other: they may be un-frozen later
    for rname in ("adam", "sgd-output"):
        f = rules.get(rname)
        if f is None:
            continue
        pf = mkparam("weight", 2, Dp, "pf")
        pf.attrs["requires_grad"] = False
        res, raised = run([pf], lr_scale_func=f, lr=lr, independent_weight_decay=False)
        if isinstance(res, list) and len(res) == 1 and isinstance(res[0], dict):
            exp = lr * oracle_factor(rname, "weight", pf.attrs["shape"], Dp)
            report.add("R3-application", f"{cons}::lr[frozen]", TM.expr_equal(res[0].get("lr"), exp), f"{rname}: a tagged parameter with requires_grad=False gets lr x factor like a trainable one", fmt(res[0].get("lr")), fmt(exp))
        else:
            report.add("R3-application", f"{cons}::lr[frozen]", None if isinstance(res, tuple) else False, f"{rname}: frozen tagged parameter: expected one group, got {fmt(res)[:200]}")
    puf = mkparam(None, 2, None, "puf", tagged=False)
    puf.attrs["requires_grad"] = False
    res, raised = run([puf], lr_scale_func=adam, lr=lr)
    ok = (res is BOTTOM and [e["exc"] for e in raised] == ["ValueError"]) if not isinstance(res, tuple) else None
    report.add("R2-errors", f"{cons}::untagged-rejected[frozen]", ok, "a frozen untagged parameter is rejected by default like a trainable one", fmt(res)[:200], "raise ValueError")
    # application, float lr: bare iterable and groups with/without own lr
    from ..values import OneShot

    scen = {
        "bare": (lambda: [p1, p2, p3], [lr, lr, lr]),
        "groups": (lambda: [{"params": [p1, p2], "lr": glr}, {"params": [p3]}], [glr, glr, lr]),
        # one-shot iterables (model.parameters() is a generator): every parameter must still be seen once
        "bare generator": (lambda: OneShot([p1, p2, p3]), [lr, lr, lr]),
        "groups holding generators": (lambda: [{"params": OneShot([p1, p2]), "lr": glr}, {"params": OneShot([p3])}], [glr, glr, lr]),
    }
    for sname, (mk_params, lrs) in scen.items():
        for rname in ("adam", "sgd-output"):
            f = rules.get(rname)
            if f is None:
                continue
            res, raised = run(mk_params(), lr_scale_func=f, lr=lr, weight_decay=wd)
            if not isinstance(res, list) or len(res) != 3:
                report.add("R3-application", f"{cons}::lr", None if isinstance(res, tuple) else False, f"{sname}/{rname}: expected 3 groups, got {fmt(res)}")
                continue
            for g, p, base in zip(res, (p1, p2, p3), lrs):
                exp = base * oracle_factor(rname, p.attrs["mup_type"], p.attrs["shape"], p.attrs["mup_scaling_depth"])
                got = g.get("lr") if isinstance(g, dict) else None
                report.add("R3-application", f"{cons}::lr", TM.expr_equal(got, exp) if got is not None else False, f"{sname}/{rname}: stored lr == (group or global lr) x factor for {fmt(p)}", fmt(got), fmt(exp))
    # parameters that agree in tag and shape but not in depth, in one call (a per-call memo keyed too coarsely)
    D2 = sp.Symbol("D2", positive=True, integer=True)
    qa, qb, qc = mkparam("weight", 2, None, "qa"), mkparam("weight", 2, Dp, "qb"), mkparam("weight", 2, D2, "qc")
    for q_ in (qb, qc):
        q_.attrs["shape"] = qa.attrs["shape"]
    for rname in ("adam", "sgd-output"):
        f = rules.get(rname)
        if f is None:
            continue
        res, raised = run([qa, qb, qc], lr_scale_func=f, lr=lr, weight_decay=wd)
        if not isinstance(res, list) or len(res) != 3:
            report.add("R3-application", f"{cons}::lr", None if isinstance(res, tuple) else False, f"same shape, three depths/{rname}: expected 3 groups, got {fmt(res)}")
            continue
        for g, p in zip(res, (qa, qb, qc)):
            exp = lr * oracle_factor(rname, "weight", p.attrs["shape"], p.attrs["mup_scaling_depth"])
            got = g.get("lr") if isinstance(g, dict) else None
            report.add("R3-application", f"{cons}::lr", TM.expr_equal(got, exp) if got is not None else False, f"same tag and shape, different depths/{rname}: each parameter gets the factor of its own depth ({fmt(p.attrs['mup_scaling_depth'])})", fmt(got), fmt(exp))
    # no learning rate anywhere is an error for every kind of parameter (also an allowed untagged one)
    res, raised = run([pu], lr_scale_func=adam, allow_non_unit_scaling_params=True, independent_weight_decay=False)
    ok = res is BOTTOM and [e["exc"] for e in raised] == ["ValueError"]
    report.add("R2-errors", f"{cons}::lr-missing[untagged-allowed]", ok, "lr=None without a group lr must raise ValueError also when the only parameter is an allowed untagged one", fmt(res), "raise ValueError")
    # tensor lr: same multiplication applied to a clone
    tlr = P("lr_tensor", ())
    res, raised = run([p1, p3], lr_scale_func=adam, lr=tlr, weight_decay=wd)
    if isinstance(res, list) and len(res) == 2:
        for g, p in zip(res, (p1, p3)):
            fac = oracle_factor("adam", "weight", p.attrs["shape"], p.attrs["mup_scaling_depth"])
            got = TM.term_of(g.get("lr"))
            ok = isinstance(got, T) and got.op == "mul" and TM.term_equal(got.args[1], fac) is True and isinstance(got.args[0], T) and got.args[0].op == "method" and got.args[0].args[0] == "clone" and got.args[0].args[1] == T("param", ("lr_tensor",))
            report.add("R3-application", f"{cons}::tensor-lr", ok, "tensor lr: stored lr is clone(lr) x factor (same factor as the float path)", fmt(got), f"mul(clone(lr_tensor), {fmt(fac)})")
    else:
        report.add("R3-application", f"{cons}::tensor-lr", None if isinstance(res, tuple) else False, f"tensor lr: expected 2 groups, got {fmt(res)}")

    # ---------------- R4 optimizer classes
    def opq(f):
        return isinstance(f, FuncV) and f.qualname == "scaled_parameters"

    for cname, rule_for in (("SGD", None), ("Adam", "adam"), ("AdamW", "adam")):
        for rc in ((None, "to_output_scale") if cname == "SGD" else (None,)):
            it2 = Interp(repo, opaque=opq)
            cls = it2.get_global(OP, cname)
            init = it2.class_attr(cls, "__init__")
            selfv = Obj(f"unit_scaling.optim.{cname}", cls=cls)
            flags = dict(weight_decay=wd, independent_weight_decay=O("iwd"), allow_non_unit_scaling_params=O("allow"))
            kw = dict(flags)
            if cname == "SGD":
                kw["readout_constraint"] = rc
            cons = f"{OP}::{cname}.__init__"
            try:
                it2.call_function(init, [selfv, O("params"), lr], kw)
            except Unsupported as e:
                report.add("R4-wiring", cons, None, f"outside fragment: {e}")
                continue
            calls = [e for e in it2.events if e.kind == "call" and e["callee"].endswith("scaled_parameters")]
            sup = [e for e in it2.events if e.kind == "super" and e["method"] == "__init__"]
            if len(calls) != 1 or len(sup) != 1:
                report.add("R4-wiring", cons, False, f"expected one scaled_parameters call and one super().__init__, found {len(calls)}/{len(sup)}")
                continue
            b = calls[0]["bound"]
            fobj = b.get("lr_scale_func")
            # which rule reaches scaled_parameters is decided extensionally: its factor for every tag / rank / depth
            if cname == "SGD":
                okf = same_rule(it2, fobj, "sgd-output" if rc == "to_output_scale" else "sgd-none", tags)
                wn = f"lr_scale_func_sgd({rc!r})"
            else:
                okf = same_rule(it2, fobj, "adam", tags)
                wn = "lr_scale_func_adam"
            report.add("R4-wiring", f"{cons}::lr_scale_func", okf, f"{cname}(readout_constraint={rc!r}) must use {wn}", fmt(fobj), wn)
            okp = TM.term_equal(TM.term_of(b.get("params")), T("param", ("params",))) is True
            report.add("R4-wiring", f"{cons}::params", okp, "params forwarded", fmt(b.get("params")), "params", nontrivial=False)
            report.add("R4-wiring", f"{cons}::lr", TM.term_equal(TM.term_of(b.get("lr")), lr) is True, "lr forwarded", fmt(b.get("lr")), "lr")
            for k_, v_ in flags.items():
                report.add("R4-wiring", f"{cons}::{k_}", TM.term_equal(TM.term_of(b.get(k_)), TM.term_of(v_)) is True, f"option '{k_}' forwarded to scaled_parameters", fmt(b.get(k_)), fmt(v_))
            a0 = sup[0]["args"][0] if sup[0]["args"] else None
            report.add("R4-wiring", f"{cons}::super", TM.term_of(a0) == calls[0]["result"], "the scaled groups are what the torch optimizer receives", fmt(a0), fmt(calls[0]["result"]))
