"""Helpers shared by the rule modules."""
from __future__ import annotations

from typing import Any, Dict, List, Optional, Tuple

import sympy as sp

from .. import terms as TM
from ..core import Report
from ..optable import FUNCTIONAL, Case, Summary
from ..values import fmt


def S(x: Any) -> str:
    return fmt(x)


def check_case_scales(
    report: Report,
    rule: str,
    summ: Summary,
    case: Case,
    exp_out_fwd: Any,
    exp_bwd: Dict[str, Any],
    exp_operand_fwd: Optional[Dict[str, Any]] = None,
    tag: str = "",
) -> None:
    """Compare one γ-free case of a summary with the oracle scales.

    exp_bwd maps every tensor parameter that must carry a backward scale to the oracle
    expression; parameters not listed must carry none (== 1)."""
    base = f"{FUNCTIONAL}::{summ.func}"
    sch = summ.schema.name + (f" | {TM.guard_str(case.guard)}" if case.guard else "") + tag
    r = TM.expr_equal(case.out_fwd, exp_out_fwd)
    report.add(rule, f"{base}::scale_fwd(output)", r, f"forward scale under schema {sch}", S(case.out_fwd), S(exp_out_fwd))
    r = TM.expr_equal(case.out_bwd, 1)
    report.add(rule, f"{base}::output-bwd", r, f"no backward scale may sit on the output ({sch})", S(case.out_bwd), "1", nontrivial=False)
    exp_operand_fwd = exp_operand_fwd or {}
    seen = set()
    for p, occ in case.operands.items():
        seen.add(p)
        distinct = []
        for f, b, ops in occ:
            if not any(TM.expr_equal(f, f2) and TM.expr_equal(b, b2) for f2, b2 in distinct):
                distinct.append((f, b))
        if len(distinct) != 1:
            report.add(rule, f"{base}::scale_bwd({p})", False, f"operand reaches the op through {len(distinct)} different scalings ({sch})", S(distinct), "one")
            continue
        f, b = distinct[0]
        eb = exp_bwd.get(p, 1)
        r = TM.expr_equal(b, eb)
        report.add(rule, f"{base}::scale_bwd({p})", r, f"backward scale of operand '{p}' under schema {sch}", S(b), S(eb), nontrivial=p in exp_bwd)
        ef = exp_operand_fwd.get(p, 1)
        r = TM.expr_equal(f, ef)
        report.add(rule, f"{base}::operand-fwd({p})", r, f"forward factor on operand '{p}' ({sch})", S(f), S(ef), nontrivial=False)
    for p in exp_bwd:
        if p not in seen:
            report.add(rule, f"{base}::scale_bwd({p})", False, f"operand '{p}' does not reach the result ({sch})", "absent", S(exp_bwd[p]))


def need_cases(report: Report, rule: str, summ: Summary) -> bool:
    base = f"{FUNCTIONAL}::{summ.func}"
    if summ.error is not None:
        report.add(rule, f"{base}::{summ.schema.name}", None, f"outside the analysable fragment: {summ.error}")
        return False
    if not summ.cases:
        report.add(rule, f"{base}::{summ.schema.name}", False, "the function raises on every path for a valid input schema", fmt(summ.result), "a tensor")
        return False
    return True


def public_functional(f) -> bool:
    """A public function of unit_scaling/functional.py (the unit-scaled ops): the unit at which
    modules delegate.  Private helpers and decorator-made closures there are interpreted."""
    from ..values import FuncV

    return isinstance(f, FuncV) and f.module.name == "unit_scaling.functional" and "." not in f.qualname and not f.qualname.startswith("_")


def is_callable_value(it, v) -> bool:
    """A value the interpreter can call: a function, bound method, partial / builtin closure, or an
    instance of a repository class defining __call__ (the repository is free to choose)."""
    from ..absint import _Builtin
    from ..values import Bound, FuncV

    return isinstance(v, (FuncV, Bound, _Builtin)) or it.dunder(v, "__call__") is not None


GLOBAL_MUTATORS = (
    "set_flush_denormal", "set_default_dtype", "set_default_device", "set_default_tensor_type", "set_float32_matmul_precision",
    "use_deterministic_algorithms", "set_num_threads", "set_num_interop_threads", "manual_seed", "manual_seed_all", "seed",
    "set_rng_state", "set_rng_state_all", "set_detect_anomaly", "set_printoptions", "set_warn_always", "set_autocast_enabled",
    "fork_rng",  # (restores the generator afterwards: everything drawn inside is replayed by the next draw)
)


def global_state_calls(events) -> list:
    """Calls that change a process-wide setting of torch (numerics, RNG, defaults): a library routine that
    runs as part of a forward pass or a graph rewrite must not leave the process in another mode."""
    from ..values import fmt

    out = []
    for e in events:
        name = None
        if e.kind == "call":
            name = str(e["callee"])
        elif e.kind == "callv":
            name = fmt(e["callee"])
        elif e.kind == "setattr" and "torch.backends" in fmt(e["obj"]):
            name = fmt(e["obj"]) + "." + str(e["attr"]) + " = ..."
            out.append(name[:80])
            continue
        if name and name.startswith("torch") and name.split("(")[0].rsplit(".", 1)[-1] in GLOBAL_MUTATORS:
            out.append(name[:80])
    return out
