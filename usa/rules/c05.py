"""C05 -- a constraint collapses forward and constrained backward scales to one value."""
from __future__ import annotations

from typing import Any, Dict, List, Tuple

import sympy as sp

from .. import schemas as SC
from .. import terms as TM
from ..absint import Interp, Unsupported
from ..core import AnalysisError, Report, Repo
from ..optable import FUNCTIONAL, summarise
from ..values import BOTTOM, FuncV, T, fmt, hyper
from .common import need_cases

CO = "unit_scaling/constraints.py"

MEANS = {
    "gmean": lambda s: sp.Mul(*s) ** sp.Rational(1, len(s)),
    "hmean": lambda s: len(s) / sum(1 / x for x in s),
    "amean": lambda s: sum(s) / len(s),
}
SELECT = {"to_output_scale": 0, "to_grad_input_scale": 1, "to_left_grad_scale": 1, "to_right_grad_scale": 2}
ARITY = {"to_grad_input_scale": (2,), "to_left_grad_scale": (3,), "to_right_grad_scale": (3,)}
CONSTRAINTS = list(MEANS) + list(SELECT)


def rule_value(name: str, scales: List[Any]) -> Any:
    if name in MEANS:
        return MEANS[name](scales)
    return scales[SELECT[name]]


# op -> constrained tensor operands, in the order the selectors assume
GROUP = {
    "gelu": ["input"], "silu": ["input"], "softmax": ["input"],
    "matmul": ["left", "right"], "linear": ["input"], "linear_readout": ["input"],
    "conv1d": ["input"], "add": ["input", "other"],
}
UNCONSTRAINED = {"linear": ["weight", "bias"], "linear_readout": ["weight", "bias"], "conv1d": ["weight", "bias"]}
FIXED = {"silu_glu": ["input", "gate"], "scaled_dot_product_attention": ["query", "key", "value"]}


def names_for(op: str) -> List[str]:
    n = len(GROUP[op]) + 1
    return [c for c in CONSTRAINTS if n in ARITY.get(c, (n,))]


def schema_for(op: str, tier: str, constraint: Any) -> List[SC.Schema]:
    if op in ("gelu", "silu", "softmax"):
        return SC.elementwise_schemas(op, "quick", constraint)[:2]
    if op == "matmul":
        ms = SC.matmul_schemas(tier, constraint)
        return ms[1:3] + [s_ for s_ in ms if s_.note == "mixed-rank"]
    if op in ("linear", "linear_readout"):
        return [s for s in SC.linear_schemas(tier, constraint, fn=op) if "lead=2" in s.name]
    if op == "conv1d":
        return SC.conv1d_schemas("quick", constraint)
    if op == "add":
        sch = SC.add_schemas(tier, constraint)
        return sch[:4] + sch[6:]
    raise KeyError(op)


def one_pair(case, p):
    occ = case.operands.get(p)
    if not occ:
        return None
    return occ[0][1]


def check(report: Report, repo: Repo) -> None:
    report.rule_text = (
        "R1: apply_constraint(None|'' , s..) returns s.. unchanged; an unknown name raises ValueError; a rule name"
        " returns one value repeated len(s) times; R2: every module-level name of constraints.py other than the rule"
        " functions must be rejected with ValueError (lookup domain); R3: gmean/hmean/amean == textbook formulas for"
        " arity 1..3 (thorough 1..6), selectors return the designated argument; R4: for every op taking a constraint"
        " and every rule name valid for its arity: scale_fwd(output) == scale_bwd(each constrained operand) =="
        " rule(unconstrained output scale, unconstrained operand grad scales) (the latter extracted under"
        " constraint=None), weight/bias grad scales unchanged; fixed-constraint ops use one value everywhere."
    )
    report.explanation = "symbolic evaluation of constraints.py and of every constrained op of functional.py under each rule name"
    report.assumptions += ["classical inequality min<=H<=G<=A<=max for the textbook mean formulas", "equal forward and backward factor s makes the scaled function s*f with gradient s*f' (paper step)"]

    it = Interp(repo)
    ac = it.get_global(CO, "apply_constraint")
    if not isinstance(ac, FuncV):
        raise AnalysisError("apply_constraint is not a function")
    s = [hyper(f"s{i}") for i in range(1, 7)]
    base = f"{CO}::apply_constraint"

    # ---- R1
    for label, nm in (("None", None), ("''", "")):
        it.events = []
        got = it.call_function(ac, [nm, s[0], s[1], s[2]], {})
        ok = isinstance(got, (tuple, list)) and len(got) == 3 and all(TM.expr_equal(a, b) for a, b in zip(got, s[:3]))
        report.add("R1-contract", f"{base}::identity[{label}]", ok, f"constraint {label} keeps every scale", fmt(got), fmt(tuple(s[:3])))
    it.events = []
    got = it.call_function(ac, ["no_such_constraint_xyz", s[0], s[1]], {})
    raised = [e for e in it.events if e.kind == "raise"]
    ok = got is BOTTOM and len(raised) >= 1 and all(e["exc"] == "ValueError" for e in raised)
    report.add("R1-contract", f"{base}::unknown-name", ok, "an unknown constraint name must raise ValueError", fmt(got) + " / raises " + str([e["exc"] for e in raised]), "raise ValueError")

    # ---- R3 + R1(c)
    max_n = 3 if report.tier == "quick" else 6
    for name in CONSTRAINTS:
        for n in range(1, max_n + 1):
            if name in SELECT and (n < SELECT[name] + 1 or (name in ARITY and n not in ARITY[name])):
                continue
            it.events = []
            try:
                got = it.call_function(ac, [name, *s[:n]], {})
            except Unsupported as e:
                report.add("R3-rules", f"{CO}::{name}", None, f"outside fragment: {e}")
                continue
            exp = rule_value(name, s[:n])
            if not isinstance(got, (tuple, list)) or len(got) != n:
                report.add("R1-contract", f"{base}::uniform-tuple", False, f"'{name}' on {n} scales must return {n} values", fmt(got), f"{n}-tuple")
                continue
            same = all(TM.expr_equal(g, got[0]) for g in got)
            report.add("R1-contract", f"{base}::uniform-tuple", same, f"'{name}' on {n} scales: every returned scale is the same value", fmt(got), "one value repeated", nontrivial=False)
            report.add("R3-rules", f"{CO}::{name}", TM.expr_equal(got[0], exp), f"rule value for arity {n}", fmt(got[0]), fmt(exp))

    # ---- R2 lookup domain
    mi = it.modinfo(CO)
    allowed = set(CONSTRAINTS)
    leaks = []
    n_probe = 0
    for nm in sorted(mi.names()):
        if nm in allowed or (nm.startswith("__") and nm.endswith("__")):
            continue
        n_probe += 1
        it.events = []
        n_gaps = len(it.GAPS)
        try:
            got = it.call_function(ac, [nm, s[0], s[1]], {})
        except Unsupported:
            got = "unsupported"
        del it.GAPS[n_gaps:]  # the probe deliberately calls arbitrary non-rule names: not analysis gaps
        raised = [e["exc"] for e in it.events if e.kind == "raise"]
        bad = not (got is BOTTOM and raised and all(x == "ValueError" for x in raised))
        report.add("R2-lookup-domain", f"{base}::lookup-domain[{nm}]", not bad, f"'{nm}' is bound in constraints.py but is not a constraint rule: apply_constraint('{nm}', ...) must raise ValueError", ("accepted: " + fmt(got)[:80]) if bad else "ValueError", "ValueError", nontrivial=bad)
    # an unknown name is rejected whatever the scales are: also when they coincide, and for a single scale
    for lab_, scs in (("two equal scales", [s[0], s[0]]), ("one scale", [s[0]]), ("three equal scales", [s[0], s[0], s[0]]), ("distinct scales", [s[0], s[1]])):
        it.events = []
        try:
            got = it.call_function(ac, ["no_such_constraint", *scs], {})
        except Unsupported:
            got = "unsupported"
        raised = [e["exc"] for e in it.events if e.kind == "raise"]
        ok_ = got is BOTTOM and raised and all(x == "ValueError" for x in raised)
        report.add("R2-lookup-domain", f"{base}::unknown-name[{lab_}]", bool(ok_) if got != "unsupported" else None, f"apply_constraint('no_such_constraint', {lab_}) must raise ValueError", ("accepted: " + fmt(got)[:80]) if not ok_ else "ValueError", "ValueError")
    report.note("lookup_probe_names", n_probe)
    # also: the rule functions the docs name must exist
    for name in CONSTRAINTS:
        if not isinstance(mi.get(name) if mi.has(name) else None, FuncV):
            report.add("R2-lookup-domain", f"{CO}::{name}", False, "documented constraint rule is missing")

    # ---- R4 group roles in every op
    n_ops = 0
    for op, group in GROUP.items():
        for sch_none in schema_for(op, report.tier, None):
            s0 = summarise(repo, op, sch_none)
            if not need_cases(report, "R4-group", s0):
                continue
            # unconstrained scales, one per γ-case (cases correspond by guard)
            for name in names_for(op):
                sch_c = SC.Schema(sch_none.name + f",constraint={name}", dict(sch_none.args, constraint=name))
                s1 = summarise(repo, op, sch_c)
                if not need_cases(report, "R4-group", s1):
                    continue
                n_ops += 1
                for c1 in s1.cases:
                    c0 = next((c for c in s0.cases if c.guard == c1.guard), s0.cases[0])
                    base_scales = [c0.out_fwd] + [one_pair(c0, p) for p in group]
                    if op in ("matmul", "linear", "linear_readout", "conv1d", "add") and sch_none.note != "mixed-rank":
                        # ideal (unconstrained) scales from the C03 term-count oracle
                        from .c03 import oracle as ideal

                        o_out, o_bwd = ideal(op, sch_none.args)
                        base_scales = [o_out] + [o_bwd[p] for p in group]
                    if any(b is None for b in base_scales):
                        report.add("R4-group", f"{FUNCTIONAL}::{op}", None, "operand missing in unconstrained summary")
                        continue
                    exp = rule_value(name, base_scales)
                    cons = f"{FUNCTIONAL}::{op}"
                    report.add("R4-group", f"{cons}::scale_fwd(output)", TM.expr_equal(c1.out_fwd, exp), f"{sch_c.name}: forward scale == {name}(unconstrained scales)", fmt(c1.out_fwd), fmt(exp))
                    for p in group:
                        got = one_pair(c1, p)
                        report.add("R4-group", f"{cons}::scale_bwd({p})", TM.expr_equal(got, exp) if got is not None else False, f"{sch_c.name}: constrained grad scale of '{p}' == {name}(unconstrained scales)", fmt(got), fmt(exp))
                    for p in group:
                        occ = c1.operands.get(p, [])
                        kinds = [tuple(o for o in ops_ if o.startswith("scale:")) for _f, _b, ops_ in occ]
                        okk = all(ks == ("scale:b",) for ks in kinds) and bool(kinds)
                        report.add("R4-group", f"{cons}::scale_bwd({p})::placement", okk, f"{sch_c.name}: the constrained operand carries exactly one backward-only scale (a forward factor on an operand leaks into the other operand's gradient)", str(kinds), "[('scale:b',)]", nontrivial=False)
                    for p in UNCONSTRAINED.get(op, []):
                        g0, g1 = one_pair(c0, p), one_pair(c1, p)
                        if g0 is None and g1 is None:
                            continue
                        report.add("R4-group", f"{cons}::scale_bwd({p})", TM.expr_equal(g1, g0) if (g0 is not None and g1 is not None) else False, f"{sch_c.name}: weight/bias grad scale is outside the constraint group", fmt(g1), fmt(g0), nontrivial=False)
    for op, group in FIXED.items():
        schs = SC.silu_glu_schemas(report.tier) if op == "silu_glu" else SC.sdpa_schemas("quick")
        for sch in schs:
            sm = summarise(repo, op, sch)
            if not need_cases(report, "R4-fixed", sm):
                continue
            n_ops += 1
            for c in sm.cases:
                for p in group:
                    got = one_pair(c, p)
                    report.add("R4-fixed", f"{FUNCTIONAL}::{op}::scale_bwd({p})", TM.expr_equal(got, c.out_fwd) if got is not None else False, f"{sch.name}: fixed-constraint op uses one value for output and every operand gradient", fmt(got), fmt(c.out_fwd))
    # fixed-constraint residual ops: complementary weights, same tau, same role order (C06's rules)
    from .c06 import check_residual

    check_residual(report, repo)
    report.floor("op x constraint summaries", n_ops, 50)
