"""C11 -- parameter groups preserved; weight decay learning-rate independent."""
from __future__ import annotations

import ast
from typing import Any, Dict, List

import sympy as sp

from .. import terms as TM
from ..absint import Interp, Unsupported
from ..core import AnalysisError, Report, Repo
from ..schemas import O, P, hyper
from ..values import BOTTOM, FuncV, Obj, T, TV, fmt
from .c10 import Dp, mkparam, oracle_factor

OP = "unit_scaling/optim.py"


def snapshot(x: Any) -> Any:
    if isinstance(x, tuple):
        return tuple(snapshot(v) for v in x)
    if isinstance(x, dict):
        return {k: snapshot(v) for k, v in x.items()}
    if isinstance(x, list):
        return [snapshot(v) for v in x]
    return id(x) if isinstance(x, (Obj, TV)) else x


def check(report: Report, repo: Repo) -> None:
    report.rule_text = (
        "Abstractly execute scaled_parameters on schema inputs (bare iterable; groups with/without own lr, weight_decay and"
        " extra keys; tagged and allowed-untagged parameters; float and tensor lr; independent decay on/off; an opaque"
        " lr_scale_func): R1 one output group per input parameter, in input order, params=[that parameter];"
        " R2 every other key of the source group carried over unchanged, nothing else added; R3 the caller's dicts/lists"
        " are unchanged afterwards and no in-place operation touches a value that may alias the caller's lr tensor"
        " (tensor lr is cloned per parameter); R4 with independent decay stored_wd == group_wd / float(stored lr) (the"
        " *scaled* lr, same value object), so lr x wd == requested decay; otherwise wd passes through."
        ""
    )
    report.explanation = "abstract execution over symbolic groups (list lengths 1-3 incl. tuples/one-shot iterables, symbolic contents)"
    report.assumptions += ["one SGD/AdamW step with zero gradient multiplies a parameter by (1 - lr*wd) (PyTorch optimizer semantics)", "list lengths in the schemas are 1-3 (a purely syntactic loop-shape rule was tried and removed: it fired on behaviour-preserving restructurings)"]
    it = Interp(repo)
    f = it.get_global(OP, "scaled_parameters")
    if not isinstance(f, FuncV):
        raise AnalysisError("anchor vanished: optim.py::scaled_parameters")
    lr, glr = hyper("lr"), hyper("group_lr")
    wd, gwd = sp.Symbol("wd", positive=True), sp.Symbol("group_wd", positive=True)
    scale = O("lr_scale_func")
    cons = f"{OP}::scaled_parameters"

    def factor(p: Obj) -> Any:
        return T("callv", (T("param", ("lr_scale_func",)), (TM.term_of(p),), ()))

    def mk():
        p1, p2, p3 = mkparam("weight", 2, None, "p1"), mkparam("bias", 1, Dp, "p2"), mkparam("output", 2, None, "p3")
        pu = mkparam(None, 2, None, "pu", tagged=False)
        return p1, p2, p3, pu

    scenarios = []
    p1, p2, p3, pu = mk()
    scenarios.append(("bare", [p1, p2, p3], dict(lr=lr, weight_decay=wd), [(p1, lr, wd, {}), (p2, lr, wd, {}), (p3, lr, wd, {})]))
    p1, p2, p3, pu = mk()
    g1 = {"params": [p1, p2], "lr": glr, "betas": O("betas"), "eps": O("eps")}
    g2 = {"params": [p3], "weight_decay": gwd, "momentum": O("momentum")}
    scenarios.append(("groups", [g1, g2], dict(lr=lr, weight_decay=wd), [(p1, glr, wd, {"betas": g1["betas"], "eps": g1["eps"]}), (p2, glr, wd, {"betas": g1["betas"], "eps": g1["eps"]}), (p3, lr, gwd, {"momentum": g2["momentum"]})]))
    p1, p2, p3, pu = mk()
    # groups that went through a scheduler before (resuming): its bookkeeping keys are options like any other
    gs_ = {"params": [p1, p3], "lr": glr, "initial_lr": O("initial_lr"), "max_lr": O("max_lr"), "min_lr": O("min_lr"), "base_momentum": O("base_momentum"), "capturable": False}
    exs_ = {k_: gs_[k_] for k_ in gs_ if k_ not in ("params", "lr")}
    scenarios.append(("group carrying scheduler bookkeeping (initial_lr, max_lr, min_lr, ...)", [gs_, {"params": [p2], "initial_lr": O("initial_lr2")}], dict(lr=lr, weight_decay=wd), [(p1, glr, wd, exs_), (p3, glr, wd, exs_), (p2, lr, wd, {"initial_lr": None})]))
    p1, p2, p3, pu = mk()
    scenarios.append(("untagged-allowed", [p1, pu, p3], dict(lr=lr, weight_decay=wd, allow_non_unit_scaling_params=True), [(p1, lr, wd, {}), (pu, lr, wd, {}), (p3, lr, wd, {})]))
    p1, p2, p3, pu = mk()
    scenarios.append(("group-lr-only", [{"params": [p2]}, {"params": [p1], "lr": glr, "weight_decay": gwd}], dict(lr=lr), [(p2, lr, 0, {}), (p1, glr, gwd, {})]))

    p1, p2, p3, pu = mk()
    # an explicit zero decay in a group ("no decay for biases") must override a non-zero global decay
    scenarios.append(("explicit-zero-decay-group", [{"params": [p2], "weight_decay": 0}, {"params": [p1]}], dict(lr=lr, weight_decay=wd), [(p2, lr, 0, {}), (p1, lr, wd, {})]))
    p1, p2, p3, pu = mk()
    zlr = sp.Integer(0)
    scenarios.append(("generator-like tuple of groups", ({"params": [p1], "nesterov": O("nesterov")}, {"params": [p3, p2], "lr": glr}), dict(lr=lr, weight_decay=wd), [(p1, lr, wd, {"nesterov": None}), (p3, glr, wd, {}), (p2, glr, wd, {})]))

    from ..values import OneShot

    p1, p2, p3, pu = mk()
    # torch-docs idiom {"params": model.base.parameters()}: the group's params is a one-shot iterator
    scenarios.append(("group whose params is a generator", [{"params": OneShot([p1, p2]), "lr": glr}, {"params": OneShot([p3])}], dict(lr=lr, weight_decay=wd), [(p1, glr, wd, {}), (p2, glr, wd, {}), (p3, lr, wd, {})]))
    p1, p2, p3, pu = mk()
    scenarios.append(("bare generator of parameters", OneShot([p1, p2, p3]), dict(lr=lr, weight_decay=wd), [(p1, lr, wd, {}), (p2, lr, wd, {}), (p3, lr, wd, {})]))
    p1, p2, p3, pu = mk()
    pu.attrs["requires_grad"] = False  # frozen when the optimizer is built (may be un-frozen later)
    p2.attrs["requires_grad"] = False
    scenarios.append(("frozen parameters (tagged and allowed-untagged)", [p1, pu, p2], dict(lr=lr, weight_decay=wd, allow_non_unit_scaling_params=True), [(p1, lr, wd, {}), (pu, lr, wd, {}), (p2, lr, wd, {})]))

    p1, p2, p3, pu = mk()
    # a one-shot iterable of groups that all bring their own lr, and no global lr
    scenarios.append(("generator of groups, every group with its own lr, no global lr", OneShot([{"params": [p1], "lr": glr}, {"params": [p2, p3], "lr": glr, "weight_decay": gwd}]), dict(weight_decay=wd), [(p1, glr, wd, {}), (p2, glr, gwd, {}), (p3, glr, gwd, {})]))
    p1, p2, p3, pu = mk()
    # inside one group an allowed untagged parameter precedes tagged ones: the input order is kept
    scenarios.append(("one group mixing untagged and tagged parameters", [{"params": [pu, p1, p3], "lr": glr}, {"params": [p2]}], dict(lr=lr, weight_decay=wd, allow_non_unit_scaling_params=True), [(pu, glr, wd, {}), (p1, glr, wd, {}), (p3, glr, wd, {}), (p2, lr, wd, {})]))
    p1, p2, p3, pu = mk()
    # concrete option values, the falsy ones included (eps=0, amsgrad=False, momentum=0 are legitimate settings)
    gx = {"params": [p1, p3], "eps": sp.Integer(0), "amsgrad": False, "betas": (sp.Rational(9, 10), sp.Rational(999, 1000)), "momentum": sp.Integer(0), "foreach": None, "fused": True}
    ex = {k_: gx[k_] for k_ in gx if k_ != "params"}
    scenarios.append(("concrete options incl. falsy values", [gx, {"params": [p2]}], dict(lr=lr, weight_decay=wd), [(p1, lr, wd, ex), (p3, lr, wd, ex), (p2, lr, wd, {})]))

    n_groups = 0
    for sname, params, kw, expect in scenarios:
        for indep in (True, False):
            if isinstance(params, OneShot):
                params = OneShot(tuple(params))  # a fresh generator for each run
            for e_ in (params if isinstance(params, (list, tuple)) else []):
                if isinstance(e_, dict) and isinstance(e_.get("params"), OneShot):
                    e_["params"] = OneShot(tuple(e_["params"]))
            before = snapshot(params)
            it.events = []
            it.data_syms = {}
            try:
                res = it.call_function(f, [params, scale], dict(kw, independent_weight_decay=indep))
            except Unsupported as ex:
                report.add("R1-groups", cons, None, f"{sname}: outside fragment: {ex}")
                continue
            lab = f"{sname}/independent={indep}"
            report.add("R3-no-mutation", f"{cons}::caller-groups", snapshot(params) == before, f"{lab}: the caller's group dicts and lists must be unchanged after the call", "changed" if snapshot(params) != before else "unchanged", "unchanged")
            if not isinstance(res, list):
                report.add("R1-groups", f"{cons}::result", False, f"{lab}: must return the list of groups", fmt(res), "list")
                continue
            report.add("R1-groups", f"{cons}::count", len(res) == len(expect), f"{lab}: one output group per input parameter", len(res), len(expect))
            for i, (g, (p, base_lr, base_wd, extra)) in enumerate(zip(res, expect)):
                n_groups += 1
                if not isinstance(g, dict):
                    report.add("R1-groups", f"{cons}::group", False, f"{lab}: group {i} is not a dict", fmt(g), "dict")
                    continue
                okp = isinstance(g.get("params"), list) and len(g["params"]) == 1 and g["params"][0] is p
                report.add("R1-groups", f"{cons}::order", okp, f"{lab}: group {i} must hold exactly input parameter #{i} ({fmt(p)})", fmt(g.get("params")), fmt([p]))
                keys = set(g) - {"params", "lr", "weight_decay"}
                src_group = next((e_ for e_ in params if isinstance(e_, dict) and any(q is p for q in tuple(e_.get("params", [])))), {})
                okk = keys == set(extra) and all((g[k] is extra[k]) or (extra[k] is None and g[k] is src_group.get(k)) for k in extra) and {"lr", "weight_decay"} <= set(g)
                report.add("R2-keys", f"{cons}::extra-keys", okk, f"{lab}: group {i} carries over exactly the other options of its source group", sorted(map(str, set(g))), sorted(["params", "lr", "weight_decay", *extra]))
                tagged = "mup_type" in p.attrs
                exp_lr = TM._mul(base_lr, factor(p)) if tagged else base_lr
                got_lr = TM.term_of(g.get("lr"))
                okl = TM.term_equal(got_lr, exp_lr) is True
                report.add("R4-decay", f"{cons}::lr", okl, f"{lab}: stored lr == source lr x lr_scale_func(param) (unscaled for an allowed untagged parameter)", fmt(got_lr), fmt(exp_lr), nontrivial=False)
                got_wd = TM.term_of(g.get("weight_decay"))
                if indep:
                    ok = None
                    w = g.get("weight_decay")
                    if TM.expr_equal(base_wd, 0) is True:
                        ok = isinstance(w, (int, sp.Basic)) and TM.expr_equal(w, 0) is True
                    elif isinstance(got_lr, T):
                        if isinstance(w, sp.Basic):
                            ds = [s_ for s_ in w.free_symbols if s_ in it.data_syms]
                            ok = len(ds) == 1 and it.data_syms[ds[0]][1].term == got_lr and TM.expr_equal(w * ds[0], base_wd) is True
                        elif isinstance(got_wd, T) and got_wd.op == "div":
                            ok = TM.term_equal(got_wd.args[0], base_wd) is True and got_wd.args[1] in (got_lr, T("float", (got_lr,)))
                        else:
                            ok = False
                    else:
                        ok = TM.expr_equal(got_wd, sp.sympify(base_wd) / got_lr) if isinstance(w, (sp.Basic, int)) else False
                    report.add("R4-decay", f"{cons}::independent-decay", ok, f"{lab}: stored weight_decay == source weight_decay / float(stored, scaled lr) so that lr x weight_decay == requested decay", fmt(got_wd), f"{fmt(base_wd)} / float({fmt(got_lr)})")
                else:
                    report.add("R4-decay", f"{cons}::plain-decay", TM.term_equal(got_wd, base_wd) is True, f"{lab}: with independent_weight_decay=False the decay passes through unchanged", fmt(got_wd), fmt(base_wd))
    report.floor("output groups checked", n_groups, 20)

    # ---- tensor learning rate: cloned per parameter, never modified in place
    p1, p2, p3, pu = mk()
    tl = P("lr_tensor", ())
    it.events = []
    it.data_syms = {}
    adam = it.get_global(OP, "lr_scale_func_adam")
    try:
        res = it.call_function(f, [[p1, p2], adam], dict(lr=tl, weight_decay=wd))
        bad = [e for e in it.events if e.kind == "inplace" and e.get("alias")]
        report.add("R3-no-mutation", f"{cons}::tensor-lr", not bad, "no in-place operation on a value that may alias the caller's lr tensor (clone before *=)" + ("; offending " + ", ".join(f"{e['op']} at {e.where}" for e in bad) if bad else ""), [e["op"] for e in bad], "none")
        if isinstance(res, list) and len(res) == 2:
            t0, t1 = TM.term_of(res[0].get("lr")), TM.term_of(res[1].get("lr"))
            cl = T("method", ("clone", tl.term, (), ()))
            oka = all(isinstance(t, T) and t.op == "mul" and t.args[0] == cl for t in (t0, t1)) and res[0]["lr"] is not res[1]["lr"]
            report.add("R3-no-mutation", f"{cons}::tensor-lr-alias", oka, "each scaled group gets its own clone of the shared lr tensor", fmt((t0, t1)), "clone(lr) * factor, per parameter")
            for g in res:
                w = g.get("weight_decay")
                src = None
                if isinstance(w, sp.Basic):
                    ds = [s for s in w.free_symbols if s in it.data_syms]
                    src = it.data_syms[ds[0]][1] if len(ds) == 1 else None
                okw = src is not None and src.term == TM.term_of(g.get("lr")) and TM.expr_equal(w * ds[0], wd) is True
                report.add("R4-decay", f"{cons}::independent-decay[tensor-lr]", okw, "tensor lr: decay divided by float(<the scaled lr tensor stored in the group>)", fmt(w), "wd / float(stored lr)")
    except Unsupported as ex:
        report.add("R3-no-mutation", f"{cons}::tensor-lr", None, f"outside fragment: {ex}")
    # ---- tensor learning rate with an allowed untagged parameter: its group must not hold the caller's tensor
    # either (a scheduler updates group["lr"] in place)
    p1, p2, p3, pu = mk()
    tl2 = P("lr_tensor", ())
    it.events = []
    it.data_syms = {}
    try:
        res = it.call_function(f, [[p1, pu], adam], dict(lr=tl2, weight_decay=wd, allow_non_unit_scaling_params=True))
        if isinstance(res, list) and len(res) == 2 and all(isinstance(g, dict) for g in res):
            lrs = [g.get("lr") for g in res]
            shared = [i for i, v in enumerate(lrs) if v is tl2 or (isinstance(v, TV) and TM.term_of(v) == tl2.term)]
            report.add("R3-no-mutation", f"{cons}::tensor-lr-alias[untagged]", not shared and lrs[0] is not lrs[1], "tagged + allowed-untagged parameter, tensor lr: no output group holds the caller's lr tensor itself (each gets its own clone)", [fmt(TM.term_of(v)) for v in lrs], "clones of lr_tensor")
        else:
            report.add("R3-no-mutation", f"{cons}::tensor-lr-alias[untagged]", None if not isinstance(res, list) else False, f"expected 2 groups, got {fmt(res)[:200]}")
    except Unsupported as ex:
        report.add("R3-no-mutation", f"{cons}::tensor-lr-alias[untagged]", None, f"outside fragment: {ex}")


    # ---- R5: the same through the three optimizer classes (what a user actually constructs): the groups the torch
    # optimizer receives carry lr x weight_decay == requested decay by default and with independent_weight_decay=True,
    # and the plain decay with independent_weight_decay=False
    n_opt = 0
    for cname in ("SGD", "Adam", "AdamW"):
        for mode in ("default", True, False):
            it3 = Interp(repo)
            cls = it3.get_global(OP, cname)
            init = it3.class_attr(cls, "__init__") if cls is not None else None
            ocons = f"{OP}::{cname}.__init__"
            if init is None:
                raise AnalysisError(f"anchor vanished: optim.py::{cname}.__init__")
            p1, p2, p3, pu = mk()
            selfv = Obj(f"unit_scaling.optim.{cname}", cls=cls)
            kw = dict(weight_decay=wd)
            if mode != "default":
                kw["independent_weight_decay"] = mode
            lab = f"{cname}(params, lr, weight_decay=wd" + ("" if mode == "default" else f", independent_weight_decay={mode}") + ")"
            try:
                it3.call_function(init, [selfv, [p1, p3], lr], kw)
            except Unsupported as ex:
                report.add("R5-optimizers", ocons, None, f"{lab}: outside fragment: {ex}")
                continue
            sup = [e for e in it3.events if e.kind == "super" and e["method"] == "__init__"]
            groups = sup[0]["args"][0] if len(sup) == 1 and sup[0]["args"] else None
            if not (isinstance(groups, list) and len(groups) == 2 and all(isinstance(g, dict) for g in groups)):
                report.add("R5-optimizers", ocons, None if groups is None or not isinstance(groups, list) else False, f"{lab}: the torch optimizer must receive one group per parameter", fmt(groups), "2 groups")
                continue
            for g in groups:
                n_opt += 1
                glr_, gwd_ = g.get("lr"), g.get("weight_decay")
                if not all(isinstance(v_, (int, float, sp.Basic)) for v_ in (glr_, gwd_)):
                    report.add("R5-optimizers", f"{ocons}::decay", None, f"{lab}: group lr / weight_decay not closed-form", fmt((glr_, gwd_)))
                    continue
                if mode is False:
                    ok = TM.expr_equal(gwd_, wd)
                    want = "weight_decay == wd"
                else:
                    ok = TM.expr_equal(sp.sympify(glr_) * sp.sympify(gwd_), wd)
                    want = "lr x weight_decay == wd"
                report.add("R5-optimizers", f"{ocons}::decay", ok, f"{lab}: {want} in every group handed to torch.optim.{cname}", f"lr={fmt(glr_)}, weight_decay={fmt(gwd_)}", want)
    report.floor("optimizer-class groups checked", n_opt, 18)
