"""C14 -- stochastic rounding, structural clauses: one independent draw per element in
[0, 2^srbits), placed at the top of the discarded bits, half-step bias term iff fewer
random bits than discarded bits; default srbits = all discarded bits."""
from __future__ import annotations

import sympy as sp

from .. import terms as TM
from ..absint import Interp, Unsupported
from ..core import AnalysisError, Report, Repo
from ..values import BOTTOM, ClassV, Obj, T, TV, fmt
from .c13 import common_pipeline_checks
from .fmtcommon import E, FM, M, SR, canon, mkformat, ref_term, run_quantise


def check(report: Report, repo: Repo) -> None:
    report.rule_text = (
        "Abstractly evaluate FPFormat.quantise(x) with rounding='stochastic' and symbolic E, M, srbits:"
        " R1 exactly one torch.randint call, low=0, high=2^srbits, size = x.shape (one draw per element), dtype int32,"
        " device x.device; R2 the returned term equals the reference pipeline whose offset is"
        " (randint << (23-M-srbits)) [+ 1 << (23-M-srbits-1) iff 23-M-srbits > 0] under both arms of that condition;"
        " R3 dtype typestate / no argument mutation as in C13; R4 __post_init__ sets srbits = 23-M when constructed with 0"
        " and stochastic rounding, keeps an explicit srbits, and rejects non-zero srbits with nearest rounding."
        " The probabilities themselves are NOT decided (would need enumerating draws)."
    )
    report.explanation = "term-level comparison of the stochastic offset construction with the reference scheme, symbolic srbits"
    report.assumptions += [
        "adding U{0..2^s-1} * 2^(k-s) + [k>s] 2^(k-s-1) to the low k bits then truncating rounds away with probability (low bits + half step)/2^k to s bits (paper step)",
        "torch.randint draws independently per element of `size`",
    ]
    cons = f"{FM}::FPFormat.quantise"
    TM.FINITE_DOMAINS.update({E: range(2, 9), M: range(0, 11), SR: range(1, 24)})
    from ..schemas import dim

    XS = (dim("n0"), dim("n1"))  # a rank-2 argument with symbolic sizes (strides symbolic)
    res, events, it, err = run_quantise(repo, "stochastic", SR, shape=XS)
    if err:
        report.add("R2-offset", cons, None, f"outside fragment: {err}")
    else:
        label = "stochastic, symbolic srbits"
        common_pipeline_checks(report, events, it, cons, label)
        rcalls = [e for e in events if e.kind == "call" and e["callee"] == "torch.randint"]
        report.add("R1-draws", f"{cons}::randint", len(rcalls) == 1, "exactly one random-integer draw call", len(rcalls), 1)
        for e in rcalls:
            b = e["bound"] or {}
            kw = e["kwargs"]
            report.add("R1-draws", f"{cons}::randint.low", TM.expr_equal(b.get("low"), 0), "low == 0", fmt(b.get("low")), "0")
            report.add("R1-draws", f"{cons}::randint.high", TM.expr_equal(b.get("high"), 2**SR), "high == 2^srbits (exclusive)", fmt(b.get("high")), fmt(2**SR))
            sz = TM.term_of(b.get("size"))
            report.add("R1-draws", f"{cons}::randint.size", sz == tuple(XS) or sz == T("attr", (T("param", ("x",)), "shape")), "size == x.shape: one independent draw per element", fmt(sz), "x.shape")
            dt = TM.term_of(kw.get("dtype"))
            report.add("R1-draws", f"{cons}::randint.dtype", dt == T("ext", ("torch.int32",)), "dtype int32 (added to the int32 bit pattern)", fmt(dt), "torch.int32", nontrivial=False)
            dv = TM.term_of(kw.get("device"))
            report.add("R1-draws", f"{cons}::randint.device", dv == T("attr", (T("param", ("x",)), "device")), "drawn on x.device", fmt(dv), "x.device", nontrivial=False)
        # the draw comes from the ambient random stream and leaves it advanced: nothing in quantise seeds, forks,
        # saves or restores generator state (that would repeat the same draw on every call)
        RNG_STATE = ("manual_seed", "seed", "fork_rng", "set_rng_state", "get_rng_state", "initial_seed", "Generator", "manual_seed_all", "set_rng_state_all")
        touching = []
        for e in events:
            name_ = None
            if e.kind == "call":
                name_ = str(e["callee"])
            elif e.kind == "with":
                name_ = fmt(e["ctx"])
            elif e.kind == "callv":
                name_ = fmt(e["callee"])
            if name_ and "torch" in name_ and any(name_.split("(")[0].rstrip(")").endswith(x_) or ("." + x_ + "(") in name_ or name_.endswith("." + x_) for x_ in RNG_STATE):
                touching.append(name_[:60])
        gen_kw = [fmt(e["kwargs"].get("generator")) for e in rcalls if e["kwargs"].get("generator") is not None]
        from .common import global_state_calls

        touching += [x_ for x_ in global_state_calls(events) if x_ not in touching]
        report.add("R1-draws", f"{cons}::rng-state", not touching and not gen_kw, "quantise only draws: it does not seed, fork, save or restore random-generator state and uses the ambient generator (successive calls must see fresh draws)", touching + gen_kw, [], nontrivial=False)
        got_i = TM.instances(canon(TM.normalize(TM.term_of(res))))
        exp_i = TM.instances(canon(TM.normalize(TM.term_of(ref_term(it, "stochastic", SR, 0, shape=XS)))))
        if len(got_i) != len(exp_i):
            report.add("R2-offset", f"{cons}::return", False, f"expected {len(exp_i)} guarded cases (bias term iff srbitsbar>0), found {len(got_i)}", [TM.guard_str(g) for g, _ in got_i], [TM.guard_str(g) for g, _ in exp_i])
        else:
            for (g1, t1) in got_i:
                match = [t2 for g2, t2 in exp_i if TM.guard_str(g2) == TM.guard_str(g1) or TM.guards_equivalent(g1, g2) is True]
                if not match:
                    report.add("R2-offset", f"{cons}::return", False, f"no reference case under guard {TM.guard_str(g1)}", TM.guard_str(g1), [TM.guard_str(g) for g, _ in exp_i])
                    continue
                r = TM.term_equal(t1, match[0])
                report.add("R2-offset", f"{cons}::return", r, f"stochastic pipeline under [{TM.guard_str(g1)}]: " + (TM.first_diff(t1, match[0]) if r is not True else "equal to reference"), fmt(t1), fmt(match[0]))
    # R4 post-init
    it = Interp(repo)
    cls = it.get_global(FM, "FPFormat")
    cpi = f"{FM}::FPFormat.__post_init__"
    try:
        it.events = []
        o = it.call_function(cls, [E, M], {})
        eff = [e for e in it.events if e.kind == "assert-side-effect"]
        report.add("R4-default-srbits", f"{cpi}::assert-free", not eff, "the default number of random bits is not set from inside the condition of an `assert` (under `python -O` the statement vanishes and srbits stays 0: rounding becomes deterministic)", [f"{e['effects']} at {e.where}" for e in eff], [], nontrivial=False)
        report.add("R4-default-srbits", f"{cpi}::default", isinstance(o, Obj) and TM.expr_equal(o.attrs.get("srbits"), 23 - M) is True and o.attrs.get("rounding") == "stochastic", "FPFormat(E, M): stochastic rounding using all 23-M discarded bits", fmt(getattr(o, "attrs", None)), "srbits = 23 - M")
        o = it.call_function(cls, [E, M, "stochastic", SR], {})
        report.add("R4-default-srbits", f"{cpi}::explicit", isinstance(o, Obj) and TM.expr_equal(o.attrs.get("srbits"), SR) is True, "an explicit srbits is kept", fmt(getattr(o, "attrs", None)), "srbits = srbits")
        o = it.call_function(cls, [E, M, "nearest"], {})
        report.add("R4-default-srbits", f"{cpi}::nearest", isinstance(o, Obj) and TM.expr_equal(o.attrs.get("srbits"), 0) is True, "nearest rounding keeps srbits = 0", fmt(getattr(o, "attrs", None)), "srbits = 0", nontrivial=False)
        it.events = []
        it.call_function(cls, [E, M, "nearest", SR], {})
        raised = [e["exc"] for e in it.events if e.kind == "raise"]
        report.add("R4-default-srbits", f"{cpi}::nearest+srbits", raised == ["AssertionError"], "non-zero srbits with nearest rounding is rejected", raised, ["AssertionError"])
    except Unsupported as ex:
        report.add("R4-default-srbits", cpi, None, f"outside fragment: {ex}")
    # the random-bit count in effect is the one of the format object the caller used (no cross-call
    # caching of the straight-through quantiser keyed by the printed name, which omits srbits)
    from .c15 import check_backend_process_state

    check_backend_process_state(report, repo, "R1-draws")
    from .c15 import check_per_format

    check_per_format(report, repo, "R5-per-format")
    report.floor("obligations", len(report.obls), 12)
