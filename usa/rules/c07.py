"""C07 -- transformer residual rule: tau(index, layers) equals the unique closed form
that balances contributions, for symbolic depth (both parities); the stack wires
(2i, 2i+1, 2*layers) in order and the layer pairs each tau with its branch."""
from __future__ import annotations

import sympy as sp

from .. import terms as TM
from ..absint import Interp, Unsupported
from .common import is_callable_value, public_functional
from ..core import AnalysisError, Report, Repo
from ..oracle import oracle_function, std_globals
from ..schemas import O, P, dim, hyper
from ..values import BOTTOM as BOTTOM_, ClassV, FuncV, Obj, T, TV, fmt

CF = "unit_scaling/core/functional.py"
MD = "unit_scaling/_modules.py"

k = sp.Symbol("k", integer=True, nonnegative=True)
L = sp.Symbol("L", integer=True, positive=True)
m, r = hyper("m"), hyper("r")


# oracle: a_mlp, a_attn and the running sum S(i) (embedding weight L/2 + earlier branches)
A_MLP = m * sp.sqrt(2 / (1 + r**2))
A_ATTN = r * A_MLP


def S_or(n_attn, n_mlp):
    return L / 2 + n_attn * A_ATTN**2 + n_mlp * A_MLP**2


ORACLE = {
    "even": A_ATTN / sp.sqrt(S_or(k, k)),  # index 2k: attention branch, k attn + k mlp before it
    "odd": A_MLP / sp.sqrt(S_or(k + 1, k)),  # index 2k+1: MLP branch
}

REF_LAYER_FORWARD = '''
def ref_forward(self, input):
    r, s = U.residual_split(input, tau=self.mhsa_tau)
    r = self.mhsa_norm(r)
    r = self.mhsa(r)
    r = U.dropout(r, self.dropout_p, self.training)
    x = U.residual_add(r, s, tau=self.mhsa_tau)
    r, s = U.residual_split(x, tau=self.mlp_tau)
    r = self.mlp_norm(r)
    r = self.mlp(r)
    r = U.dropout(r, self.dropout_p, self.training)
    return U.residual_add(r, s, tau=self.mlp_tau)
'''


def option_domain(init: FuncV, name: str) -> list:
    """A small set of values for a constructor option the scenarios do not know: taken from its annotation
    and default (ints 0..3, both booleans, None for Optional); only the default when nothing better is known."""
    import ast as _ast

    a = init.node.args
    allp = a.posonlyargs + a.args + a.kwonlyargs
    defaults = dict(zip([q.arg for q in (a.posonlyargs + a.args)][len(a.posonlyargs + a.args) - len(a.defaults):], a.defaults))
    defaults.update({q.arg: d for q, d in zip(a.kwonlyargs, a.kw_defaults) if d is not None})
    par = next((q for q in allp if q.arg == name), None)
    ann = _ast.unparse(par.annotation) if par is not None and par.annotation is not None else ""
    dnode = defaults.get(name)
    dval = "<none>"
    if isinstance(dnode, _ast.Constant):
        dval = dnode.value
    out: list = []
    if "bool" in ann or isinstance(dval, bool):
        out += [False, True]
    elif "int" in ann or (isinstance(dval, int) and not isinstance(dval, bool)):
        out += [0, 1, 2, 3]
    if "Optional" in ann or "None" in ann or dval is None:
        out.append(None)
    if dval != "<none>" and dval not in out:
        out.append(dval)
    return out


def check_stack_execution(report: Report, repo: Repo, extra_options: list) -> None:
    """R6: the stack runs every one of its layers exactly once, in order, each on the previous result.
    nn.Sequential.forward does so (torch semantics); a forward / __call__ defined by the repository's
    classes is executed abstractly for small depths, over small domains of the options the other
    scenarios do not cover, in training and evaluation mode, with autograd enabled and disabled."""
    import itertools

    from ..nnmodel import container_super_hook

    def opaque(f):
        return isinstance(f, ClassV) and f.qualname in ("TransformerLayer",) or public_functional(f)

    it = Interp(repo, opaque=opaque)
    it.super_hook = container_super_hook("Sequential")
    stack = it.get_global(MD, "TransformerStack")
    cons = f"{MD}::TransformerStack.forward"
    entry = it.class_attr(stack, "__call__") or it.class_attr(stack, "forward")
    if not isinstance(entry, FuncV):
        report.add("R6-execution", cons, True, "no class of the repository in the stack's chain defines forward/__call__: nn.Sequential.forward applies the layers in order", "nn.Sequential.forward", "nn.Sequential.forward", nontrivial=False)
        return
    init = it.class_attr(stack, "__init__")
    doms = [option_domain(init, o_) or [None] for o_ in extra_options]
    combos = list(itertools.product(*doms))[:64]
    x = P("x", (dim("B"), dim("S"), dim("H")))
    n_run = 0
    for n in (1, 2, 3, 4, 5, 8, 13):
        for combo in combos:
            for training, grad in ((True, True), (True, False), (False, True), (False, False)):
                opts = dict(zip(extra_options, combo))
                lab = f"layers={n}, {opts}, training={training}, grad_enabled={grad}"
                selfv = Obj("unit_scaling._modules.TransformerStack", cls=stack)
                it.ext_results = {"torch.is_grad_enabled": grad}
                try:
                    made = it.call_function(init, [selfv], dict(layers=n, residual_scaling=O("residual_scaling"), hidden_size=dim("H"), heads=dim("h"), is_causal=True, **opts))
                    if made is BOTTOM_:
                        continue  # this combination of options is rejected at construction
                    selfv.attrs["training"] = training
                    mods = list(selfv.attrs.get("_modules", {}).values())
                    it.events = []
                    got = it.call_function(entry, [selfv, x], {})
                    want = x
                    for m_ in mods:
                        want = it.call_function(m_, [want], {})
                except Unsupported as e:
                    report.add("R6-execution", cons, None, f"{lab}: outside the analysable fragment: {e}")
                    continue
                n_run += 1
                if got is BOTTOM_:
                    continue  # raises for this combination: no result to compare
                wt = TM.term_of(want)
                for guard, leaf in TM.leaves(got):
                    ok = TM.term_equal(TM.term_of(leaf), wt)
                    report.add("R6-execution", f"{cons}::order", ok, f"{lab} [{TM.guard_str(guard)}]: the result is layer[{n - 1}](...layer[0](input)): every layer applied exactly once, in order", fmt(TM.term_of(leaf))[:600], fmt(wt)[:600], nontrivial=False)
    report.note("stack_executions", n_run)


def check_layer_forward(report: Report, repo: Repo, rule: str) -> None:
    """TransformerLayer.forward == the pre-norm residual recipe (term equality)."""
    it4 = Interp(repo, opaque=public_functional)
    layer = it4.get_global(MD, "TransformerLayer")
    fwd = it4.class_attr(layer, "forward")

    def mkself():
        return Obj("unit_scaling._modules.TransformerLayer", cls=layer, term=T("param", ("self",)))

    cons = f"{MD}::TransformerLayer.forward"
    try:
        got = it4.call_function(fwd, [mkself(), P("input", (dim("b"), dim("s"), dim("H")))], {})
        ref = oracle_function(it4, "ref_forward", REF_LAYER_FORWARD, std_globals(it4))
        exp = it4.call_function(ref, [mkself(), P("input", (dim("b"), dim("s"), dim("H")))], {})
        et = TM.normalize(TM.term_of(exp))
        insts = TM.instances(TM.normalize(TM.term_of(got)))
        for g_, gt in insts:
            ok = TM.term_equal(gt, et)
            report.add(rule, cons, ok, f"[{TM.guard_str(g_)}] pre-norm residual layer: (split, norm, mhsa, dropout, add) with mhsa_tau then the same with mlp/mlp_tau; " + TM.first_diff(gt, et), fmt(gt), fmt(et))
    except Unsupported as e:
        report.add(rule, cons, None, f"outside the analysable fragment: {e}")


def check(report: Report, repo: Repo) -> None:
    report.rule_text = (
        "R0: the oracle (a_attn, a_mlp, S) satisfies the telescoping obligations S(0)=L/2, S(i+1)-S(i)=a(i)^2,"
        " a_attn=r*a_mlp, (a_attn^2+a_mlp^2)/2=m^2 (sympy);"
        " R1: tau extracted from transformer_residual_scaling_rule._tau at index 2k and 2k+1 (k, L, m, r symbolic)"
        " == oracle a(i)/sqrt(S(i)); R2: TransformerStack passes residual_scaling(2i, 2*layers) as mhsa_tau and"
        " (2i+1, 2*layers) as mlp_tau for i in range(layers), in order; R3: TransformerLayer.forward term =="
        " reference program (mhsa_tau pairs split/add around mhsa, mlp_tau around mlp);"
        " R4: defaults are the rule with m=r=1 and TransformerDecoder forwards residual_scaling/layers."
    )
    report.explanation = "closed-form comparison for symbolic depth/parity plus term-level wiring checks on _modules.py"
    report.assumptions += [
        "lemma (DESIGN.md C07): with 1+tau_i^2 = S(i+1)/S(i) the squared contributions telescope to a(i)^2/S(N) and S(0)/S(N)",
        "wiring of TransformerStack is evaluated for layers in a finite set (1,2,3,5,11,12 / thorough up to 32): the construction is uniform in i",
    ]
    # ---- R0 oracle sanity (obligations 1-5 of the design)
    obl = {
        "S(0)=L/2": S_or(0, 0) - L / 2,
        "S(2k+1)-S(2k)=a_attn^2": S_or(k + 1, k) - S_or(k, k) - A_ATTN**2,
        "S(2k+2)-S(2k+1)=a_mlp^2": S_or(k + 1, k + 1) - S_or(k + 1, k) - A_MLP**2,
        "a_attn=r*a_mlp": A_ATTN - r * A_MLP,
        "(a_attn^2+a_mlp^2)/2=m^2": (A_ATTN**2 + A_MLP**2) / 2 - m**2,
    }
    for name, e in obl.items():
        report.add("R0-oracle", f"oracle::{name}", sp.simplify(e) == 0, "telescoping obligation on the oracle", fmt(sp.simplify(e)), "0", nontrivial=False)

    it = Interp(repo)
    rule = it.get_global(CF, "transformer_residual_scaling_rule")
    if not isinstance(rule, FuncV):
        raise AnalysisError("transformer_residual_scaling_rule is not a function")
    base = f"{CF}::transformer_residual_scaling_rule._tau"
    try:
        tau_fn = it.run(rule, residual_mult=m, residual_attn_ratio=r)
        if not is_callable_value(it, tau_fn):
            report.add("R1-tau", base, None, f"the rule does not return a local function but {fmt(tau_fn)}")
        else:
            for par, idx in (("even", 2 * k), ("odd", 2 * k + 1)):
                got = it.call_function(tau_fn, [idx, L], {})
                if isinstance(got, (sp.Basic, int)):
                    ok = TM.expr_equal(got, ORACLE[par])
                else:
                    # the rule branches on a hyper-parameter (e.g. ratio <= 1 / > 1): every branch must be the closed form
                    # where its guard holds -- an identity in all symbols proves it, a sample inside the guard refutes it
                    ok = True
                    for guard, leaf in TM.leaves(got):
                        if not isinstance(leaf, (sp.Basic, int)):
                            ok = None
                            break
                        if TM.expr_equal(leaf, ORACLE[par]) is True:
                            continue
                        verdict = None
                        for rv in (sp.Rational(1, 3), sp.Rational(1, 2), sp.Integer(1), sp.Rational(3, 2), sp.Integer(2), sp.Integer(3)):
                            for mv in (sp.Rational(1, 2), sp.Integer(1), sp.Integer(2)):
                                sub = {r: rv, m: mv}
                                try:
                                    inside = all(bool(sp.sympify(c).subs(sub)) is pol for c, pol in guard if isinstance(c, sp.Basic))
                                except Exception:
                                    inside = False
                                if not inside:
                                    continue
                                if TM.expr_equal(sp.sympify(leaf).subs(sub), ORACLE[par].subs(sub)) is False:
                                    verdict = False
                        ok = False if verdict is False else (None if ok is True else ok)
                        if ok is False:
                            break
                report.add("R1-tau", f"{base}[index={'2k' if par == 'even' else '2k+1'}]", ok, f"tau at {par} index, symbolic k, L (total branches), m, r", fmt(got), fmt(ORACLE[par]))
            # defaults
            tau_def = it.run(rule)
            for par, idx in (("even", 2 * k), ("odd", 2 * k + 1)):
                got = it.call_function(tau_def, [idx, L], {})
                exp = ORACLE[par].subs({m: 1, r: 1})
                report.add("R4-defaults", f"{CF}::transformer_residual_scaling_rule::defaults[{par}]", TM.expr_equal(got, exp), "default hyper-parameters are residual_mult=1, residual_attn_ratio=1", fmt(got), fmt(exp))
    except Unsupported as e:
        report.add("R1-tau", base, None, f"outside the analysable fragment: {e}")

    # ---- R2 stack wiring (nn.Sequential modelled: `_modules` keyed "0","1",...; len(); children())
    from ..nnmodel import container_super_hook

    def opaque(f):
        return isinstance(f, ClassV) and f.qualname in ("TransformerLayer",) or public_functional(f)

    depths = (1, 2, 3, 5, 11, 12) if report.tier == "quick" else (1, 2, 3, 4, 5, 7, 9, 10, 11, 12, 13, 21, 32)
    # one abstract process for all depths: stacks built one after another must not influence each other
    # (class-level or module-level state carried from an earlier construction)
    it2 = Interp(repo, opaque=opaque)
    it2.super_hook = container_super_hook("Sequential")
    # the constructor options these scenarios cover; a new option means behaviour the scenarios do not exercise
    KNOWN_OPTIONS = {
        "TransformerStack": ["layers", "hidden_size", "heads", "is_causal", "dropout_p", "residual_scaling"],
        "TransformerLayer": ["hidden_size", "heads", "mhsa_tau", "mlp_tau", "is_causal", "dropout_p"],
        "TransformerDecoder": ["hidden_size", "vocab_size", "layers", "heads", "dropout_p", "residual_scaling"],
    }
    stack_extra: list = []
    for cn_, known_ in KNOWN_OPTIONS.items():
        init_ = it2.class_attr(it2.get_global(MD, cn_), "__init__")
        names_ = it2.param_names(init_)[1:] if isinstance(init_, FuncV) else []
        extra_ = [x_ for x_ in names_ if x_ not in known_]
        if cn_ == "TransformerStack":
            stack_extra = list(extra_)
        # (a forward / __call__ the stack defines itself is decided by R6-execution below)
        report.add("R2-stack-wiring", f"{MD}::{cn_}.__init__::options", None if extra_ else True, f"constructor options {extra_} of {cn_} are not covered by the scenarios of this check: what they do to the residual structure is undecided (R6 explores a small domain of each and reports what it finds)", extra_, [], nontrivial=False)
    for n in depths:
        stack = it2.get_global(MD, "TransformerStack")
        init = it2.class_attr(stack, "__init__")
        selfv = Obj("unit_scaling._modules.TransformerStack", cls=stack)
        H, h = dim("H"), dim("h")
        cons = f"{MD}::TransformerStack.__init__"
        try:
            it2.call_function(init, [selfv], dict(layers=n, residual_scaling=O("residual_scaling"), hidden_size=H, heads=h, is_causal=True))
        except Unsupported as e:
            report.add("R2-stack-wiring", cons, None, f"outside the analysable fragment: {e}")
            break
        mods = selfv.attrs.get("_modules")
        if not isinstance(mods, dict):
            report.add("R2-stack-wiring", cons, False, "the layers are not handed to the nn.Sequential constructor")
            continue
        layer_objs = list(mods.values())
        ok_n = len(layer_objs) == n and all(isinstance(o, Obj) for o in layer_objs) and len({id(o) for o in layer_objs}) == n
        report.add("R2-stack-wiring", f"{cons}::count", ok_n, f"layers={n}: number of distinct TransformerLayer objects in the container", len(layer_objs), n)
        if not ok_n:
            continue
        for i, o in enumerate(layer_objs):
            for attr, idx in (("mhsa_tau", 2 * i), ("mlp_tau", 2 * i + 1)):
                got = TM.term_of(o.attrs.get(attr))
                exp = T("callv", (T("param", ("residual_scaling",)), (idx, 2 * n), ()))
                report.add("R2-stack-wiring", f"{cons}::{attr}", TM.term_equal(got, exp), f"layers={n}, layer {i} (execution order): {attr} must be residual_scaling({idx}, {2 * n})", fmt(got), fmt(exp))
            for kw, val in (("hidden_size", H), ("heads", h), ("is_causal", True)):
                report.add("R2-stack-wiring", f"{cons}::kwargs", TM.term_equal(TM.term_of(o.attrs.get(kw)), val), f"layer keyword '{kw}' forwarded", fmt(o.attrs.get(kw)), fmt(val), nontrivial=False)

    # (taus memoised in a module-level table under id(rule): the stack keeps no reference to an inline rule, so a later
    # rule object can take over the id and inherit the previous rule's taus)
    idc = [e for e in it2.events if e.kind == "identity-keyed-cache"]
    report.add("R5-history", f"{MD}::TransformerStack.__init__::identity-keyed-cache", not idc, "no module-level table is keyed by id(<rule>) without holding the rule itself (an id is unique only among live objects)", [f"key {fmt(e['key'])} at {e.where}" for e in idc], [], nontrivial=False)
    # ---- R5 history independence: one rule object reused at several depths, in any order
    it5 = Interp(repo)
    rule5 = it5.get_global(CF, "transformer_residual_scaling_rule")
    mm, rr = sp.Rational(3, 2), sp.Rational(1, 3)
    try:
        fn5 = it5.run(rule5, residual_mult=mm, residual_attn_ratio=rr)
        for Lc in (6, 2, 4, 2):  # total branch counts, interleaved (a second stack of another depth, then the first again)
            for idx in list(range(Lc)):
                got = it5.call_function(fn5, [idx, Lc], {})
                kk = idx // 2
                exp = ORACLE["even" if idx % 2 == 0 else "odd"].subs({k: kk, L: Lc, m: mm, r: rr})
                ok = TM.expr_equal(got, exp) if isinstance(got, (int, sp.Basic)) else None
                report.add("R5-history", f"{base}::stateless", ok, f"the same rule object evaluated for a stack of {Lc} branches after stacks of other depths: tau({idx},{Lc}) must not depend on earlier calls", fmt(got), fmt(sp.simplify(exp)), nontrivial=False)
    except Unsupported as e:
        report.add("R5-history", f"{base}::stateless", None, f"outside the analysable fragment: {e}")

    # ---- R4: defaults of the stack / decoder, decoder forwarding
    it3 = Interp(repo, opaque=lambda f: isinstance(f, ClassV) and f.qualname in ("TransformerStack", "Embedding", "RMSNorm", "LinearReadout"))
    for cname in ("TransformerStack", "TransformerDecoder"):
        c = it3.get_global(MD, cname)
        init = it3.class_attr(c, "__init__")
        b = it3.bind(init, [None], dict(layers=2, **({"hidden_size": 8, "vocab_size": 9, "heads": 2} if cname == "TransformerDecoder" else {})))
        dflt = b.get("residual_scaling")
        ok = is_callable_value(it3, dflt)
        if ok:
            try:
                got = it3.call_function(dflt, [2 * k + 1, L], {})
                ok = TM.expr_equal(got, ORACLE["odd"].subs({m: 1, r: 1}))
            except Unsupported as e:
                got = it3.call_function(dflt, [5, 8], {})  # concrete fallback
                ok = TM.expr_equal(got, ORACLE["odd"].subs({m: 1, r: 1, k: 2, L: 8}))
        report.add("R4-defaults", f"{MD}::{cname}.__init__::residual_scaling-default", ok, "default residual_scaling is transformer_residual_scaling_rule() with m=r=1", fmt(dflt), "transformer_residual_scaling_rule()._tau")
    dec = it3.get_global(MD, "TransformerDecoder")
    selfv = Obj("unit_scaling._modules.TransformerDecoder", cls=dec)
    NL = sp.Symbol("NL", integer=True, positive=True)
    try:
        it3.events = []
        it3.call_function(it3.class_attr(dec, "__init__"), [selfv], dict(hidden_size=dim("H"), vocab_size=dim("V"), layers=NL, heads=dim("h"), dropout_p=hyper("pd"), residual_scaling=O("residual_scaling")))
        news = [e for e in it3.events if e.kind == "new" and e["cls"].qualname == "TransformerStack"]
        cons = f"{MD}::TransformerDecoder.__init__::TransformerStack(...)"
        if len(news) != 1:
            report.add("R4-decoder", cons, False, f"expected exactly one TransformerStack construction, found {len(news)}")
        else:
            b = news[0]["bound"]
            kw = b.get("kwargs", {})
            report.add("R4-decoder", cons + "::layers", TM.term_equal(TM.term_of(b.get("layers")), NL), "decoder forwards its `layers`", fmt(b.get("layers")), "layers")
            report.add("R4-decoder", cons + "::residual_scaling", TM.term_equal(TM.term_of(b.get("residual_scaling")), T("param", ("residual_scaling",))), "decoder forwards its residual_scaling rule", fmt(b.get("residual_scaling")), "residual_scaling")
    except Unsupported as e:
        report.add("R4-decoder", f"{MD}::TransformerDecoder.__init__", None, f"outside the analysable fragment: {e}")

    check_layer_forward(report, repo, "R3-layer-pairing")
    check_stack_execution(report, repo, stack_extra)
    report.floor("wiring obligations", len([o for o in report.obls if o.rule == "R2-stack-wiring"]), 20)
