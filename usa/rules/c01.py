"""C01 -- every scaled function == PyTorch reference x one positive, data-independent
scalar (exactly 1 for losses / norms / embedding); no input modified; unsupported
arguments rejected, every other argument honoured."""
from __future__ import annotations

import ast
from typing import Any, Dict, List, Optional, Tuple

import sympy as sp

from .. import schemas as SC
from .. import symb
from .. import terms as TM
from ..absint import Interp, Unsupported
from ..core import AnalysisError, Report, Repo
from ..optable import FUNCTIONAL, PUBLIC_FUNCTIONS, Case, Summary, make_case, summarise
from ..oracle import oracle_function, std_globals
from ..schemas import O, P
from ..values import BOTTOM, ExtV, FuncV, Gamma, Obj, T, TV, Unknown, fmt

DOCS = "unit_scaling/docs.py"

# Reference programs: the PyTorch op the function mirrors, with the documented `mult`
# temperature applied.  `count_targets` stands for PyTorch's mean normaliser of
# cross_entropy (number of targets != ignore_index): an uninterpreted, data-dependent
# quantity unless ignore_index cannot take effect.
REFS = '''
def gelu(input, mult, approximate, **_):
    return F.gelu(input * mult, approximate=approximate) / mult

def silu(input, mult, **_):
    return F.silu(input * mult) / mult

def silu_glu(input, gate, mult, **_):
    return input * (F.silu(gate * mult) / mult)

def softmax(input, dim, dtype, mult, _stacklevel=3, **_):
    return F.softmax(input * mult, dim=dim, _stacklevel=_stacklevel, dtype=dtype)

def dropout(input, p, training, **_):
    return F.dropout(input, p, training, False)

def matmul(left, right, **_):
    return torch.matmul(left, right)

def linear(input, weight, bias, **_):
    return F.linear(input, weight, bias)

def linear_readout(input, weight, bias, **_):
    return F.linear(input, weight, bias)

def conv1d(input, weight, bias, stride, padding, dilation, groups, **_):
    # (F.conv1d reads an int and the 1-tuple holding it alike)
    stride, padding, dilation = [v[0] if isinstance(v, (tuple, list)) else v for v in (stride, padding, dilation)]
    return F.conv1d(input, weight, bias, stride, padding, dilation, groups)

def layer_norm(input, normalized_shape, weight, bias, eps, **_):
    return F.layer_norm(input, normalized_shape, weight, bias, eps)

def rms_norm(input, normalized_shape, weight, eps, **_):
    dims = tuple(range(-1, -1 - len(normalized_shape), -1))
    # (PyTorch reduces in at least float32, and never below the input's own precision)
    r = (input.to(torch.promote_types(input.dtype, torch.float32)).pow(2).mean(dims, keepdim=True) + eps).sqrt().to(input.dtype)
    out = input / r
    if weight is not None:
        out *= weight  # in place: the result keeps the input's dtype also for a wider weight dtype
    return out

def add(input, other, out, **_):
    return torch.add(input, other, out=out)

def embedding(input, weight, padding_idx, max_norm, norm_type, **_):
    return F.embedding(input, weight, padding_idx, max_norm, norm_type, False, False)

def scaled_dot_product_attention(query, key, value, attn_mask, dropout_p, is_causal, mult, **_):
    return F.scaled_dot_product_attention(query, key, value, attn_mask=attn_mask, dropout_p=dropout_p, is_causal=is_causal, scale=mult / query.shape[-1])  # temperature over the size of the dot products (the query / key head size)

def cross_entropy(input, target, ignore_index, reduction, mult, **_):
    loss = F.cross_entropy(input * mult, target, None, None, ignore_index, None, reduction="sum", label_smoothing=0.0)
    if reduction == "mean":
        if len(target.shape) == len(input.shape):
            # class-probability targets: ignore_index does not apply, the mean is over the rows of logits
            return loss / (input.numel() / input.shape[-1])
        return loss / count_targets(target, ignore_index)
    return loss

def mse_loss(input, target, reduction, **_):
    loss = F.mse_loss(input, target, None, None, reduction="sum")
    if reduction == "mean":
        if input.shape != target.shape:
            # (only the (a,1)-vs-(a,) pairings are evaluated: F.mse_loss broadcasts them to a x a)
            return loss / (input.numel() * target.numel())
        return loss / input.numel()
    return loss
'''

EXACT_ONE = {"layer_norm", "rms_norm", "embedding", "cross_entropy", "mse_loss"}
NUMERIC_PARAMS = {"eps": "pos", "p": "unit", "norm_type": "pos", "max_norm": "pos", "padding_idx": "int", "ignore_index": "int", "dropout_p": "unit0", "alpha": "int", "mult": "pos", "tau": "pos", "stride": "dim", "padding": "dim", "dilation": "dim", "groups": "dim"}
INPLACE_EXEMPT = {("add", "out"): "out= is torch.add's own contract: the caller's buffer is the destination"}
UNIT_DOMAIN = {"p", "dropout_p"}


def mk_numeric(name: str) -> Any:
    k = NUMERIC_PARAMS[name]
    if k == "int":
        return sp.Symbol(name, integer=True)
    if k == "dim":
        return SC.dim(name)
    if k == "unit0":
        return sp.Symbol(name, nonnegative=True)
    return sp.Symbol(name, positive=True)


def fill_args(it: Interp, f: FuncV, base: Dict[str, Any]) -> Dict[str, Any]:
    """Complete a shape schema: every parameter that is neither given by the schema nor
    rejected by the decorator gets a symbolic / opaque value (so that forwarding it to the
    reference op is observable)."""
    args = dict(base)
    a = f.node.args
    names = [p.arg for p in a.posonlyargs + a.args + a.kwonlyargs]
    for n in names:
        if n in args or n in f.unsupported_args:
            continue
        if n in NUMERIC_PARAMS:
            args[n] = mk_numeric(n)
        elif n in ("constraint", "scale_power"):
            continue  # library-specific options: their defaults are part of the schema
        else:
            args[n] = O(n)
    return args


def count_targets_model(it: Interp) -> Any:
    """Reference normaliser of cross_entropy(reduction='mean')."""
    from ..absint import _Builtin, _term

    def f(it2, a, k, n):
        target, ign = a
        return TV(T("call", ("count_targets", (("ignore_index", _term(ign)), ("target", _term(target))))))

    return _Builtin("count_targets", f)


def sample_positive(e: Any) -> Optional[bool]:
    e = sp.sympify(e)
    # output lengths floor(...) of a valid convolution are >= 0 (out_size >= 1)
    for i, fl in enumerate(sorted(e.atoms(sp.floor), key=str)):
        e = e.subs(fl, sp.Symbol(f"floor_{i}", integer=True, nonnegative=True))
    if e.is_positive:
        return True
    if e.is_nonpositive:
        return False
    syms = sorted(e.free_symbols, key=lambda s: s.name)
    allpos = True
    for shift in range(4):
        m = {}
        for i, s in enumerate(syms):
            p = TM.PRIMES[(i + 2 * shift) % len(TM.PRIMES)]
            if s.name in UNIT_DOMAIN:
                m[s] = sp.Rational(1, p)
            elif s.is_integer:
                m[s] = p
            else:
                m[s] = sp.Rational(p, TM.PRIMES[(i + shift + 3) % len(TM.PRIMES)])
        try:
            v = sp.N(e.subs(m), 30)
            if not (v.is_real and v > 0):
                return False
        except Exception:
            allpos = False
    return True if allpos else None


def check_docs(report: Report, repo: Repo) -> None:
    """R5b: the unsupported-argument guard in docs.py."""
    it = Interp(repo)
    mod = repo.module(DOCS)
    # (1) behaviour of the wrapper produced by _validate, on a small probe function
    probe_src = "def probe(input, mult=1.0, inplace=False, sparse=False, alpha=1, reduce=None, size_average=True):\n    return F.relu(input)\n"
    probe = oracle_function(it, "probe", probe_src, std_globals(it))
    validate = it.get_global(DOCS, "_validate")
    cons = f"{DOCS}::_validate"
    x = P("x", None)
    try:
        it.events = []
        wrapped = it.call_function(validate, [probe, ["inplace", "sparse", "alpha", "reduce", "size_average"]], {})
        if not isinstance(wrapped, FuncV):
            report.add("R5-guard", cons, False, "does not return a wrapper function", fmt(wrapped), "wrapper")
            return
        scen = [
            ("positional non-default", [x, 2, True], {}, True),
            ("keyword non-default", [x], {"sparse": True}, True),
            ("keyword default", [x], {"inplace": False}, False),
            ("positional default", [x, 2, False, False], {}, False),
            ("supported arg non-default", [x], {"mult": 3}, False),
            # falsy is not the same as default: alpha=0, reduce=False, size_average=False differ from the defaults
            ("falsy int where the default is 1", [x], {"alpha": 0}, True),
            ("False where the default is None", [x], {"reduce": False}, True),
            ("False where the default is True", [x], {"size_average": False}, True),
            ("None where the default is None", [x], {"reduce": None}, False),
        ]
        for name, a, k, should_raise in scen:
            it.events = []
            got = it.call_function(wrapped, a, k)
            raised = [e["exc"] for e in it.events if e.kind == "raise"]
            if should_raise:
                ok = got is BOTTOM and raised == ["ValueError"]
                report.add("R5-guard", f"{cons}::rejects[{name}]", ok, "a non-default value for an unsupported argument must raise ValueError", f"{fmt(got)} raises={raised}", "raise ValueError")
            else:
                called = [e for e in it.events if e.kind == "call" and e["callee"] == "torch.nn.functional.relu"]
                ok = (not raised) and len(called) == 1 and got is not BOTTOM
                report.add("R5-guard", f"{cons}::passes[{name}]", ok, "accepted calls must reach the wrapped function exactly once, unchanged", f"{fmt(got)} raises={raised}", "relu(x)", nontrivial=False)
    except Unsupported as e:
        report.add("R5-guard", cons, None, f"outside fragment: {e}")
    # (2) both decorators apply the guard to what they decorate: evaluated on probes
    probe2_src = (
        "def probe2(input, inplace=False):\n    return F.relu(input)\n"
        "class ProbeBase:\n    \"\"\"base doc\"\"\"\n"
        "class ProbeCls(ProbeBase):\n    def __init__(self, a, sparse=False):\n        self.a = a\n"
    )
    g2 = std_globals(it)
    cons = f"{DOCS}::docstring_from"
    try:
        probe2 = oracle_function(it, "probe2", probe2_src, g2)
        dec = it.call_function(it.get_global(DOCS, "docstring_from"), [ExtV("torch.nn.functional.relu")], {"unsupported_args": ["inplace"]})
        wrapped = it.call_function(dec, [probe2], {})
        it.events = []
        got = it.call_function(wrapped, [x], {"inplace": True})
        raised = [e["exc"] for e in it.events if e.kind == "raise"]
        report.add("R5-guard", f"{cons}::rejects", got is BOTTOM and raised == ["ValueError"], "a function decorated with docstring_from(unsupported_args=['inplace']) must raise ValueError for inplace=True", f"{fmt(got)} raises={raised}", "raise ValueError")
        it.events = []
        got = it.call_function(wrapped, [x], {})
        called = [e for e in it.events if e.kind == "call" and e["callee"] == "torch.nn.functional.relu"]
        raised = [e["exc"] for e in it.events if e.kind == "raise"]
        report.add("R5-guard", f"{cons}::passes", (not raised) and len(called) == 1 and got is not BOTTOM, "an accepted call reaches the decorated function exactly once", f"{fmt(got)} raises={raised}", "relu(x)", nontrivial=False)
    except Unsupported as e:
        report.add("R5-guard", cons, None, f"outside fragment: {e}")
    cons = f"{DOCS}::inherit_docstring"
    try:
        pcls = oracle_function(it, "ProbeCls", probe2_src, g2)
        dec = it.call_function(it.get_global(DOCS, "inherit_docstring"), [], {"unsupported_args": ["sparse"]})
        wcls = it.call_function(dec, [pcls], {})
        it.events = []
        got = it.call_function(wcls, [1], {"sparse": True})
        raised = [e["exc"] for e in it.events if e.kind == "raise"]
        report.add("R5-guard", f"{cons}::rejects", got is BOTTOM and raised == ["ValueError"], "a class decorated with inherit_docstring(unsupported_args=['sparse']) must raise ValueError when constructed with sparse=True", f"{fmt(got)} raises={raised}", "raise ValueError")
        it.events = []
        got = it.call_function(wcls, [1], {})
        raised = [e["exc"] for e in it.events if e.kind == "raise"]
        ok = (not raised) and isinstance(got, Obj) and TM.expr_equal(got.attrs.get("a"), 1) is True
        report.add("R5-guard", f"{cons}::passes", ok, "an accepted construction runs the decorated class's __init__", f"{fmt(got)} raises={raised}", "object with a == 1", nontrivial=False)
    except Unsupported as e:
        report.add("R5-guard", cons, None, f"outside fragment: {e}")


def c01_schema_sets(tier: str) -> List[Tuple[str, Dict[str, List[SC.Schema]]]]:
    sets = [("default-constraint", SC.all_schemas(tier, "__default__")), ("constraint=None", SC.all_schemas(tier, None))]
    if tier == "thorough":
        for c in ("gmean", "hmean", "amean"):
            sets.append((f"constraint={c}", SC.all_schemas("quick", c)))
    return sets


def strip_default_constraint(schemas: Dict[str, List[SC.Schema]]) -> Dict[str, List[SC.Schema]]:
    out = {}
    for fn, lst in schemas.items():
        out[fn] = [SC.Schema(s.name, {k: v for k, v in s.args.items() if not (k == "constraint" and v == "__default__")}, s.note, s.dims_ge2) for s in lst]
    return out


def check(report: Report, repo: Repo) -> None:
    report.rule_text = (
        "For each of the 16 mirrored public functions x shape schema (+3 residual helpers for R1/R6):"
        " R1 every scale_fwd/scale_bwd factor is a closed-form expression over shape symbols and hyper-parameters"
        " (no value extracted from a tensor, no tensor-valued factor, no tensor-dependent branch);"
        " R2 forward value (scale primitives -> multiplication by their forward factor) divided by the reference"
        " program's value simplifies to an expression free of tensor symbols and op applications, i.e. result = c x"
        " reference with every argument forwarded to the same-named reference parameter; R3 c == 1 for losses, norms,"
        " embedding (incl. the 'mean' normaliser == PyTorch's); R5 every parameter is read or rejected and the guard in"
        " docs.py raises ValueError for non-default unsupported arguments; R6 no in-place effect on a value that may"
        " alias an argument; R7 c > 0.  distinct non-trivial = distinct (construct, extracted ratio)."
    )
    report.explanation = "abstract interpretation of functional.py under symbolic shape schemas; forward value compared with frozen reference programs through sympy with uninterpreted reference ops"
    report.assumptions += [
        "python float x Tensor keeps shape and dtype (so c x reference has the reference's shape/dtype)",
        "reference programs in rules/c01.py state what each function mirrors (mult temperature as documented)",
        "F.embedding's max_norm renormalisation of the weight is PyTorch's own documented in-place effect",
        "numerical equality on concrete tensors is not decided",
    ]
    it = Interp(repo)
    g = std_globals(it)
    g["count_targets"] = count_targets_model(it)
    refs: Dict[str, FuncV] = {}
    n_sites = 0
    n_summ = 0
    mirrored = [f for f in PUBLIC_FUNCTIONS if not f.startswith("residual")]
    for label, sset in c01_schema_sets(report.tier):
        sset = strip_default_constraint(sset)
        for func in PUBLIC_FUNCTIONS:
            f = it.get_global(FUNCTIONAL, func)
            if not isinstance(f, FuncV):
                raise AnalysisError(f"anchor vanished: {FUNCTIONAL}::{func}")
            if not f.transparent:
                report.add("R2-reference", f"{FUNCTIONAL}::{func}", None, f"wrapped by an unmodelled decorator {f.decorators}")
                continue
            if label != "default-constraint" and not any("constraint" in s.args for s in sset[func]):
                continue
            for sch in sset[func]:
                args = fill_args(it, f, sch.args)
                full = SC.Schema(sch.name + f" [{label}]", args, sch.note, sch.dims_ge2)
                summ = summarise(repo, func, full, interp=it)
                n_summ += 1
                base = f"{FUNCTIONAL}::{func}"
                if summ.error is not None:
                    report.add("R2-reference", f"{base}::{sch.name}", None, f"outside the analysable fragment: {summ.error}")
                    continue
                # ---- R1 data independence
                for ev in summ.events:
                    if ev.kind == "scale":
                        n_sites += 1
                        for role in ("fwd", "bwd"):
                            v = ev[role]
                            bad = None
                            if isinstance(v, TV):
                                if v.const is None:
                                    bad = f"tensor-valued factor {fmt(v)}"
                            elif isinstance(v, Unknown):
                                report.add("R1-taint", f"{base}::scale-{role}", None, f"scale factor not representable: {v.why} ({full.name})")
                                continue
                            elif isinstance(v, (sp.Basic, int)):
                                ds = set(getattr(sp.sympify(v), "free_symbols", set())) & set(it.data_syms)
                                if ds:
                                    src = "; ".join(f"{it.data_syms[d][0]} of {fmt(it.data_syms[d][1])}" for d in ds)
                                    bad = f"factor depends on tensor values via {src}"
                            elif isinstance(v, Gamma):
                                conds = [c for gd, _ in TM.leaves(v) for c, _p in gd]
                                if any(isinstance(c, T) and "truth" in fmt(c) for c in conds):
                                    bad = "factor selected by a tensor-dependent condition"
                            report.add("R1-taint", f"{base}::scale-{role}", bad is None, (bad or "factor is a function of shapes/hyper-parameters only") + f" ({full.name})", fmt(v), "shape/hyper-parameter expression", where=ev.where, nontrivial=not (isinstance(v, int) and v == 1))
                    if ev.kind == "data-truth":
                        report.add("R1-taint", f"{base}::branch", False, f"control flow depends on tensor values: {fmt(ev['value'])} ({full.name})", fmt(ev["value"]), "shape-only condition", where=ev.where)
                    if ev.kind == "inplace":
                        al = set(ev.get("alias") or ())
                        al = {a for a in al if (func, a) not in INPLACE_EXEMPT}
                        if al:
                            report.add("R6-no-mutation", f"{base}::inplace", False, f"in-place {ev['op']} on a value that may alias argument(s) {sorted(al)} ({full.name})", fmt(ev["target"]), "no in-place effect on inputs", where=ev.where)
                report.add("R6-no-mutation", f"{base}::inplace", True, f"no in-place effect on an input ({full.name})", nontrivial=False)
                # precision typestate: float64 is in the property's dtype set, so a value of the input's dtype
                # must not be squeezed through a fixed narrower floating dtype on its way to the result
                for ev in summ.events:
                    if ev.kind == "narrowing-cast":
                        report.add("R6-dtype", f"{base}::precision", False, f"{full.name}: a value of the input's dtype is converted to {ev['to_dtype']} ({ev['method']}): for a float64 input the result carries float32 rounding errors that depend on the data (PyTorch computes in float64)", f".{ev['method']}() -> {ev['to_dtype']}", "computation in at least the input's precision", where=ev.where)
                if func not in mirrored:
                    continue
                if not summ.cases:
                    report.add("R2-reference", base, False, f"raises for a valid input schema ({full.name})")
                    continue
                # ---- R2/R3/R7 ratio against the reference program
                if func not in refs:
                    refs[func] = oracle_function(it, func, REFS, g)
                it.decide = SC.dims_ge2_decider
                try:
                    saved = it.events
                    it.events = []
                    ref_val = it.call_function(refs[func], [], dict(args))
                    it.events = saved
                except Unsupported as e:
                    report.add("R2-reference", base, None, f"reference program not evaluable: {e}")
                    continue
                ref_cases = TM.instances(TM.term_of(ref_val))
                # ---- R6 result dtype (typestate of the tensor domain): same dtype as the PyTorch result
                for gd_c, leaf_c in TM.leaves(summ.result):
                    for gd_r, leaf_r in TM.leaves(ref_val):
                        if not _compatible(gd_c, gd_r):
                            continue
                        dc, dr = getattr(leaf_c, "dtype", None), getattr(leaf_r, "dtype", None)
                        if dc is None or dr is None or not isinstance(leaf_c, TV) or not isinstance(leaf_r, TV):
                            continue
                        report.add("R6-dtype", f"{base}::result-dtype", dc == dr, f"{full.name} | {TM.guard_str(gd_c)}: the result has the dtype of the PyTorch result (type promotion of out-of-place arithmetic vs the receiver's dtype of in-place arithmetic is tracked)", str(dc), str(dr), nontrivial=False)
                for case in summ.cases:
                    sub = TM.guard_substitution(case.guard)
                    rc = [t for gd, t in ref_cases if _compatible(gd, case.guard)]
                    if not rc:
                        report.add("R2-reference", base, None, f"no reference case for guard {TM.guard_str(case.guard)}")
                        continue
                    code_t = TM.subst(case.term, sub) if sub else case.term
                    ref_t = TM.subst(rc[0], sub) if sub else rc[0]
                    nf = TM.none_facts(case.guard)  # arguments the guard knows to be None
                    code_t, ref_t = TM.replace_terms(code_t, nf), TM.replace_terms(ref_t, nf)
                    r, conv = symb.ratio(code_t, ref_t)
                    free = conv.data_free(r)
                    gs = TM.guard_str(case.guard)
                    detail = f"{full.name} | {gs}: result / reference"
                    if not free and func == "cross_entropy":
                        # R4: is the only data-dependence PyTorch's mean normaliser?
                        from sympy.core.function import AppliedUndef

                        tnumel = args["target"].shape.numel() if args["target"].shape is not None else 1
                        r4 = r.replace(lambda e: isinstance(e, AppliedUndef) and e.func.__name__.startswith("count_targets"), lambda e: sp.sympify(tnumel))
                        if conv.data_free(r4) and TM.expr_equal(sp.simplify(r4), 1):
                            report.add("R4-normaliser", f"{base}::mean-normaliser", False, f"{full.name}: reduction='mean' divides by the batch size while `ignore_index` is forwarded to the reference op: PyTorch divides by the number of non-ignored targets, so the reported loss is PyTorch's x (non-ignored/N)", fmt(r), "1 (normaliser == number of targets != ignore_index)")
                            continue
                    if not free:
                        cstrip = TM.normalize(TM.strip_scales(code_t))
                        diff = TM.first_diff(cstrip, TM.normalize(ref_t))
                        report.add("R2-reference", f"{base}::result", False, detail + f" is not a data-independent scalar; first difference: {diff}", fmt(r)[:300], "c(shapes, hyper-parameters)")
                        continue
                    report.add("R2-reference", f"{base}::result", True, detail + " is a data-independent scalar", fmt(r), "c(shapes, hyper-parameters)")
                    if func in EXACT_ONE:
                        report.add("R3-exact-one", f"{base}::result", TM.expr_equal(r, 1), detail + " must be exactly 1", fmt(r), "1")
                    pos = sample_positive(r)
                    report.add("R7-positive", f"{base}::result", pos, detail + " must be positive", fmt(r), "> 0", nontrivial=False)
    # ---- R5 parameters read or rejected
    mod = repo.module(FUNCTIONAL)
    for func in mirrored:
        f = it.get_global(FUNCTIONAL, func)
        node = f.node
        reads = {n.id for n in ast.walk(node) if isinstance(n, ast.Name) and isinstance(n.ctx, ast.Load)}
        for p in it.param_names(f):
            ok = p in reads or p in f.unsupported_args
            report.add("R5-params", f"{FUNCTIONAL}::{func}::{p}", ok, "parameter is neither used nor rejected (silently ignored)" if not ok else "parameter is read or rejected", "unused" if not ok else "ok", "used or in unsupported_args", nontrivial=False)
        for p in f.unsupported_args:
            if p not in it.param_names(f):
                report.add("R5-params", f"{FUNCTIONAL}::{func}::{p}", False, "unsupported_args names a non-parameter")
    check_docs(report, repo)
    # shapes F.mse_loss would broadcast: U.mse_loss documents that it requires equal shapes, so it must refuse them
    # (or else reproduce F.mse_loss exactly -- a summed N x N loss divided by N is N times PyTorch's)
    for sch in SC.mse_mismatch_schemas():
        f = it.get_global(FUNCTIONAL, "mse_loss")
        full = SC.Schema(sch.name, fill_args(it, f, sch.args), sch.note, sch.dims_ge2)
        summ = summarise(repo, "mse_loss", full, interp=it)
        base = f"{FUNCTIONAL}::mse_loss::{sch.name}"
        if summ.error is not None:
            report.add("R2-reference", base, None, f"outside the analysable fragment: {summ.error}")
            continue
        raised = [e["exc"] for e in summ.events if e.kind == "raise"]
        if not summ.cases:
            report.add("R2-reference", base, "ValueError" in raised, "input and target of different shapes are refused with ValueError", raised, ["ValueError"], nontrivial=False)
            continue
        try:
            ref_val = it.call_function(oracle_function(it, "mse_loss", REFS, g), [], dict(full.args))
            ok = all(symb.ratio(c.term, TM.term_of(ref_val))[0] == 1 for c in summ.cases)
        except Exception:
            ok = False
        report.add("R2-reference", base, ok, "input and target of different shapes: refused, or exactly F.mse_loss of the broadcast pair", "accepted with another result", "ValueError, or F.mse_loss")
    # the forward value of every function goes through scale.py's primitive: its contract (value = factor x
    # input as a *new* tensor, no aliasing of the argument, zero/negative factors as given) is part of this property
    from .c02 import check_primitives

    check_primitives(report, repo)
    # reduction values the library does not implement must be rejected, not silently computed as something else
    for func, sch_fn in (("cross_entropy", SC.cross_entropy_schemas), ("mse_loss", SC.mse_schemas)):
        base_sch = sch_fn("quick")[0]
        for red in ("none", "batchmean"):
            a2 = fill_args(it, it.get_global(FUNCTIONAL, func), dict(base_sch.args, reduction=red))
            summ = summarise(repo, func, SC.Schema(f"{func}[reduction={red}]", a2), interp=it)
            raised = [e["exc"] for e in summ.events if e.kind == "raise"]
            ok = summ.error is None and not summ.cases and bool(raised)
            report.add("R5-params", f"{FUNCTIONAL}::{func}::reduction", ok if summ.error is None else None, f"reduction='{red}' is not implemented by the unit-scaled loss: it must be rejected with an error, not silently treated as another reduction", f"returns {fmt(summ.result)[:120]}" if summ.cases else f"raises {raised}", "raises")
    # ---- R7 history independence: the second of two calls with different sizes (same ranks, same options), made in one
    # abstract process, gives what a fresh process gives (a result memoised under a key that omits a size would not)
    n_hist = 0
    default_sets = dict(c01_schema_sets("quick"))["default-constraint"]
    for func in PUBLIC_FUNCTIONS:
        schs = strip_default_constraint({func: default_sets.get(func, [])})[func]
        if not schs:
            continue
        sch = schs[0]
        ren = {}

        def rename(v: Any) -> Any:
            if isinstance(v, TV) and v.shape is not None:
                for d_ in v.shape:
                    for s_ in getattr(d_, "free_symbols", ()):
                        ren.setdefault(s_, sp.Symbol(s_.name + "_2", integer=True, positive=True))
                return TV(v.term, shape=type(v.shape)(tuple(sp.sympify(d_).subs(ren) if hasattr(d_, "subs") else d_ for d_ in v.shape)), dtype=v.dtype, alias=v.alias, kind=v.kind)
            if isinstance(v, tuple):
                return tuple(sp.sympify(x_).subs(ren) if isinstance(x_, sp.Basic) else x_ for x_ in v)
            return v

        try:
            f_a = Interp(repo)
            f_a.decide = SC.dims_ge2_decider
            fa = f_a.get_global(FUNCTIONAL, func)
            args1 = fill_args(f_a, fa, sch.args)
            args2 = {k_: rename(v_) for k_, v_ in args1.items()}
            args2 = {k_: rename(v_) for k_, v_ in args1.items()}  # second pass: every symbol now has its partner
            f_a.call_function(fa, [], dict(args1))
            second = f_a.call_function(fa, [], dict(args2))
            f_b = Interp(repo)
            f_b.decide = SC.dims_ge2_decider
            fresh = f_b.call_function(f_b.get_global(FUNCTIONAL, func), [], dict(args2))
        except Unsupported as e:
            report.add("R7-history", f"{FUNCTIONAL}::{func}::second-call", None, f"outside fragment: {e}")
            continue
        n_hist += 1
        same = TM.term_equal(TM.normalize(TM.term_of(second)), TM.normalize(TM.term_of(fresh)))
        report.add("R7-history", f"{FUNCTIONAL}::{func}::second-call", same, f"{sch.name}: a call with other sizes after a first call returns what it returns in a fresh process (no state kept between calls under a key that omits a size)", fmt(TM.term_of(second))[:200], fmt(TM.term_of(fresh))[:200], nontrivial=False)
    report.floor("functions evaluated twice in one process", n_hist, 15)
    report.note("public_functions", PUBLIC_FUNCTIONS)
    report.note("summaries", n_summ)
    report.note("scale_sites_evaluated", n_sites)
    report.floor("public functions analysed", len(PUBLIC_FUNCTIONS), 19)
    report.floor("scale primitive applications evaluated", n_sites, 150)


def _literal(c: Any, p: bool) -> Tuple[Any, bool]:
    """Strip negations: (not X, p) == (X, not p); `is not` / `!=` likewise."""
    while isinstance(c, T) and c.op == "not" and len(c.args) == 1:
        c, p = c.args[0], not p
    return c, p


def _compatible(g1: Tuple[Tuple[Any, bool], ...], g2: Tuple[Tuple[Any, bool], ...]) -> bool:
    for c1, p1 in g1:
        c1, p1 = _literal(c1, p1)
        for c2, p2 in g2:
            c2, p2 = _literal(c2, p2)
            try:
                if c1 == c2 and p1 != p2:
                    return False
            except Exception:
                pass
    return True
