"""C17 -- transforms are non-destructive and compose in any order (structural clauses):
copy before write, per-module backend list, backend composition in list order, name
coupling of the reorder helper, cache flags, mutable defaults never mutated."""
from __future__ import annotations

import ast
from typing import Any, Dict, List, Optional, Tuple

from .. import terms as TM
from ..absint import Interp, Unsupported
from ..core import AnalysisError, Report, Repo
from ..schemas import O, P
from ..values import BOTTOM, ClassV, ExtV, FuncV, Obj, T, TV, fmt

TU = "unit_scaling/transforms/utils.py"
US = "unit_scaling/transforms/_unit_scale.py"
SF = "unit_scaling/transforms/_simulate_format.py"
TS = "unit_scaling/transforms/_track_scales.py"
CP = "unit_scaling/transforms/_compile.py"

OPAQUE_HELPERS = ()  # nothing is opaque by name: the abstract module enumerates its own (empty) children


def snapshot(o: Obj) -> Dict[str, Any]:
    return {k: (list(v) if isinstance(v, list) else v) for k, v in o.attrs.items()}


def same_snapshot(a: Dict[str, Any], b: Dict[str, Any]) -> bool:
    if set(a) != set(b):
        return False
    for k in a:
        if isinstance(a[k], list) and isinstance(b[k], list):
            if len(a[k]) != len(b[k]) or any(x is not y for x, y in zip(a[k], b[k])):
                return False
        elif a[k] is not b[k]:
            return False
    return True


def mkmodule(name: str = "module", **attrs: Any) -> Obj:
    m = Obj("torch.nn.Module", term=None)
    m.attrs.update({"forward": O(f"{name}.forward"), "_children": [], "__module__": "user_code.models", **attrs})
    m.attrs["_label"] = name
    # its class, as type(module) shows it: a user-defined nn.Module subclass with a forward of its own
    fn_ = Obj("function", attrs={"__module__": "user_code.models", "__name__": "forward", "__qualname__": "Net.forward", "_callable": True}, open_attrs=False)
    m.attrs["__class__"] = Obj("type", attrs={"__module__": "user_code.models", "__name__": "Net", "__qualname__": "Net", "forward": fn_}, term=T("param", ("user_code.models.Net",)))
    return m


def is_optimize_result(v: Any) -> bool:
    """v is the value returned by torch._dynamo.optimize(...) (the decorator applied to module / function)."""
    t = TM.term_of(v)
    return isinstance(t, T) and t.op == "call" and t.args[0] == "torch._dynamo.optimize"


def check_root_entry(report: Report, repo: Repo, rule: str) -> None:
    """The callable that apply_transform hands to TorchDynamo must have a user-code outermost frame.

    Trusted fact about TorchDynamo (recorded as an assumption): a frame whose code lives in torch/nn (the
    forward of nn.Linear, nn.Sequential, ...) is only traced when it is *inlined* from a traced caller;
    as the outermost frame it is skipped and runs eagerly, so no backend is ever invoked.  Hence: when the
    root module's class is defined in torch.nn / torch.ao, Dynamo must be given a function defined in the
    repository that calls the module, not the module itself.  (For a root of a user-defined class either
    form is traced.)"""
    opq = lambda f: isinstance(f, FuncV) and f.qualname in OPAQUE_HELPERS
    cons = f"{TU}::apply_transform::dynamo-entry"
    for sname, cls_name, modname, fwd_home in (
        ("root is a user-defined module", "user_code.models.Net", "user_code.models", "user_code.models"),
        ("root is torch.nn.Sequential", "torch.nn.modules.container.Sequential", "torch.nn.modules.container", "torch.nn.modules.container"),
        ("root is torch.nn.Linear", "torch.nn.modules.linear.Linear", "torch.nn.modules.linear", "torch.nn.modules.linear"),
        # `class Block(nn.Sequential): pass` -- a user class whose forward is still torch.nn's
        ("root is a user subclass of nn.Sequential inheriting its forward", "user_code.models.Block", "user_code.models", "torch.nn.modules.container"),
        ("root is a user subclass of nn.Linear inheriting its forward", "user_code.models.MyLinear", "user_code.models", "torch.nn.modules.linear"),
        ("root is a user subclass of nn.Linear with its own forward", "user_code.models.FancyLinear", "user_code.models", "user_code.models"),
    ):
        it = Interp(repo, opaque=opq)
        at = it.get_global(TU, "apply_transform")
        m = Obj(cls_name, term=None)
        m.attrs.update({"forward": O("m.forward"), "_children": [], "__module__": modname, "_label": "m"})
        # the class as seen through type(module): where the class and where its forward are defined
        fn_ = Obj("function", attrs={"__module__": fwd_home, "__name__": "forward", "__qualname__": cls_name.rsplit(".", 1)[-1] + ".forward", "_callable": True}, open_attrs=False)
        m.attrs["__class__"] = Obj("type", attrs={"__module__": modname, "__name__": cls_name.rsplit(".", 1)[-1], "__qualname__": cls_name.rsplit(".", 1)[-1], "forward": fn_}, term=T("param", (cls_name,)))
        try:
            res = it.call_function(at, [m, O("backend")], {})
            fwd = res.attrs.get("forward") if isinstance(res, Obj) else None
            it.events = []
            it.call_function(fwd, [P("x", None)], {})
        except Unsupported as ex:
            report.add(rule, cons, None, f"[{sname}] outside fragment: {ex}")
            continue
        applied = [e for e in it.events if e.kind == "callv" and is_optimize_result(e["callee"])]
        if len(applied) != 1 or not applied[0]["args"]:
            report.add(rule, cons, False, f"[{sname}] the first call must hand exactly one callable to torch._dynamo.optimize(backend)", len(applied), 1)
            continue
        target = applied[0]["args"][0]
        is_nn = fwd_home.startswith(("torch.nn.", "torch.ao."))  # what Dynamo looks at is the code object of forward
        if is_nn:
            ok = isinstance(target, FuncV) and target.module.name.startswith("unit_scaling")
            report.add(rule, cons, ok, f"[{sname}] TorchDynamo skips an outermost frame that lives in torch.nn: the root must be entered through a function of the library (else nothing is captured and the transform silently does nothing)", fmt(target)[:120], "a function defined in unit_scaling that calls the module")
        else:
            ok = target is res or (isinstance(target, FuncV) and target.module.name.startswith("unit_scaling"))
            report.add(rule, cons, ok, f"[{sname}] Dynamo wraps the module copy (or a library function calling it)", fmt(target)[:120], "the module copy", nontrivial=False)


def check(report: Report, repo: Repo) -> None:
    report.rule_text = (
        "R1 (copy before write): abstractly execute apply_transform on a fresh and on an already-transformed abstract module:"
        " the result is a different object obtained by copy.deepcopy, every attribute store lands on the copy, the input's"
        " attributes and its backend list are unchanged; unit_scale/simulate_format/compile/track_scales only mutate the value"
        " returned by apply_transform. R2: result.backends == input.backends + [backend] as a distinct list object which the"
        " composite backend closes over; _compose_backends applies each backend once, in list order, feeding each the previous"
        " result. R3: _order_backends moves the unit-scaling backend in front of the quantisation backend for every relative"
        " order, using the __qualname__ of the closures unit_scale/simulate_format really install (name coupling), and leaves"
        " other entries in place. R4: chains simulate->unit_scale and unit_scale->simulate both end as [unit scaling,"
        " quantisation] and leave the intermediate module's list untouched. R5: rerun_transform set on application, cleared"
        " after the Dynamo wrapper is rebuilt, second call reuses it; base_forward taken once (nesting never wraps a wrapped"
        " forward). R6: mutable default arguments are never mutated."
    )
    report.explanation = "abstract interpretation of transforms/utils.py and the transform entry points on abstract module objects; Dynamo itself is an opaque external call"
    report.assumptions += ["copy.deepcopy semantics (modelled: attribute graph cloned)", "equality of outputs between orders and Dynamo caching are not decided", "compile/track_scales backends (class instances) are documented to come last"]

    opq = lambda f: isinstance(f, FuncV) and f.qualname in OPAQUE_HELPERS
    it = Interp(repo, opaque=opq)
    at = it.get_global(TU, "apply_transform")
    if not isinstance(at, FuncV):
        raise AnalysisError("anchor vanished: utils.py::apply_transform")
    cons = f"{TU}::apply_transform"

    # ------------------------------------------------ R1/R2/R5 on two scenarios
    b0, bnew = O("existing_backend"), O("new_backend")
    scen = {
        "fresh module": (mkmodule("m"), []),
        "already transformed": (mkmodule("m", backends=[b0], base_forward=O("true_base_forward"), rerun_transform=False, dynamo_forward=O("old_dynamo_forward")), [b0]),
    }
    for sname, (m, old_list) in scen.items():
        before = snapshot(m)
        it.events = []
        try:
            res = it.call_function(at, [m, bnew], {"non_recurse_functions": [O("leaf_fn")]})
        except Unsupported as ex:
            report.add("R1-copy-before-write", cons, None, f"[{sname}] outside fragment: {ex}")
            continue
        report.add("R1-copy-before-write", f"{cons}::result-is-copy", isinstance(res, Obj) and res is not m, f"[{sname}] returns a new module object", "same object" if res is m else fmt(res), "a deep copy")
        report.add("R1-copy-before-write", f"{cons}::input-untouched", same_snapshot(snapshot(m), before), f"[{sname}] the input module's attributes and backend list are unchanged", sorted(set(snapshot(m)) ^ set(before)) or "same keys", "unchanged")
        dc = [e for e in it.events if e.kind == "call" and e["callee"] == "copy.deepcopy"]
        report.add("R1-copy-before-write", f"{cons}::deepcopy", len(dc) == 1 and dc[0]["args"][0] is m, f"[{sname}] the working copy comes from exactly one copy.deepcopy(module)", len(dc), 1)
        stores = [e for e in it.events if e.kind == "setattr" and e["obj"] is m]
        report.add("R1-copy-before-write", f"{cons}::stores", not stores, f"[{sname}] no attribute store on the input module", [e["attr"] for e in stores], [])
        if not isinstance(res, Obj) or res is m:
            continue
        bl = res.attrs.get("backends")
        okl = isinstance(bl, list) and len(bl) == len(old_list) + 1 and all(x is y for x, y in zip(bl, old_list)) and bl[-1] is bnew and bl is not m.attrs.get("backends")
        report.add("R2-backend-list", f"{cons}::backends", okl, f"[{sname}] result.backends == input.backends + [backend], as its own list object", fmt(bl), fmt(old_list + [bnew]))
        fwd = res.attrs.get("forward")
        report.add("R5-cache-flags", f"{cons}::rerun_transform", res.attrs.get("rerun_transform") is True, f"[{sname}] rerun_transform is set on (re)application", fmt(res.attrs.get("rerun_transform")), True)
        want_base = before.get("base_forward", before["forward"])
        report.add("R5-cache-flags", f"{cons}::base_forward", res.attrs.get("base_forward") is want_base, f"[{sname}] base_forward is the un-transformed forward (taken once; nesting never wraps a wrapped forward)", fmt(res.attrs.get("base_forward")), fmt(want_base))
        if not isinstance(fwd, FuncV):
            report.add("R5-cache-flags", f"{cons}::forward", False, f"[{sname}] forward must be replaced by the lazy re-tracing wrapper", fmt(fwd), "new_forward")
            continue
        # first and second call of the wrapper
        x = P("x", None)
        for call_no in (1, 2):
            it.events = []
            try:
                out = it.call_function(fwd, [x], {})
            except Unsupported as ex:
                report.add("R5-cache-flags", f"{cons}::new_forward", None, f"[{sname}] outside fragment: {ex}")
                break
            opt = [e for e in it.events if e.kind == "call" and e["callee"] == "torch._dynamo.optimize"]
            if call_no == 1:
                okc = len(opt) == 1 and isinstance(opt[0]["args"][0], FuncV) and opt[0]["args"][0].qualname.endswith("composite_backend")
                report.add("R5-cache-flags", f"{cons}::new_forward::first-call", okc, f"[{sname}] first call re-traces once with the composite backend", len(opt), 1)
                if okc:
                    env = opt[0]["args"][0].env
                    okb = env is not None and env.lookup("backends")[1] is res.attrs.get("backends")
                    report.add("R2-backend-list", f"{cons}::composite-closes-over-list", okb, f"[{sname}] the composite backend iterates the module's own backend list object (later re-ordering is seen)", "same list" if okb else "other", "result.backends")
                resets = [i_ for i_, e in enumerate(it.events) if e.kind == "call" and e["callee"] == "torch._dynamo.reset"]
                opt_at = [i_ for i_, e in enumerate(it.events) if e.kind == "call" and e["callee"] == "torch._dynamo.optimize"]
                report.add("R5-cache-flags", f"{cons}::new_forward::dynamo-reset", bool(resets) and bool(opt_at) and resets[0] < opt_at[0], f"[{sname}] Dynamo's compile caches are reset before the module is re-traced (otherwise the 9th module of one class exceeds the recompile limit and silently runs un-transformed)", len(resets), ">=1 before optimize", nontrivial=False)
                applied = [e for e in it.events if e.kind == "callv" and is_optimize_result(e["callee"])]
                report.add("R5-cache-flags", f"{cons}::new_forward::module", len(applied) == 1 and (applied[0]["args"][0] is res or isinstance(applied[0]["args"][0], FuncV)), f"[{sname}] Dynamo wraps the copy", len(applied), 1, nontrivial=False)
                report.add("R5-cache-flags", f"{cons}::new_forward::flag-cleared", res.attrs.get("rerun_transform") is False, f"[{sname}] rerun_transform is cleared after the wrapper is rebuilt", fmt(res.attrs.get("rerun_transform")), False)
            else:
                report.add("R5-cache-flags", f"{cons}::new_forward::second-call", len(opt) == 0, f"[{sname}] a repeated call reuses the cached wrapper (every earlier transform applied exactly once)", len(opt), 0)
            pat = [e for e in it.events if e.kind == "call" and e["callee"].endswith("patch.object")]
            def _pa(e, i, name):
                return e["args"][i] if len(e["args"]) > i else e["kwargs"].get(name)

            pat = [e for e in pat if _pa(e, 0, "target") is res]  # patches of other objects (Dynamo internals) are not this rule's
            okp = len(pat) == 1 and _pa(pat[0], 1, "attribute") == "forward" and _pa(pat[0], 2, "new") is res.attrs.get("base_forward")
            report.add("R5-cache-flags", f"{cons}::new_forward::patch", okp, f"[{sname}] call {call_no}: the traced call sees base_forward as module.forward", len(pat), 1, nontrivial=False)

    check_root_entry(report, repo, "R7-dynamo-entry")

    # ------------------------------------------------ R1 no sharing between the input and the working copy
    # (a module with a trainable and a frozen parameter and a buffer-like tensor attribute: whatever the copy
    # holds must be its own object -- a later in-place change of the result must not reach the input)
    def mkp(label: str, trainable: bool) -> Obj:
        return Obj("torch.nn.parameter.Parameter", attrs={"requires_grad": trainable, "data": P(f"{label}.data", None), "_label": label}, open_attrs=False)

    for sname, flags in (("trainable and frozen parameters", (True, False)), ("all parameters frozen", (False, False)), ("all parameters trainable", (True, True))):
        pw, pt = mkp("w", flags[0]), mkp("table", flags[1])
        child = mkmodule("child", _params=[("table", pt)], table=pt)
        m = mkmodule("m", _params=[("w", pw)], w=pw, running_stat=P("running_stat", None))
        m.attrs["_children"] = [("child", child)]
        m.attrs["child"] = child
        it.events = []
        try:
            res = it.call_function(at, [m, bnew], {})
        except Unsupported as ex:
            report.add("R1-copy-before-write", f"{cons}::no-sharing", None, f"[{sname}] outside fragment: {ex}")
            continue
        if not isinstance(res, Obj) or res is m:
            report.add("R1-copy-before-write", f"{cons}::no-sharing", False, f"[{sname}] returns a new module object", fmt(res), "a deep copy")
            continue
        rc = res.attrs.get("child")
        pairs = [("w", res.attrs.get("w"), pw), ("child", rc, child), ("child.table", rc.attrs.get("table") if isinstance(rc, Obj) else None, pt), ("running_stat", res.attrs.get("running_stat"), m.attrs["running_stat"])]
        shared = [nm for nm, new_, old_ in pairs if new_ is old_]
        missing = [nm for nm, new_, old_ in pairs if new_ is None]
        report.add("R1-copy-before-write", f"{cons}::no-sharing", not shared and not missing, f"[{sname}] parameters (trainable or frozen), sub-modules and tensors of the result are the copy's own objects, none shared with the input", {"shared": shared, "missing": missing}, {"shared": [], "missing": []})

    # ------------------------------------------------ R2 composition order
    cb = it.get_global(TU, "_compose_backends")
    b1, b2, b3 = O("b1"), O("b2"), O("b3")
    try:
        comp = it.call_function(cb, [[b1, b2, b3]], {})
        it.events = []
        out = it.call_function(comp, [O("gm"), O("example_inputs")], {})
        calls = [e for e in it.events if e.kind == "callv" and fmt(e["callee"]) in ("b1", "b2", "b3")]
        order = [fmt(e["callee"]) for e in calls]
        chain_ok = order == ["b1", "b2", "b3"]
        prev = T("param", ("gm",))
        for e in calls:
            chain_ok = chain_ok and TM.term_of(e["args"][0]) == prev and TM.term_of(e["args"][1]) == T("param", ("example_inputs",))
            prev = T("callv", (TM.term_of(e["callee"]), tuple(TM.term_of(a) for a in e["args"]), ()))
        chain_ok = chain_ok and TM.term_of(out) == prev
        report.add("R2-backend-list", f"{TU}::_compose_backends", chain_ok, "each backend is applied exactly once, in list order, to the previous backend's result", order, ["b1", "b2", "b3"])
        # a recompilation calls the same composite backend again: every backend must be applied again
        it.events = []
        out2 = it.call_function(comp, [O("gm2"), O("example_inputs")], {})
        order2 = [fmt(e["callee"]) for e in it.events if e.kind == "callv" and fmt(e["callee"]) in ("b1", "b2", "b3")]
        report.add("R2-backend-list", f"{TU}::_compose_backends::recompile", order2 == ["b1", "b2", "b3"] and TM.term_of(out2) != T("param", ("gm2",)), "a second invocation of the composite backend (Dynamo recompiles on a new input shape / after reset) applies every backend again", order2, ["b1", "b2", "b3"])
    except Unsupported as ex:
        report.add("R2-backend-list", f"{TU}::_compose_backends", None, f"outside fragment: {ex}")

    # ------------------------------------------------ R4 chains in both orders (backends identified by provenance)
    u = q = None
    try:
        us = it.get_global(US, "unit_scale")
        sf = it.get_global(SF, "simulate_format")
        FMT = "unit_scaling/formats.py"
        fcls = it.get_global(FMT, "FPFormat")
        f1, f2 = it.call_function(fcls, [4, 3], {}), it.call_function(fcls, [5, 2], {})
        # every public transform entry point returns a new module and leaves its argument alone -- also for
        # formats that lose nothing in float32 (a "nothing to simulate" shortcut must still copy)
        lossless = it.call_function(fcls, [8, 23, "nearest"], {})
        entries = [
            ("simulate_format(m, E4M3, E5M2)", lambda m_: it.call_function(sf, [m_, f1, f2], {})),
            ("simulate_format(m, E8M23-nearest, E8M23-nearest)", lambda m_: it.call_function(sf, [m_, lossless, lossless], {})),
            ("simulate_fp8(m)", lambda m_: it.call_function(it.get_global(SF, "simulate_fp8"), [m_], {})),
            ("unit_scale(m)", lambda m_: it.call_function(us, [m_], {})),
            ("track_scales(m)", lambda m_: it.call_function(it.get_global("unit_scaling/transforms/_track_scales.py", "track_scales"), [m_], {})),
        ]
        for ename, run_ in entries:
            m_in = mkmodule("m")
            snap = snapshot(m_in)
            try:
                r_ = run_(m_in)
            except Unsupported as ex:
                report.add("R1-copy-before-write", f"{TU}::entry[{ename}]", None, f"outside fragment: {ex}")
                continue
            fresh_ = isinstance(r_, Obj) and r_ is not m_in
            report.add("R1-copy-before-write", f"{TU}::entry[{ename}]", fresh_ and same_snapshot(snapshot(m_in), snap), f"{ename} returns a new module object and leaves m untouched", ("same object" if r_ is m_in else fmt(r_)[:80]) if not fresh_ else ("argument modified" if not same_snapshot(snapshot(m_in), snap) else "copy"), "a transformed copy")
        for cname, chain in (("unit_scale(simulate_format(m))", ("q", "u")), ("simulate_format(unit_scale(m))", ("u", "q"))):
            m0 = mkmodule("m")
            cur = m0
            mids = []
            added: Dict[str, Any] = {}
            for step in chain:
                mids.append((cur, snapshot(cur)))
                prev_list = list(cur.attrs.get("backends", []))
                cur = it.call_function(sf, [cur, f1, f2], {}) if step == "q" else it.call_function(us, [cur], {})
                new = [b for b in (cur.attrs.get("backends", []) if isinstance(cur, Obj) else []) if not any(b is p_ for p_ in prev_list)]
                added[step] = new[0] if len(new) == 1 else None
            final = cur.attrs.get("backends", []) if isinstance(cur, Obj) else []
            ok = len(final) == 2 and added.get("u") is not None and added.get("q") is not None and final[0] is added["u"] and final[1] is added["q"]
            names = [getattr(b, "qualname", fmt(b)) for b in final]
            report.add("R4-chains", f"{US}::unit_scale+simulate_format", ok, f"{cname}: the backend list must end as [the backend unit_scale installed, the backend simulate_format installed] (unit scaling is recognised through its closure's __qualname__)", names, "[unit scaling, quantisation]")
            oku = all(same_snapshot(snapshot(o), s_) for o, s_ in mids)
            report.add("R4-chains", f"{US}::unit_scale+simulate_format::originals", oku, f"{cname}: the original and the intermediate module (incl. its backend list) are left untouched", "changed" if not oku else "unchanged", "unchanged")
            u, q = added.get("u") or u, added.get("q") or q
    except Unsupported as ex:
        report.add("R4-chains", f"{US}::unit_scale+simulate_format", None, f"outside fragment: {ex}")
        chains_unsupported = str(ex)

    # ------------------------------------------------ R3 name coupling / reorder helper
    ob = it.get_global(US, "_order_backends")
    try:
        if (u is None or q is None) and "chains_unsupported" in dir():
            report.add("R3-reorder", f"{US}::_order_backends", None, f"the backends installed by unit_scale / simulate_format could not be obtained (outside fragment: {chains_unsupported})")
        elif u is None or q is None:
            report.add("R3-reorder", f"{US}::_order_backends", False, "could not identify the backends installed by unit_scale / simulate_format")
        else:
            other = it.call_function(it.get_global(TU, "_compose_backends"), [[b1]], {})
            uq, qq = getattr(u, "qualname", None), getattr(q, "qualname", None)
            report.note("backend_qualnames", [uq, qq])
            cases = {
                "[quant, unit]": ([q, u], [u, q]),
                "[unit, quant]": ([u, q], [u, q]),
                "[other, quant, unit]": ([other, q, u], [other, u, q]),
                "[quant, other, unit]": ([q, other, u], [u, q, other]),
                "[unit]": ([u], [u]),
                "[quant]": ([q], [q]),
            }
            for cname, (inp, exp) in cases.items():
                lst = list(inp)
                it.call_function(ob, [lst], {})
                ok = len(lst) == len(exp) and all(x is y for x, y in zip(lst, exp))
                report.add("R3-reorder", f"{US}::_order_backends", ok, f"{cname}: unit scaling must end up immediately before the quantisation backend (recognised through the installed closures' __qualname__ = {uq!r} / {qq!r})", [getattr(x, "qualname", "?") for x in lst], [getattr(x, "qualname", "?") for x in exp])
    except Unsupported as ex:
        report.add("R3-reorder", f"{US}::_order_backends", None, f"outside fragment: {ex}")

    # ------------------------------------------------ R1 for the other entry points (mutations only on the result)
    it2 = Interp(repo, opaque=lambda f: isinstance(f, FuncV) and f.qualname in ("apply_transform",) + OPAQUE_HELPERS)
    for rel, fname in ((TS, "track_scales"), (CP, "compile"), (SF, "simulate_format"), (SF, "simulate_fp8")):
        f = it2.get_global(rel, fname)
        m = mkmodule("m")
        before = snapshot(m)
        it2.events = []
        extra = [Obj("FPFormat", term=T("param", ("f1",))), Obj("FPFormat", term=T("param", ("f2",)))] if fname == "simulate_format" else []
        cons2 = f"{rel}::{fname}"
        try:
            res = it2.call_function(f, [m, *extra], {})
        except Unsupported as ex:
            report.add("R1-copy-before-write", cons2, None, f"outside fragment: {ex}")
            continue
        ap = [e for e in it2.events if e.kind == "call" and e["callee"].endswith("apply_transform")]
        ok = len(ap) == 1 and ap[0]["bound"].get("module") is m and same_snapshot(snapshot(m), before)
        stores = [e for e in it2.events if e.kind == "setattr" and e["obj"] is m]
        report.add("R1-copy-before-write", cons2, ok and not stores and TM.term_of(res) == ap[0]["result"] if ap else False, "goes through apply_transform(module, ...) once, returns its result, never stores on the argument", f"apply_transform x{len(ap)}, stores on input: {[e['attr'] for e in stores]}", "1, []")
        if fname == "track_scales" and ap:
            st = [e for e in it2.events if e.kind == "setattr" and e["attr"] == "forward"]
            okh = len(st) >= 1 and all(TM.term_of(e["obj"]) == ap[0]["result"] for e in st)
            report.add("R1-copy-before-write", f"{cons2}::requires-grad-shim", okh, "the requires-grad shim replaces forward on the returned copy only", len(st), ">=1", nontrivial=False)

    # ------------------------------------------------ R6 mutable defaults never mutated
    MUT = {"append", "extend", "insert", "pop", "remove", "clear", "update", "setdefault", "popitem", "sort", "reverse", "add", "discard"}
    n_def = 0
    for rel in (TU, US, SF, TS):
        mod = repo.module(rel)
        for fn_ in [n for n in ast.walk(mod.tree) if isinstance(n, (ast.FunctionDef, ast.AsyncFunctionDef))]:
            a = fn_.args
            params = a.posonlyargs + a.args
            defaults = [None] * (len(params) - len(a.defaults)) + list(a.defaults)
            for p, d in list(zip(params, defaults)) + list(zip(a.kwonlyargs, a.kw_defaults)):
                if d is None:
                    continue
                mutable = isinstance(d, (ast.List, ast.Dict, ast.Set)) or (isinstance(d, ast.Call) and isinstance(d.func, ast.Name) and d.func.id in ("list", "dict", "set"))
                if not mutable:
                    continue
                n_def += 1
                bad = []
                for n in ast.walk(fn_):
                    if isinstance(n, ast.Call) and isinstance(n.func, ast.Attribute) and isinstance(n.func.value, ast.Name) and n.func.value.id == p.arg and n.func.attr in MUT:
                        bad.append(f"{p.arg}.{n.func.attr}() at line {n.lineno}")
                    if isinstance(n, (ast.Assign, ast.AugAssign)):
                        tgts = n.targets if isinstance(n, ast.Assign) else [n.target]
                        for t in tgts:
                            if isinstance(t, ast.Subscript) and isinstance(t.value, ast.Name) and t.value.id == p.arg:
                                bad.append(f"{p.arg}[...] = at line {n.lineno}")
                            if isinstance(n, ast.AugAssign) and isinstance(t, ast.Name) and t.id == p.arg:
                                bad.append(f"{p.arg} {type(n.op).__name__}= at line {n.lineno}")
                    if isinstance(n, ast.Delete):
                        for t in n.targets:
                            if isinstance(t, ast.Subscript) and isinstance(t.value, ast.Name) and t.value.id == p.arg:
                                bad.append(f"del {p.arg}[...] at line {n.lineno}")
                report.add("R6-mutable-defaults", f"{rel}::{fn_.name}::{p.arg}", not bad, "a mutable default argument is shared between calls and must never be mutated; " + "; ".join(bad), bad, [], nontrivial=bool(bad))
    report.floor("mutable default arguments found", n_def, 3)
    report.floor("obligations", len(report.obls), 40)
