"""C12 -- width-independent updates as a cross-file product law:
out_scale(op, constraint) x adam_lr_factor(tag, ndim, depth) x fan-in count == depth^-1/2."""
from __future__ import annotations

from typing import Any, Dict

import sympy as sp

from .. import schemas as SC
from .. import terms as TM
from ..absint import Interp, Unsupported
from .common import public_functional
from ..core import AnalysisError, Report, Repo
from ..optable import FUNCTIONAL, summarise
from ..schemas import O, P, dim
from ..values import ClassV, FuncV, Obj, Shape, T, TV, fmt
from .c10 import Dp, mkparam

MD = "unit_scaling/_modules.py"
OP = "unit_scaling/optim.py"
half = sp.Rational(1, 2)

CTOR_ARGS = {
    "Linear": dict(in_features=dim("I"), out_features=dim("O")),
    "LinearReadout": dict(in_features=dim("I"), out_features=dim("O")),
    "Conv1d": dict(in_channels=dim("Cg"), out_channels=dim("Co"), kernel_size=dim("k")),
}


def check(report: Report, repo: Repo) -> None:
    report.rule_text = (
        "For M in {Linear, LinearReadout, Conv1d}: (a) from _modules.py: the functional M.forward calls, the constraint"
        " it is given (the constructor default, or None) and the weight's mup tag at its Parameter(...) site;"
        " (b) from functional.py: the output scale of that functional under that constraint (symbolic sizes);"
        " (c) from optim.py: the Adam factor for that tag/ndim with depth None and symbolic D."
        " Obligation: simplify(out_scale * lr_factor * n_in - D^-1/2) == 0 with n_in = weights feeding one output"
        " (I; Cg*k at one output position)."
    )
    report.explanation = "cross-file algebraic law over expressions extracted from three files; widths, kernel and depth symbolic"
    report.assumptions += ["Adam/AdamW first step with eps=0 moves each weight by lr_eff*sign(g)", "+-1 inputs: each of the n_in products contributes |dw| to the output change with aligned sign"]

    def opq(f):
        return (public_functional(f) or (isinstance(f, FuncV) and f.qualname == "Parameter")) 

    it = Interp(repo, opaque=opq)
    ito = Interp(repo)
    adam = ito.get_global(OP, "lr_scale_func_adam")
    n = 0
    for cname, ctor in CTOR_ARGS.items():
        cls = it.get_global(MD, cname)
        if not isinstance(cls, ClassV):
            raise AnalysisError(f"anchor vanished: {MD}::{cname}")
        cons = f"{MD}::{cname}"
        selfv = Obj(f"unit_scaling._modules.{cname}", cls=cls, term=T("param", ("self",)))
        try:
            it.events = []
            it.call_function(it.class_attr(cls, "__init__"), [selfv], dict(ctor))
            w = selfv.attrs.get("weight")
            wt = TM.term_of(w)
            tag = None
            if isinstance(wt, T) and wt.op == "call" and str(wt.args[0]).endswith("parameter.Parameter"):
                tag = dict(wt.args[1]).get("mup_type")
            if not isinstance(tag, str):
                report.add("tag", f"{cons}::weight", False, "weight is not wrapped by Parameter(..., mup_type=<literal>) at construction", fmt(wt), "Parameter(weight, mup_type=...)")
                continue
            default_constraint = selfv.attrs.get("constraint", "<unset>")
            # forward with the module's own attributes
            it.events = []
            x = P("input", (dim("B"), ctor.get("in_features", dim("Cg")), ) if cname != "Conv1d" else (dim("B"), dim("Cg"), dim("k")))
            selfv.attrs.setdefault("padding_mode", "zeros")
            it.call_function(it.class_attr(cls, "forward"), [selfv, x], {})
            calls = [e for e in it.events if e.kind == "call" and str(e["callee"]).startswith("unit_scaling.functional.")]
            if len(calls) != 1:
                report.add("delegate", f"{cons}.forward", False, f"forward must call exactly one unit-scaled function, found {[e['callee'] for e in calls]}")
                continue
            fn = calls[0]["callee"].rsplit(".", 1)[1]
            passed = calls[0]["bound"].get("constraint")
        except Unsupported as e:
            report.add("extract", cons, None, f"outside fragment: {e}")
            continue
        # the constraint in effect when the layer is left at its default
        eff_default = passed
        if isinstance(passed, TV) and passed.term == T("attr", (T("param", ("self",)), "constraint")):
            eff_default = default_constraint
        ndim = 3 if cname == "Conv1d" else 2
        for label, cval in (("default", eff_default), ("None", None)):
            if not (cval is None or isinstance(cval, str)):
                report.add("law", f"{cons}::constraint[{label}]", None, f"constraint in effect is not a literal: {fmt(cval)}")
                continue
            if fn == "conv1d":
                sch = SC.conv1d_schemas("quick", cval)[0]
            else:
                sch = [s for s in SC.linear_schemas("quick", cval, fn=fn) if "lead=1" in s.name or "lead=2" in s.name][0]
            summ = summarise(repo, fn, sch)
            if summ.error or not summ.cases:
                report.add("law", f"{cons}::out_scale", None, f"cannot summarise {fn}: {summ.error}")
                continue
            out_scale = summ.cases[0].out_fwd
            wshape = sch.args["weight"].shape
            n_in = wshape[1] if ndim == 2 else wshape[1] * wshape[2]
            for depth in (None, Dp):
                p = mkparam(tag, ndim, depth)
                p.attrs["shape"] = Shape(tuple(wshape))
                try:
                    fac = ito.call_function(adam, [p], {})
                except Unsupported as e:
                    report.add("law", f"{OP}::lr_scale_func_adam", None, f"outside fragment: {e}")
                    continue
                target = 1 if depth is None else depth ** -half
                prod = None
                try:
                    prod = sp.simplify(sp.sympify(out_scale) * sp.sympify(fac) * n_in)
                    ok = TM.expr_equal(prod, target)
                except Exception:
                    ok = None
                n += 1
                report.add(
                    "law",
                    f"{cons}::update-size[{label}]",
                    ok,
                    f"{cname} -> U.{fn}(constraint={cval!r}) out_scale={fmt(out_scale)}; tag '{tag}' ndim {ndim} Adam factor={fmt(fac)}; n_in={fmt(n_in)}; depth={'None' if depth is None else 'D'}",
                    fmt(prod),
                    fmt(target),
                )
    report.floor("product-law instances", n, 12)
    # the law is stated for Adam with eps=0 and no weight decay: a parameter group configured that way must
    # reach torch's optimizer with exactly those settings (a dropped eps=0 silently becomes 1e-8)
    sp_f = ito.get_global(OP, "scaled_parameters")
    eta = SC.hyper("eta")
    pz = mkparam("weight", 2, None)
    cons = f"{OP}::scaled_parameters::group-options"
    for indep in (True, False):
        try:
            grp = {"params": [pz], "eps": sp.Integer(0), "weight_decay": sp.Integer(0), "amsgrad": False}
            res = ito.call_function(sp_f, [[grp], adam], {"lr": eta, "independent_weight_decay": indep})
            g0 = res[0] if isinstance(res, list) and len(res) == 1 and isinstance(res[0], dict) else None
            ok = g0 is not None and "eps" in g0 and TM.expr_equal(g0["eps"], 0) is True and TM.expr_equal(g0.get("weight_decay"), 0) is True and g0.get("amsgrad", "<dropped>") is False
            report.add("law", cons, ok, f"independent_weight_decay={indep}: a group with eps=0, weight_decay=0, amsgrad=False keeps exactly these settings in the per-parameter group", fmt({k: v for k, v in (g0 or {}).items() if k != "params"}), "eps=0, weight_decay=0, amsgrad=False")
        except Unsupported as e:
            report.add("law", cons, None, f"outside fragment: {e}")
    # the depth D entering the law is the tag the depth containers record: must be the number of layers
    from .c08 import check_depth_containers

    check_depth_containers(report, repo, "depth-tag")
