"""C15 -- format simulation = straight-through quantisation at matmul boundaries."""
from __future__ import annotations

import ast
from typing import Any, Dict, List, Set, Tuple

import sympy as sp

from .. import terms as TM
from ..absint import Interp, Unsupported
from .common import public_functional
from ..core import AnalysisError, Report, Repo
from ..oracle import oracle_function, std_globals
from ..schemas import O, P
from ..values import BOTTOM, ClassV, ExtV, FuncV, ModV, Obj, T, TV, fmt
from .fmtcommon import E, FM, M, SR, mkformat

SF = "unit_scaling/transforms/_simulate_format.py"

REF_WRAPPERS = '''
def ref3(OP, a, b, c, fwd_format_tuple, bwd_format_tuple, quantise_c, extra_args, extra_kwargs):
    fwd = tuple_to_format(fwd_format_tuple)
    bwd = tuple_to_format(bwd_format_tuple)
    a = fwd.quantise_fwd(a)
    b = fwd.quantise_fwd(b)
    if quantise_c:
        c = fwd.quantise_fwd(c)
    out = OP(a, b, c, *extra_args, **extra_kwargs)
    return bwd.quantise_bwd(out)
'''

# key of _replacement_map -> (names of the op's first three parameters, is the third a
# tensor operand to quantise?, further positional parameters the op accepts)
OPS = {
    "torch.nn.functional.linear": (("input", "weight", "bias"), False, ()),
    "unit_scaling.functional.linear": (("input", "weight", "bias"), False, ("constraint",)),
    "torch.nn.functional.scaled_dot_product_attention": (("query", "key", "value"), True, ("attn_mask", "dropout_p", "is_causal")),
    "unit_scaling.functional.scaled_dot_product_attention": (("query", "key", "value"), True, ("attn_mask", "dropout_p", "is_causal", "mult")),
}


def keyname(k: Any) -> str:
    if isinstance(k, ExtV):
        return k.name
    if isinstance(k, FuncV):
        return f"{k.module.name}.{k.qualname}"
    return fmt(k)


def fields_read_by_quantise(repo: Repo) -> Set[str]:
    """The FPFormat fields whose value reaches FPFormat.quantise, found by evaluating quantise on
    format objects whose field reads are recorded (stochastic and nearest rounding): every route
    the code takes to a field -- helper methods, properties, dispatch tables -- is followed."""
    it = Interp(repo)
    read: Set[str] = set()
    for rounding, sr in (("stochastic", SR), ("nearest", 0)):
        fo = mkformat(it, rounding, sr)
        for fld in list(fo.attrs):
            fo.dyn[fld] = lambda fld=fld, fo=fo: (read.add(fld), fo.attrs[fld])[1]
        it.data_syms = {}
        it.call_function(it.class_attr(fo.cls, "quantise"), [fo, P("x", None)], {})
    return read


def check_per_format(report: Report, repo: Repo, rule: str) -> None:
    """History independence of quantise_fwd / quantise_bwd across format objects."""
    it = Interp(repo, opaque=lambda f: isinstance(f, FuncV) and f.qualname == "FPFormat.quantise")
    # R1b history independence: a second format that prints the same (E4M3-SR) but differs in its
    # random-bit count / an equal-looking format object must get its *own* quantiser
    pairs = [
        ("same exponent/mantissa/rounding, other srbits", ("stochastic", SR), ("stochastic", SR + 1)),
        ("same exponent/mantissa, stochastic first then nearest", ("stochastic", SR), ("nearest", 0)),
        ("same exponent/mantissa, nearest first then stochastic", ("nearest", 0), ("stochastic", SR)),
    ]
    for plabel, a_, b_ in pairs:
        it = Interp(repo, opaque=lambda f: isinstance(f, FuncV) and f.qualname == "FPFormat.quantise")  # a fresh process state
        try:
            fa = mkformat(it, *a_)
            fb = mkformat(it, *b_)
            for meth in ("quantise_fwd", "quantise_bwd"):
                used = []
                for fo in (fa, fb):
                    it.events = []
                    it.call_function(it.class_attr(fo.cls, meth), [fo, P("x", None)], {})
                    ag = [e for e in it.events if e.kind == "autograd"]
                    if len(ag) != 1:
                        used.append(None)
                        continue
                    pas = "forward" if meth == "quantise_fwd" else "backward"
                    r = it.call_function(it.class_attr(ag[0]["cls"], pas), [Obj("ctx", term=T("param", ("ctx",))), P("t", None)], {})
                    rt = TM.term_of(r)
                    used.append(dict(rt.args[1]).get("self") if isinstance(rt, T) and rt.op == "call" else None)
                ok = used == [TM.term_of(fa), TM.term_of(fb)]
                report.add(rule, f"{FM}::FPFormat.{meth}::per-format", ok, f"{meth} on a second format object ({plabel}) after a first one must quantise with the second format (no cross-call caching keyed by part of the format)", fmt(used), fmt([TM.term_of(fa), TM.term_of(fb)]))
        except Unsupported as ex:
            report.add(rule, f"{FM}::FPFormat.quantise_fwd::per-format", None, f"outside fragment: {ex}")


def check(report: Report, repo: Repo) -> None:
    report.rule_text = (
        "R1: QuantiseForward.forward returns self.quantise(x) and backward returns its gradient argument itself;"
        " QuantiseBackward.forward returns x itself and backward returns self.quantise(grad); each applied via .apply(x)."
        " R2: for every entry key->wrapper of _replacement_map the wrapper's dataflow term equals the reference"
        " (tensor operands through fwd.quantise_fwd, bias/mask/scalars untouched, the op called is the key itself with all"
        " remaining arguments, result through bwd.quantise_bwd; formats rebuilt from the 4th/5th parameter)."
        " R3: tuple_to_format(format_to_tuple(f)) restores every field FPFormat.quantise reads (exponent_bits,"
        " mantissa_bits, rounding, srbits). R4: the argument splice of _replace_with_quantised binds, for positional,"
        " omitted and keyword forms of the op's arguments, to the wrapper's signature with every original argument in"
        " its own role. R5: the backend rewrites exactly the call_function nodes whose target is in the map, lints,"
        " returns a GraphModule; simulate_fp8 = E4M3 forward / E5M2 backward; simulate_format passes (fwd, bwd) in order."
    )
    report.explanation = "abstract interpretation of formats.py and transforms/_simulate_format.py on hand-built abstract FX nodes; no tracing"
    report.assumptions += ["what TorchDynamo captures is not decided", "torch.fx semantics of replace_node_with_function (args given, kwargs re-attached from the source node) as read from transforms/utils.py"]

    # ------------------------------------------------------------ R1 straight-through
    opq_q = lambda f: isinstance(f, FuncV) and f.qualname == "FPFormat.quantise"
    it = Interp(repo, opaque=opq_q)
    fobj = mkformat(it, "nearest", 0)
    for meth, fwd_is_q in (("quantise_fwd", True), ("quantise_bwd", False)):
        cons = f"{FM}::FPFormat.{meth}"
        x = P("x", None)
        it.events = []
        try:
            res = it.call_function(it.class_attr(fobj.cls, meth), [fobj, x], {})
        except Unsupported as ex:
            report.add("R1-straight-through", cons, None, f"outside fragment: {ex}")
            continue
        ag = [e for e in it.events if e.kind == "autograd"]
        if len(ag) != 1 or not isinstance(res, TV) or res.term != ag[0]["result"].term:
            report.add("R1-straight-through", cons, False, "must return <autograd function>.apply(x)", fmt(res), "Function.apply(x)")
            continue
        report.add("R1-straight-through", f"{cons}::apply-args", [TM.term_of(a) for a in ag[0]["args"]] == [x.term], "the autograd function is applied to x alone", fmt(ag[0]["args"]), "(x,)", nontrivial=False)
        cls = ag[0]["cls"]
        ctx = Obj("ctx", term=T("param", ("ctx",)))
        qcall = lambda v: T("call", ("unit_scaling.formats.FPFormat.quantise", (("self", TM.term_of(fobj)), ("x", v))))
        for pas, arg, quantised in (("forward", P("x", None), fwd_is_q), ("backward", P("grad_y", None), not fwd_is_q)):
            fn_ = it.class_attr(cls, pas)
            try:
                r = it.call_function(fn_, [ctx, arg], {})
            except Unsupported as ex:
                report.add("R1-straight-through", f"{cons}::{pas}", None, f"outside fragment: {ex}")
                continue
            exp = qcall(arg.term) if quantised else arg.term
            report.add("R1-straight-through", f"{cons}::{pas}", TM.term_equal(TM.term_of(r), exp), f"{pas} must return " + ("self.quantise(<its tensor argument>)" if quantised else "its tensor argument itself, unchanged"), fmt(r), fmt(exp))

    check_per_format(report, repo, "R1-straight-through")

    # ------------------------------------------------------------ R2 wrappers
    opq = lambda f: (public_functional(f)) or isinstance(f, FuncV) and (f.qualname in ("tuple_to_format", "format_to_tuple", "replace_node_with_function", "_replace_with_quantised", "apply_transform", "simulate_format"))
    it2 = Interp(repo, opaque=opq)
    rmap = it2.get_global(SF, "_replacement_map")
    if not isinstance(rmap, dict):
        raise AnalysisError("anchor vanished: _simulate_format.py::_replacement_map is not a literal dict")
    g = std_globals(it2)
    g["tuple_to_format"] = it2.get_global(FM, "tuple_to_format")
    ref = oracle_function(it2, "ref3", REF_WRAPPERS, g)
    keys = {keyname(k): (k, w) for k, w in rmap.items()}
    report.note("replacement_map_keys", sorted(keys))
    for kn in OPS:
        if kn not in keys:
            report.add("R2-wrappers", f"{SF}::_replacement_map[{kn}]", False, "linear / attention operation (plain or unit-scaled) is missing from the replacement map", sorted(keys), kn)
    for kn, (k, w) in keys.items():
        cons = f"{SF}::{getattr(w, 'qualname', fmt(w))}"
        if kn not in OPS:
            report.add("R2-wrappers", cons, None, f"replacement-map key {kn} is not in the frozen op table")
            continue
        if not isinstance(w, FuncV):
            report.add("R2-wrappers", cons, False, "map value is not a module-level function")
            continue
        names3, q3, more = OPS[kn]
        a, b, c = (P(n, None) for n in names3)
        ft, bt = O("fwd_format_tuple"), O("bwd_format_tuple")
        scen: List[Tuple[str, List[Any], Dict[str, Any]]] = [("no extra arguments", [], {})]
        if more:
            scen.append(("extra keyword arguments", [], {m: O(m) for m in more}))
        for sname, ea, ek in scen:
            try:
                it2.events = []
                got = it2.call_function(w, [a, b, c, ft, bt, *ea], dict(ek))
                exp = it2.call_function(ref, [k, a, b, c, ft, bt, q3, tuple(ea), dict(ek)], {})
            except Unsupported as ex:
                report.add("R2-wrappers", cons, False if "unexpected keyword" in str(ex) or "too many positional" in str(ex) else None, f"{sname}: {ex}")
                continue
            gt, et = TM.normalize(TM.term_of(got)), TM.normalize(TM.term_of(exp))
            r = TM.term_equal(gt, et)
            report.add("R2-wrappers", cons, r, f"{sname}: wrapper must equal quantise_fwd(tensor operands) -> {kn} -> quantise_bwd; " + (TM.first_diff(gt, et) if r is not True else ""), fmt(gt), fmt(et))
        # one tensor passed in every operand position (self-attention on a single tensor, a square layer
        # applied to its own weight): each operand is still quantised on its own (independent rounding
        # draws and autograd nodes) -- counted as applications of quantise_fwd
        same = P("shared", None)
        try:
            it2.events = []
            it2.call_function(w, [same, same, same if q3 else c, ft, bt], {})
            nq = len([e for e in it2.events if e.kind == "callv" and isinstance(TM.term_of(e["callee"]), T) and TM.term_of(e["callee"]).op == "attr" and TM.term_of(e["callee"]).args[1] == "quantise_fwd"])
            want = 3 if q3 else 2
            report.add("R2-wrappers", f"{cons}::aliased-operands", nq == want, f"the same tensor given as {want} operands is forward-quantised {want} times (once per operand)", nq, want)
        except Unsupported as ex:
            report.add("R2-wrappers", f"{cons}::aliased-operands", None, f"outside fragment: {ex}")

    # ------------------------------------------------------------ R3 lossless transport
    read = fields_read_by_quantise(repo)
    report.note("fields_read_by_quantise", sorted(read))
    report.add("R3-transport", f"{FM}::FPFormat.quantise::fields", read >= {"exponent_bits", "mantissa_bits", "rounding", "srbits"}, "quantise reads the value-set, rounding-mode and random-bit fields", sorted(read), "exponent_bits, mantissa_bits, rounding, srbits", nontrivial=False)
    it3 = Interp(repo)
    cls = it3.get_global(FM, "FPFormat")
    f2t, t2f = it3.get_global(FM, "format_to_tuple"), it3.get_global(FM, "tuple_to_format")
    for label, ctor in (("E,M default (stochastic, all bits)", [E, M]), ("nearest", [E, M, "nearest"]), ("stochastic srbits=s", [E, M, "stochastic", SR])):
        cons = f"{FM}::format_to_tuple::fields"
        try:
            o0 = it3.call_function(cls, list(ctor), {})
            t = it3.call_function(f2t, [o0], {})
            o1 = it3.call_function(t2f, [t], {})
        except Unsupported as ex:
            report.add("R3-transport", cons, None, f"{label}: outside fragment: {ex}")
            continue
        if not isinstance(o1, Obj):
            report.add("R3-transport", cons, False, f"{label}: tuple_to_format does not rebuild an FPFormat", fmt(o1), "FPFormat")
            continue
        for fld in sorted(read):
            v0, v1 = o0.attrs.get(fld), o1.attrs.get(fld)
            ok = (v0 == v1) if isinstance(v0, str) or isinstance(v1, str) else TM.expr_equal(v0, v1)
            report.add("R3-transport", cons, ok, f"{label}: field '{fld}' must survive format_to_tuple/tuple_to_format (it is read by quantise)", f"{fld}={fmt(v1)}", f"{fld}={fmt(v0)}")

    # ------------------------------------------------------------ R4 splice / signature agreement
    rwq = Interp(repo, opaque=lambda f: isinstance(f, FuncV) and f.qualname in ("replace_node_with_function", "format_to_tuple"))
    splice = rwq.get_global(SF, "_replace_with_quantised")
    keys_r = {keyname(k): (k, w) for k, w in rwq.get_global(SF, "_replacement_map").items()}
    for kn, (k, w) in keys_r.items():
        if kn not in OPS or not isinstance(w, FuncV):
            continue
        names3, q3, more = OPS[kn]
        # definite (non-None) argument values
        vals = {n: Obj("value", term=T("param", (f"v_{n}",)), open_attrs=False) for n in names3 + more}
        forms: List[Tuple[str, List[str], List[str]]] = [("all three positional", list(names3), [])]
        if kn.endswith("linear"):
            forms.append(("third omitted", list(names3[:2]), []))
            forms.append(("third by keyword", list(names3[:2]), [names3[2]]))
        for mname in more:
            forms.append((f"'{mname}' by keyword", list(names3), [mname]))
        if more:
            forms.append((f"'{more[0]}' positional", list(names3) + [more[0]], []))
        none_kw = None
        if "constraint" in more:
            none_kw = "constraint"  # an explicit None differs from the default for this parameter
            forms.append(("'constraint'=None by keyword", list(names3), ["constraint=None"]))
        for fname, pos, kws in forms:
            cons = f"{SF}::_replace_with_quantised[{'U' if kn.startswith('unit_scaling') else 'F'}.{kn.rsplit('.', 1)[1]}]"
            explicit_none = [n[:-5] for n in kws if n.endswith("=None")]
            kws = [n for n in kws if not n.endswith("=None")]
            node = Obj("torch.fx.node.Node", attrs=dict(args=tuple(vals[n] for n in pos), kwargs={**{n: vals[n] for n in kws}, **{n: None for n in explicit_none}}, target=k, op="call_function"), term=T("param", ("node",)), open_attrs=False)
            graph = Obj("torch.fx.graph.Graph", term=T("param", ("graph",)))
            ff, bf = Obj("FPFormat", term=T("param", ("fwd_format",))), Obj("FPFormat", term=T("param", ("bwd_format",)))
            rwq.events = []
            try:
                rwq.call_function(splice, [graph, node, ff, bf], {})
            except Unsupported as ex:
                report.add("R4-splice", cons, None, f"{fname}: outside fragment: {ex}")
                continue
            calls = [e for e in rwq.events if e.kind == "call" and e["callee"].endswith("replace_node_with_function")]
            if len(calls) != 1:
                report.add("R4-splice", cons, False, f"{fname}: expected one replace_node_with_function call, found {len(calls)}")
                continue
            b = calls[0]["bound"]
            new_args = b.get("args")
            new_kwargs = b.get("kwargs")
            if new_args is None:
                new_args = node.attrs["args"]
            if new_kwargs is None:
                new_kwargs = node.attrs["kwargs"]  # replace_node_with_function re-attaches source.kwargs
            tgt = b.get("target_fn")
            if not (isinstance(tgt, FuncV) and tgt.node is w.node):
                report.add("R4-splice", cons, False, f"{fname}: replacement target must be the wrapper registered for {kn}", fmt(tgt), w.qualname)
                continue
            if not isinstance(new_args, (tuple, list)) or not isinstance(new_kwargs, dict):
                report.add("R4-splice", cons, None, f"{fname}: spliced arguments are not statically known")
                continue
            try:
                w_sig = rwq.unwrap(w)  # the signature a caller sees (functools.wraps is followed)
                bound = rwq.bind(w_sig if isinstance(w_sig, FuncV) else w, list(new_args), dict(new_kwargs))
            except Unsupported as ex:
                report.add("R4-splice", cons, False, f"{fname}: the rewritten call does not bind to {w.qualname}{ast.unparse(w.node.args)!s:.80}: {ex}", f"args={fmt(tuple(new_args))} kwargs={fmt(new_kwargs)}", "a call that binds")
                continue
            flat = dict(bound)
            for vk in ("kwargs",):
                if isinstance(flat.get(vk), dict):
                    flat.update(flat.pop(vk))
            va = flat.pop("args", None)
            if isinstance(va, tuple) and va:
                # extra positionals are forwarded to the op after its first three parameters
                for nm, v in zip(more, va):
                    flat.setdefault(nm, v)
            okall = True
            for n_ in explicit_none:
                if flat.get(n_, "<absent>") is not None:
                    okall = False
                    report.add("R4-splice", cons, False, f"{fname}: '{n_}=None' of the original call must reach the wrapper as None (for this parameter None is not the default)", fmt(flat.get(n_, "<absent>")), "None")
            for n_ in pos + kws:
                same = TM.term_of(flat.get(n_)) == TM.term_of(vals[n_])
                okall = okall and same
                if not same:
                    report.add("R4-splice", cons, False, f"{fname}: argument '{n_}' lands in the wrong role", fmt(flat.get(n_)), fmt(vals[n_]))
            for pn, src in (("fwd_format_tuple", "fwd_format"), ("bwd_format_tuple", "bwd_format")):
                tv = TM.term_of(flat.get(pn))
                same = isinstance(tv, T) and tv.op == "call" and str(tv.args[0]).endswith("format_to_tuple") and dict(tv.args[1]).get("format") == T("param", (src,))
                okall = okall and same
                if not same:
                    report.add("R4-splice", cons, False, f"{fname}: '{pn}' must be format_to_tuple({src})", fmt(tv), f"format_to_tuple({src})")
            if okall:
                report.add("R4-splice", cons, True, f"{fname}: rewritten call binds with every argument in its role", fmt(tuple(new_args)), "binds")

    # ------------------------------------------------------------ R5 backend sweep and entry points
    it5 = Interp(repo, opaque=lambda f: isinstance(f, FuncV) and f.qualname in ("_replace_with_quantised", "apply_transform", "simulate_format"))
    qb = it5.get_global(SF, "_quantisation_backend")
    ff, bf = Obj("FPFormat", term=T("param", ("fwd_format",))), Obj("FPFormat", term=T("param", ("bwd_format",)))
    cons = f"{SF}::_quantisation_backend"
    try:
        backend = it5.call_function(qb, [ff, bf], {})
        mk = lambda nm, op, tgt: Obj("torch.fx.node.Node", attrs=dict(op=op, target=tgt, args=(), kwargs={}), term=T("param", (nm,)), open_attrs=False)
        nodes = [mk("n_placeholder", "placeholder", "x")]
        expect_hit = []
        keys5 = {keyname(k): (k, w) for k, w in it5.get_global(SF, "_replacement_map").items()}
        for i, (kn, (k, w)) in enumerate(sorted(keys5.items())):
            n_ = mk(f"n_fn{i}", "call_function", k)
            nodes.append(n_)
            expect_hit.append(n_)
            nodes.append(mk(f"n_meth{i}", "call_method", k))  # same target, other opcode: untouched
        nodes.append(mk("n_relu", "call_function", ExtV("torch.relu")))
        nodes.append(mk("n_out", "output", "output"))
        graph = Obj("torch.fx.graph.Graph", attrs=dict(nodes=nodes), term=T("param", ("graph",)))
        gm = Obj("torch.fx.GraphModule", attrs=dict(graph=graph), term=T("param", ("gm",)))
        it5.events = []
        out = it5.call_function(backend, [gm, O("example_inputs")], {})
        calls = [e for e in it5.events if e.kind == "call" and e["callee"].endswith("_replace_with_quantised")]
        hit = [e["bound"].get("node") for e in calls]
        ok = len(hit) == len(expect_hit) and all(h is e_ for h, e_ in zip(hit, expect_hit))
        report.add("R5-backend", f"{cons}::sweep", ok, "exactly the call_function nodes whose target is in the map are rewritten, in graph order", [fmt(h) for h in hit], [fmt(h) for h in expect_hit])
        okf = all(e["bound"].get("fwd_format") is ff and e["bound"].get("bwd_format") is bf and e["bound"].get("graph") is graph for e in calls)
        report.add("R5-backend", f"{cons}::formats", okf, "each rewrite receives (graph, node, fwd_format, bwd_format) in that order", "ok" if okf else "swapped/other", "fwd then bwd")
        lint = [e for e in it5.events if e.kind == "callv" and "lint" in fmt(e["callee"])]
        report.add("R5-backend", f"{cons}::lint", len(lint) == 1, "graph.lint() is called once after the rewrite", len(lint), 1, nontrivial=False)
        ot = TM.term_of(out)
        okr = isinstance(ot, T) and ot.op == "call" and "GraphModule" in str(ot.args[0])
        report.add("R5-backend", f"{cons}::return", okr, "returns a GraphModule built from (gm, graph)", fmt(ot), "GraphModule(gm, graph)", nontrivial=False)
    except Unsupported as ex:
        report.add("R5-backend", cons, None, f"outside fragment: {ex}")
    # simulate_format / simulate_fp8
    try:
        it5.events = []
        sf = it5.get_global(SF, "simulate_format")
        it6 = Interp(repo, opaque=lambda f: isinstance(f, FuncV) and f.qualname in ("apply_transform",))
        sf6 = it6.get_global(SF, "simulate_format")
        mod = Obj("torch.nn.Module", term=T("param", ("module",)))
        it6.call_function(sf6, [mod, ff, bf], {})
        ap = [e for e in it6.events if e.kind == "call" and e["callee"].endswith("apply_transform")]
        okb = len(ap) == 1 and isinstance(ap[0]["bound"].get("backend"), FuncV) and ap[0]["bound"]["backend"].env is not None
        if okb:
            env = ap[0]["bound"]["backend"].env
            f1, v1 = env.lookup("fwd_format")
            f2, v2 = env.lookup("bwd_format")
            okb = f1 and f2 and v1 is ff and v2 is bf and ap[0]["bound"].get("module") is mod
        report.add("R5-backend", f"{SF}::simulate_format", okb, "applies the quantisation backend built from (fwd_format, bwd_format) in that order to the module", "ok" if okb else "mismatch", "apply_transform(module, _quantisation_backend(fwd_format, bwd_format))")
        fp8 = it5.get_global(SF, "simulate_fp8")
        it5.events = []
        it5.call_function(fp8, [mod], {})
        c = [e for e in it5.events if e.kind == "call" and e["callee"].endswith("simulate_format")]
        okf = len(c) == 1
        got = None
        if okf:
            fb, bb = c[0]["bound"].get("fwd_format"), c[0]["bound"].get("bwd_format")
            got = [(getattr(o, "attrs", {}).get("exponent_bits"), getattr(o, "attrs", {}).get("mantissa_bits")) for o in (fb, bb)]
            okf = got == [(4, 3), (5, 2)] and c[0]["bound"].get("module") is mod
        report.add("R5-backend", f"{SF}::simulate_fp8", okf, "simulate_fp8 is the E4M3-forward / E5M2-backward instance", got, [(4, 3), (5, 2)])
    except Unsupported as ex:
        report.add("R5-backend", f"{SF}::simulate_format", None, f"outside fragment: {ex}")
    report.floor("wrapper / splice obligations", len([o for o in report.obls if o.rule in ("R2-wrappers", "R4-splice")]), 20)
