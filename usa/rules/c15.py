"""C15 -- format simulation = straight-through quantisation at matmul boundaries."""
from __future__ import annotations

import ast
from typing import Any, Dict, List, Set, Tuple

import sympy as sp

from .. import terms as TM
from ..absint import Interp, Unsupported
from .common import global_state_calls, is_callable_value, public_functional
from ..core import AnalysisError, Report, Repo
from ..oracle import oracle_function, std_globals
from ..schemas import O, P
from ..values import BOTTOM, ClassV, ExtV, FuncV, ModV, Obj, T, TV, fmt
from .fmtcommon import E, FM, M, SR, mkformat

SF = "unit_scaling/transforms/_simulate_format.py"

REF_WRAPPERS = '''
def ref3(OP, a, b, c, fwd_format_tuple, bwd_format_tuple, quantise_c, extra_args, extra_kwargs):
    fwd = tuple_to_format(fwd_format_tuple)
    bwd = tuple_to_format(bwd_format_tuple)
    a = fwd.quantise_fwd(a)
    b = fwd.quantise_fwd(b)
    if quantise_c:
        c = fwd.quantise_fwd(c)
    out = OP(a, b, c, *extra_args, **extra_kwargs)
    return bwd.quantise_bwd(out)
'''

# key of _replacement_map -> (names of the op's first three parameters, is the third a
# tensor operand to quantise?, further positional parameters the op accepts)
OPS = {
    "torch.nn.functional.linear": (("input", "weight", "bias"), False, ()),
    "unit_scaling.functional.linear": (("input", "weight", "bias"), False, ("constraint",)),
    "torch.nn.functional.scaled_dot_product_attention": (("query", "key", "value"), True, ("attn_mask", "dropout_p", "is_causal")),
    "unit_scaling.functional.scaled_dot_product_attention": (("query", "key", "value"), True, ("attn_mask", "dropout_p", "is_causal", "mult")),
}


def keyname(k: Any) -> str:
    if isinstance(k, ExtV):
        return k.name
    if isinstance(k, FuncV):
        return f"{k.module.name}.{k.qualname}"
    return fmt(k)


def fields_read_by_quantise(repo: Repo) -> Set[str]:
    """The FPFormat fields whose value reaches FPFormat.quantise, found by evaluating quantise on
    format objects whose field reads are recorded (stochastic and nearest rounding): every route
    the code takes to a field -- helper methods, properties, dispatch tables -- is followed."""
    it = Interp(repo)
    read: Set[str] = set()
    for rounding, sr in (("stochastic", SR), ("nearest", 0)):
        fo = mkformat(it, rounding, sr)
        for fld in list(fo.attrs):
            fo.dyn[fld] = lambda fld=fld, fo=fo: (read.add(fld), fo.attrs[fld])[1]
        it.data_syms = {}
        it.call_function(it.class_attr(fo.cls, "quantise"), [fo, P("x", None)], {})
    return read


OTHER_OPS = ["torch.nn.functional.gelu", "torch.nn.functional.softmax", "torch.matmul", "torch.add", "torch.nn.functional.layer_norm", "unit_scaling.functional.matmul", "unit_scaling.functional.gelu"]


def op_value(it: Interp, dotted: str) -> Any:
    if dotted.startswith("unit_scaling.functional."):
        return it.get_global("unit_scaling/functional.py", dotted.rsplit(".", 1)[1])
    return ExtV(dotted)


def backend_of(it: Interp, ff: Obj, bf: Obj) -> Any:
    """The quantisation backend, as simulate_format hands it to apply_transform (apply_transform opaque)."""
    sfx = it.get_global(SF, "simulate_format")
    saved = it.events
    it.events = []
    try:
        it.call_function(sfx, [Obj("torch.nn.Module", term=T("param", ("module",))), ff, bf], {})
        ap_ = [e for e in it.events if e.kind == "call" and e["callee"].endswith("apply_transform")]
    finally:
        it.events = saved
    if len(ap_) != 1:
        raise AnalysisError("simulate_format does not call apply_transform exactly once")
    return ap_[0]["bound"].get("backend")


def discover_wrappers(it: Interp) -> Dict[str, Tuple[Any, Any]]:
    """op name -> (op value, callable the backend puts in its place), found by running the backend on a
    one-op graph per candidate op; ops the backend leaves alone are absent."""
    from ..fxmodel import AbstractGraph

    out: Dict[str, Tuple[Any, Any]] = {}
    ff, bf = Obj("FPFormat", term=T("param", ("fwd_format",))), Obj("FPFormat", term=T("param", ("bwd_format",)))
    for dotted in list(OPS) + OTHER_OPS:
        k = op_value(it, dotted)
        backend = backend_of(it, ff, bf)
        g = AbstractGraph(it)
        x = g.node("x", "placeholder", "x")
        n = g.node("op", "call_function", k, (x, x, x), {})
        g.node("output", "output", "output", ((n,),), {})
        saved = it.events
        it.events = []
        try:
            it.call_function(backend, [Obj("torch.fx.GraphModule", attrs={"graph": g.obj}, term=T("param", ("gm",))), Obj("value", term=T("param", ("example_inputs",)))], {})
        finally:
            it.events = saved
        calls = [m for m in g.nodes if m.attrs["op"] == "call_function"]
        if len(calls) == 1 and calls[0] is not n:
            out[dotted] = (k, calls[0].attrs["target"])
    return out


def check_backend_process_state(report: Report, repo: Repo, rule: str) -> None:
    """The quantisation backend (which runs inside every simulated forward pass's first call) leaves torch's
    process-wide numeric settings alone; used by C14 as well, whose value set needs float32 subnormals."""
    from ..fxmodel import AbstractGraph

    it = Interp(repo, opaque=lambda f: isinstance(f, FuncV) and f.qualname in ("apply_transform", "format_to_tuple"))
    ff, bf = Obj("FPFormat", term=T("param", ("fwd_format",))), Obj("FPFormat", term=T("param", ("bwd_format",)))
    cons = f"{SF}::quantisation-backend::process-state"
    try:
        backend = backend_of(it, ff, bf)
        g = AbstractGraph(it)
        x = g.node("x", "placeholder", "x")
        n = g.node("lin", "call_function", ExtV("torch.nn.functional.linear"), (x, x, x), {})
        g.node("output", "output", "output", ((n,),), {})
        it.events = []
        it.call_function(backend, [Obj("torch.fx.GraphModule", attrs={"graph": g.obj}, term=T("param", ("gm",))), O("example_inputs")], {})
        gsc = global_state_calls(it.events)
        report.add(rule, cons, not gsc, "running the quantisation backend does not change a process-wide torch setting (denormal flushing, default dtype, RNG state, ...)", gsc, [], nontrivial=False)
    except Unsupported as ex:
        report.add(rule, cons, None, f"outside fragment: {ex}")


def check_per_format(report: Report, repo: Repo, rule: str) -> None:
    """History independence of quantise_fwd / quantise_bwd across format objects."""
    it = Interp(repo, opaque=lambda f: isinstance(f, FuncV) and f.qualname == "FPFormat.quantise")
    # R1b history independence: a second format that prints the same (E4M3-SR) but differs in its
    # random-bit count / an equal-looking format object must get its *own* quantiser
    pairs = [
        ("same exponent/mantissa/rounding, other srbits", ("stochastic", SR), ("stochastic", SR + 1)),
        ("same exponent/mantissa, stochastic first then nearest", ("stochastic", SR), ("nearest", 0)),
        ("same exponent/mantissa, nearest first then stochastic", ("nearest", 0), ("stochastic", SR)),
    ]
    for plabel, a_, b_ in pairs:
        it = Interp(repo, opaque=lambda f: isinstance(f, FuncV) and f.qualname == "FPFormat.quantise")  # a fresh process state
        try:
            fa = mkformat(it, *a_)
            fb = mkformat(it, *b_)
            for meth in ("quantise_fwd", "quantise_bwd"):
                used = []
                for fo in (fa, fb):
                    it.events = []
                    it.call_function(it.class_attr(fo.cls, meth), [fo, P("x", None)], {})
                    ag = [e for e in it.events if e.kind == "autograd"]
                    if len(ag) != 1:
                        used.append(None)
                        continue
                    pas = "forward" if meth == "quantise_fwd" else "backward"
                    r = it.call_function(it.class_attr(ag[0]["cls"], pas), [Obj("ctx", term=T("param", ("ctx",))), P("t", None)], {})
                    rt = TM.term_of(r)
                    used.append(dict(rt.args[1]).get("self") if isinstance(rt, T) and rt.op == "call" else None)
                ok = used == [TM.term_of(fa), TM.term_of(fb)]
                report.add(rule, f"{FM}::FPFormat.{meth}::per-format", ok, f"{meth} on a second format object ({plabel}) after a first one must quantise with the second format (no cross-call caching keyed by part of the format)", fmt(used), fmt([TM.term_of(fa), TM.term_of(fb)]))
        except Unsupported as ex:
            report.add(rule, f"{FM}::FPFormat.quantise_fwd::per-format", None, f"outside fragment: {ex}")


def check(report: Report, repo: Repo) -> None:
    report.rule_text = (
        "R1: QuantiseForward.forward returns self.quantise(x) and backward returns its gradient argument itself;"
        " QuantiseBackward.forward returns x itself and backward returns self.quantise(grad); each applied via .apply(x)."
        " R2: for every entry key->wrapper of _replacement_map the wrapper's dataflow term equals the reference"
        " (tensor operands through fwd.quantise_fwd, bias/mask/scalars untouched, the op called is the key itself with all"
        " remaining arguments, result through bwd.quantise_bwd; formats rebuilt from the 4th/5th parameter)."
        " R3: tuple_to_format(format_to_tuple(f)) restores every field FPFormat.quantise reads (exponent_bits,"
        " mantissa_bits, rounding, srbits). R4: the argument splice of _replace_with_quantised binds, for positional,"
        " omitted and keyword forms of the op's arguments, to the wrapper's signature with every original argument in"
        " its own role. R5: the backend rewrites exactly the call_function nodes whose target is in the map, lints,"
        " returns a GraphModule; simulate_fp8 = E4M3 forward / E5M2 backward; simulate_format passes (fwd, bwd) in order."
    )
    report.explanation = "abstract interpretation of formats.py and transforms/_simulate_format.py on hand-built abstract FX nodes; no tracing"
    report.assumptions += ["what TorchDynamo captures is not decided", "torch.fx semantics of replace_node_with_function (args given, kwargs re-attached from the source node) as read from transforms/utils.py"]

    # ------------------------------------------------------------ R1 straight-through
    opq_q = lambda f: isinstance(f, FuncV) and f.qualname == "FPFormat.quantise"
    it = Interp(repo, opaque=opq_q)
    fobj = mkformat(it, "nearest", 0)
    for meth, fwd_is_q in (("quantise_fwd", True), ("quantise_bwd", False)):
        cons = f"{FM}::FPFormat.{meth}"
        x = P("x", None)
        it.events = []
        try:
            res = it.call_function(it.class_attr(fobj.cls, meth), [fobj, x], {})
        except Unsupported as ex:
            report.add("R1-straight-through", cons, None, f"outside fragment: {ex}")
            continue
        ag = [e for e in it.events if e.kind == "autograd"]
        if len(ag) != 1 or not isinstance(res, TV) or res.term != ag[0]["result"].term:
            report.add("R1-straight-through", cons, False, "must return <autograd function>.apply(x)", fmt(res), "Function.apply(x)")
            continue
        report.add("R1-straight-through", f"{cons}::apply-args", [TM.term_of(a) for a in ag[0]["args"]] == [x.term], "the autograd function is applied to x alone", fmt(ag[0]["args"]), "(x,)", nontrivial=False)
        cls = ag[0]["cls"]
        ctx = Obj("ctx", term=T("param", ("ctx",)))
        qcall = lambda v: T("call", ("unit_scaling.formats.FPFormat.quantise", (("self", TM.term_of(fobj)), ("x", v))))
        for pas, arg, quantised in (("forward", P("x", None), fwd_is_q), ("backward", P("grad_y", None), not fwd_is_q)):
            fn_ = it.class_attr(cls, pas)
            try:
                r = it.call_function(fn_, [ctx, arg], {})
            except Unsupported as ex:
                report.add("R1-straight-through", f"{cons}::{pas}", None, f"outside fragment: {ex}")
                continue
            exp = qcall(arg.term) if quantised else arg.term
            report.add("R1-straight-through", f"{cons}::{pas}", TM.term_equal(TM.term_of(r), exp), f"{pas} must return " + ("self.quantise(<its tensor argument>)" if quantised else "its tensor argument itself, unchanged"), fmt(r), fmt(exp))

    check_per_format(report, repo, "R1-straight-through")

    # ------------------------------------------------------------ R2 wrappers
    opq = lambda f: (public_functional(f)) or isinstance(f, FuncV) and (f.qualname in ("tuple_to_format", "format_to_tuple", "apply_transform"))
    it2 = Interp(repo, opaque=opq)
    g = std_globals(it2)
    g["tuple_to_format"] = it2.get_global(FM, "tuple_to_format")
    ref = oracle_function(it2, "ref3", REF_WRAPPERS, g)
    keys = discover_wrappers(it2)
    report.note("ops_rewritten_by_the_backend", sorted(keys))
    for kn in OPS:
        if kn not in keys:
            report.add("R2-wrappers", f"{SF}::rewritten-ops[{kn}]", False, "linear / attention operation (plain or unit-scaled) is not rewritten by the quantisation backend", sorted(keys), kn)
    for kn in keys:
        if kn not in OPS:
            report.add("R2-wrappers", f"{SF}::rewritten-ops[{kn}]", False, "the backend rewrites an operation that is not a linear / attention operation (\"nothing else changed\")", sorted(keys), sorted(OPS))
    for kn, (k, w) in keys.items():
        if kn not in OPS:
            continue
        cons = f"{SF}::quantised[{'U' if kn.startswith('unit_scaling') else 'F'}.{kn.rsplit('.', 1)[1]}]"
        if not is_callable_value(it2, w):
            report.add("R2-wrappers", cons, False, "the replacement target is not callable", fmt(w), "callable")
            continue
        names3, q3, more = OPS[kn]
        a, b, c = (P(n, None) for n in names3)
        ft, bt = O("fwd_format_tuple"), O("bwd_format_tuple")
        scen: List[Tuple[str, List[Any], Dict[str, Any]]] = [("no extra arguments", [], {})]
        if more:
            scen.append(("extra keyword arguments", [], {m: O(m) for m in more}))
        for sname, ea, ek in scen:
            try:
                it2.events = []
                got = it2.call_function(w, [a, b, c, ft, bt, *ea], dict(ek))
                gsw = global_state_calls(it2.events)
                report.add("R2-wrappers", f"{cons}::process-state", not gsw, f"{sname}: the quantised operation neither changes nor forks / restores a process-wide torch setting (RNG state included: a restored generator replays the same rounding bits at every matmul)", gsw, [], nontrivial=False)
                exp = it2.call_function(ref, [k, a, b, c, ft, bt, q3, tuple(ea), dict(ek)], {})
            except Unsupported as ex:
                report.add("R2-wrappers", cons, False if "unexpected keyword" in str(ex) or "too many positional" in str(ex) else None, f"{sname}: {ex}")
                continue
            gt, et = TM.normalize(TM.term_of(got)), TM.normalize(TM.term_of(exp))
            r = TM.term_equal(gt, et)
            report.add("R2-wrappers", cons, r, f"{sname}: wrapper must equal quantise_fwd(tensor operands) -> {kn} -> quantise_bwd; " + (TM.first_diff(gt, et) if r is not True else ""), fmt(gt), fmt(et))
        # one tensor passed in every operand position (self-attention on a single tensor, a square layer
        # applied to its own weight): each operand is still quantised on its own (independent rounding
        # draws and autograd nodes) -- counted as applications of quantise_fwd
        same = P("shared", None)
        try:
            it2.events = []
            it2.call_function(w, [same, same, same if q3 else c, ft, bt], {})
            nq = len([e for e in it2.events if e.kind == "callv" and isinstance(TM.term_of(e["callee"]), T) and TM.term_of(e["callee"]).op == "attr" and TM.term_of(e["callee"]).args[1] == "quantise_fwd"])
            want = 3 if q3 else 2
            report.add("R2-wrappers", f"{cons}::aliased-operands", nq == want, f"the same tensor given as {want} operands is forward-quantised {want} times (once per operand)", nq, want)
        except Unsupported as ex:
            report.add("R2-wrappers", f"{cons}::aliased-operands", None, f"outside fragment: {ex}")

    # ------------------------------------------------------------ R3 lossless transport
    read = fields_read_by_quantise(repo)
    report.note("fields_read_by_quantise", sorted(read))
    report.add("R3-transport", f"{FM}::FPFormat.quantise::fields", read >= {"exponent_bits", "mantissa_bits", "rounding", "srbits"}, "quantise reads the value-set, rounding-mode and random-bit fields", sorted(read), "exponent_bits, mantissa_bits, rounding, srbits", nontrivial=False)
    it3 = Interp(repo)
    cls = it3.get_global(FM, "FPFormat")
    f2t, t2f = it3.get_global(FM, "format_to_tuple"), it3.get_global(FM, "tuple_to_format")
    for label, ctor in (("E,M default (stochastic, all bits)", [E, M]), ("nearest", [E, M, "nearest"]), ("stochastic srbits=s", [E, M, "stochastic", SR])):
        cons = f"{FM}::format_to_tuple::fields"
        try:
            o0 = it3.call_function(cls, list(ctor), {})
            t = it3.call_function(f2t, [o0], {})
            o1 = it3.call_function(t2f, [t], {})
        except Unsupported as ex:
            report.add("R3-transport", cons, None, f"{label}: outside fragment: {ex}")
            continue
        if not isinstance(o1, Obj):
            report.add("R3-transport", cons, False, f"{label}: tuple_to_format does not rebuild an FPFormat", fmt(o1), "FPFormat")
            continue
        for fld in sorted(read):
            v0, v1 = o0.attrs.get(fld), o1.attrs.get(fld)
            ok = (v0 == v1) if isinstance(v0, str) or isinstance(v1, str) else TM.expr_equal(v0, v1)
            report.add("R3-transport", cons, ok, f"{label}: field '{fld}' must survive format_to_tuple/tuple_to_format (it is read by quantise)", f"{fld}={fmt(v1)}", f"{fld}={fmt(v0)}")

    # ------------------------------------------------------------ R4 splice / signature agreement
    # The backend is obtained through the public entry point (simulate_format hands it to apply_transform) and
    # run on abstract FX graphs; the rewritten node is then read back from the graph.  No private helper of
    # _simulate_format.py is named here.
    from ..fxmodel import AbstractGraph, is_node

    opq4 = lambda f: isinstance(f, FuncV) and f.qualname in ("apply_transform", "format_to_tuple")
    it4 = Interp(repo, opaque=opq4)
    keys_r = discover_wrappers(it4)

    def wrapper_of(w: Any) -> Any:
        """The function object the rewritten node must call (the map value itself)."""
        return w

    def same_callable(a_: Any, b_: Any) -> bool:
        return a_ is b_ or (isinstance(a_, FuncV) and isinstance(b_, FuncV) and a_.node is b_.node)

    for kn, (k, w) in keys_r.items():
        if kn not in OPS or not is_callable_value(it4, w):
            continue
        names3, q3, more = OPS[kn]
        # definite (non-None) argument values
        vals = {n: Obj("value", term=T("param", (f"v_{n}",)), open_attrs=False) for n in names3 + more}
        forms: List[Tuple[str, List[str], List[str]]] = [("all three positional", list(names3), [])]
        if kn.endswith("linear"):
            forms.append(("third omitted", list(names3[:2]), []))
            forms.append(("third by keyword", list(names3[:2]), [names3[2]]))
        # operands given by keyword, in an order other than the signature's (Dynamo keeps the caller's order)
        forms.append(("first positional, third then second by keyword", [names3[0]], [names3[2], names3[1]]))
        forms.append(("all three by keyword, reversed", [], list(reversed(names3))))
        for mname in more:
            forms.append((f"'{mname}' by keyword", list(names3), [mname]))
        if more:
            forms.append((f"'{more[0]}' positional", list(names3) + [more[0]], []))
        if "constraint" in more:
            # an explicit None differs from the default for this parameter
            forms.append(("'constraint'=None by keyword", list(names3), ["constraint=None"]))
        for fname, pos, kws in forms:
            cons = f"{SF}::quantisation-rewrite[{'U' if kn.startswith('unit_scaling') else 'F'}.{kn.rsplit('.', 1)[1]}]"
            explicit_none = [n[:-5] for n in kws if n.endswith("=None")]
            kws = [n for n in kws if not n.endswith("=None")]
            ff, bf = Obj("FPFormat", term=T("param", ("fwd_format",))), Obj("FPFormat", term=T("param", ("bwd_format",)))
            try:
                backend = backend_of(it4, ff, bf)
                g4 = AbstractGraph(it4)
                node = g4.node("op", "call_function", k, tuple(vals[n] for n in pos), {**{n: vals[n] for n in kws}, **{n: None for n in explicit_none}})
                g4.node("output", "output", "output", ((node,),), {})
                gm4 = Obj("torch.fx.GraphModule", attrs={"graph": g4.obj}, term=T("param", ("gm",)))
                it4.events = []
                res4 = it4.call_function(backend, [gm4, O("example_inputs")], {})
            except Unsupported as ex:
                report.add("R4-splice", cons, None, f"{fname}: outside fragment: {ex}")
                continue
            raised = [e["exc"] for e in it4.events if e.kind == "raise"]
            if res4 is BOTTOM or raised:
                report.add("R4-splice", cons, False, f"{fname}: the backend raises on this call form: {raised}", raised, "no error")
                continue
            new_nodes = [n_ for n_ in g4.nodes if n_.attrs["op"] == "call_function" and same_callable(n_.attrs["target"], w)]
            old_left = [n_ for n_ in g4.nodes if n_ is node]
            if len(new_nodes) != 1 or old_left:
                report.add("R4-splice", cons, False, f"{fname}: the op node must be replaced by exactly one call of the wrapper registered for {kn}", [d_[1] for d_ in g4.describe()], fmt(w))
                continue
            nn_ = new_nodes[0]
            outn = [n_ for n_ in g4.nodes if n_.attrs["op"] == "output"][0]
            rewired = any(x_ is nn_ for x_ in g4.inputs_of(outn))
            report.add("R4-splice", f"{cons}::uses", rewired, f"{fname}: consumers of the op now read the quantised call", "rewired" if rewired else "dangling", "rewired", nontrivial=False)
            new_args, new_kwargs = nn_.attrs["_args"], nn_.attrs["_kwargs"]
            if not isinstance(new_args, (tuple, list)) or not isinstance(new_kwargs, dict):
                report.add("R4-splice", cons, None, f"{fname}: spliced arguments are not statically known")
                continue
            w_sig = it4.unwrap(w)  # the signature a caller sees (functools.wraps is followed)
            if not isinstance(w_sig, FuncV):
                report.add("R4-splice", cons, None, f"{fname}: the wrapper's signature is not statically known ({fmt(w_sig)})")
                continue
            try:
                bound = it4.bind(w_sig, list(new_args), dict(new_kwargs))
            except Unsupported as ex:
                report.add("R4-splice", cons, False, f"{fname}: the rewritten call does not bind to {w_sig.qualname}{ast.unparse(w_sig.node.args)!s:.80}: {ex}", f"args={fmt(tuple(new_args))} kwargs={fmt(new_kwargs)}", "a call that binds")
                continue
            flat = dict(bound)
            for vk in ("kwargs",):
                if isinstance(flat.get(vk), dict):
                    flat.update(flat.pop(vk))
            va = flat.pop("args", None)
            if isinstance(va, tuple) and va:
                # extra positionals are forwarded to the op after its first three parameters
                for nm, v in zip(more, va):
                    flat.setdefault(nm, v)
            okall = True
            for n_ in explicit_none:
                if flat.get(n_, "<absent>") is not None:
                    okall = False
                    report.add("R4-splice", cons, False, f"{fname}: '{n_}=None' of the original call must reach the wrapper as None (for this parameter None is not the default)", fmt(flat.get(n_, "<absent>")), "None")
            for n_ in pos + kws:
                same = TM.term_of(flat.get(n_)) == TM.term_of(vals[n_])
                okall = okall and same
                if not same:
                    report.add("R4-splice", cons, False, f"{fname}: argument '{n_}' lands in the wrong role", fmt(flat.get(n_)), fmt(vals[n_]))
            for pn, src in (("fwd_format_tuple", "fwd_format"), ("bwd_format_tuple", "bwd_format")):
                tv = TM.term_of(flat.get(pn))
                same = isinstance(tv, T) and tv.op == "call" and str(tv.args[0]).endswith("format_to_tuple") and dict(tv.args[1]).get("format") == T("param", (src,))
                okall = okall and same
                if not same:
                    report.add("R4-splice", cons, False, f"{fname}: '{pn}' must be format_to_tuple({src})", fmt(tv), f"format_to_tuple({src})")
            if okall:
                report.add("R4-splice", cons, True, f"{fname}: rewritten call binds with every argument in its role", fmt(tuple(new_args)), "binds")

    # ------------------------------------------------------------ R5 backend sweep and entry points
    it5 = Interp(repo, opaque=opq4)
    ff, bf = Obj("FPFormat", term=T("param", ("fwd_format",))), Obj("FPFormat", term=T("param", ("bwd_format",)))
    cons = f"{SF}::quantisation-backend"
    try:
        backend = backend_of(it5, ff, bf)
        g5 = AbstractGraph(it5)
        x5 = g5.node("x", "placeholder", "x")
        keys5 = discover_wrappers(it5)
        fn_nodes, other_nodes = [], []
        for i, (kn, (k, w)) in enumerate(sorted(keys5.items())):
            fn_nodes.append((g5.node(f"fn{i}", "call_function", k, (x5, x5, x5), {}), w))
            other_nodes.append(g5.node(f"meth{i}", "call_method", k, (x5,), {}))  # same target, other opcode: untouched
        other_nodes.append(g5.node("relu", "call_function", ExtV("torch.relu"), (x5,), {}))
        # statements executed for their effect (an in-place method whose result nobody reads, an assertion)
        stmt_nodes = [g5.node("clamp_", "call_method", "clamp_", (x5,), {"max": 1}), g5.node("check", "call_function", ExtV("torch._assert"), (x5, "msg"), {})]
        g5.node("output", "output", "output", (tuple(n_ for n_, _w in fn_nodes) + tuple(other_nodes),), {})
        gm5 = Obj("torch.fx.GraphModule", attrs={"graph": g5.obj}, term=T("param", ("gm",)))
        it5.events = []
        out = it5.call_function(backend, [gm5, O("example_inputs")], {})
        raised = [e["exc"] for e in it5.events if e.kind == "raise"]
        calls_now = [(n_.attrs["op"], n_.attrs["target"]) for n_ in g5.nodes if n_.attrs["op"] in ("call_function", "call_method") and not any(n_ is m_ for m_ in stmt_nodes)]
        want = []
        for (n_, w), m_ in zip(fn_nodes, other_nodes):
            want.append(("call_function", w))
            want.append(("call_method", m_.attrs["target"]))
        want.append(("call_function", ExtV("torch.relu")))
        ok = not raised and len(calls_now) == len(want) and all(o1 == o2 and (same_callable(t1, t2) or t1 == t2) for (o1, t1), (o2, t2) in zip(calls_now, want))
        report.add("R5-backend", f"{cons}::sweep", ok, "exactly the call_function nodes whose target is in the map are rewritten (to that target's wrapper), in graph order; other opcodes and other targets are untouched", [f"{o}:{fmt(t)}" for o, t in calls_now], [f"{o}:{fmt(t)}" for o, t in want])
        untouched = all(any(n_ is m_ for n_ in g5.nodes) for m_ in other_nodes)
        report.add("R5-backend", f"{cons}::others", untouched, "nodes that are not linear / attention calls are the same node objects as before", "kept" if untouched else "replaced", "kept", nontrivial=False)
        gsc = global_state_calls(it5.events)
        report.add("R5-backend", f"{cons}::process-state", not gsc, "running the backend does not change a process-wide torch setting (denormal flushing, default dtype, RNG state, ...): the simulated formats rely on float32 subnormals", gsc, [], nontrivial=False)
        kept_stmts = all(any(n_ is m_ for n_ in g5.nodes) for m_ in stmt_nodes)
        report.add("R5-backend", f"{cons}::statements", kept_stmts, "nodes without users (in-place method calls, assertions) are part of the computation and survive the rewrite (no dead-code elimination)", [m_.attrs["name"] for m_ in stmt_nodes if not any(n_ is m_ for n_ in g5.nodes)], [])
        report.add("R5-backend", f"{cons}::lint", g5.linted >= 1, "graph.lint() is called after the rewrite", g5.linted, ">=1", nontrivial=False)
        ot = TM.term_of(out)
        okr = isinstance(ot, T) and ot.op == "call" and "GraphModule" in str(ot.args[0])
        report.add("R5-backend", f"{cons}::return", okr, "returns a GraphModule built from (gm, graph)", fmt(ot), "GraphModule(gm, graph)", nontrivial=False)
        # the formats reach the rewritten calls in (forward, backward) order
        okf = True
        for n_ in g5.nodes:
            if n_.attrs["op"] == "call_function" and any(same_callable(n_.attrs["target"], w) for _n, w in fn_nodes):
                tups = [TM.term_of(a_) for a_ in n_.attrs["_args"] if isinstance(TM.term_of(a_), T) and TM.term_of(a_).op == "call" and str(TM.term_of(a_).args[0]).endswith("format_to_tuple")]
                okf = okf and [dict(t_.args[1]).get("format") for t_ in tups] == [T("param", ("fwd_format",)), T("param", ("bwd_format",))]
        report.add("R5-backend", f"{cons}::formats", okf, "each rewritten call receives format_to_tuple(fwd_format) then format_to_tuple(bwd_format)", "ok" if okf else "swapped/other", "fwd then bwd")
    except Unsupported as ex:
        report.add("R5-backend", cons, None, f"outside fragment: {ex}")
    # simulate_format / simulate_fp8
    try:
        it6 = Interp(repo, opaque=lambda f: isinstance(f, FuncV) and f.qualname in ("apply_transform",))
        sf6 = it6.get_global(SF, "simulate_format")
        mod = Obj("torch.nn.Module", term=T("param", ("module",)))
        it6.events = []
        it6.call_function(sf6, [mod, ff, bf], {})
        ap = [e for e in it6.events if e.kind == "call" and e["callee"].endswith("apply_transform")]
        okb = len(ap) == 1 and ap[0]["bound"].get("module") is mod and is_callable_value(it6, ap[0]["bound"].get("backend"))
        report.add("R5-backend", f"{SF}::simulate_format", okb, "applies a quantisation backend to the module given (the order of the two formats is decided by ::formats above)", "ok" if okb else "mismatch", "apply_transform(module, backend)")
        # simulate_fp8: run the backend it installs on a one-op graph and read the formats off the rewritten call
        fp8 = it6.get_global(SF, "simulate_fp8")
        it6.events = []
        it6.call_function(fp8, [mod], {})
        ap = [e for e in it6.events if e.kind == "call" and e["callee"].endswith("apply_transform")]
        got = None
        okf = len(ap) == 1 and ap[0]["bound"].get("module") is mod
        if okf:
            g6 = AbstractGraph(it6)
            x6 = g6.node("x", "placeholder", "x")
            n6 = g6.node("lin", "call_function", ExtV("torch.nn.functional.linear"), (x6, x6, x6), {})
            g6.node("output", "output", "output", ((n6,),), {})
            it6.call_function(ap[0]["bound"]["backend"], [Obj("torch.fx.GraphModule", attrs={"graph": g6.obj}, term=T("param", ("gm",))), O("example_inputs")], {})
            tups = [a_ for n_ in g6.nodes if n_.attrs["op"] == "call_function" for a_ in n_.attrs["_args"] if isinstance(a_, tuple)]
            got = [tuple(t_[:2]) for t_ in tups]
            okf = got == [(4, 3), (5, 2)]
        report.add("R5-backend", f"{SF}::simulate_fp8", okf, "simulate_fp8 is the E4M3-forward / E5M2-backward instance", got, [(4, 3), (5, 2)])
    except Unsupported as ex:
        report.add("R5-backend", f"{SF}::simulate_format", None, f"outside fragment: {ex}")
    from .c17 import check_root_entry

    check_root_entry(report, repo, "R5-backend")  # the transform is only applied at all if TorchDynamo traces the root
    report.floor("wrapper / splice obligations", len([o for o in report.obls if o.rule in ("R2-wrappers", "R4-splice")]), 20)
