"""C03 -- exact unit scale of (bi)linear ops: every forward / backward scale equals the
reciprocal square root of the number of unit-variance terms summed into one element,
as a closed-form identity in symbolic dimension sizes, for every rank schema."""
from __future__ import annotations

from typing import Any, Dict, List, Tuple

import sympy as sp

from .. import schemas as SC
from .. import terms as TM
from ..core import Report, Repo
from ..optable import FUNCTIONAL, summarise
from ..values import fmt
from .common import check_case_scales, need_cases

R = sp.Rational
half = R(1, 2)


def numel(tv: Any) -> Any:
    return tv.shape.numel()


# ---- frozen oracle table: reason = how many independent unit-variance terms PyTorch's
#      op sums into one element of that tensor.
def oracle(func: str, a: Dict[str, Any]) -> Tuple[Any, Dict[str, Any]]:
    if func in ("linear", "linear_readout"):
        O, I = a["weight"].shape
        B = numel(a["input"]) / I  # product of leading dims (rows of the matmul)
        out = I ** -half if func == "linear" else I ** -1  # readout: 1/fan_in (stated)
        bwd = {"input": O ** -half, "weight": B ** -half}  # dX sums over O; dW over rows
        if a.get("bias") is not None:
            bwd["bias"] = B ** -half  # db sums over rows
        if a.get("scale_power") is not None:
            # documented generalisation: count ** -power, powers for (output, grad(input), grad(weight|bias))
            po, pi_, pp = a["scale_power"]
            out, bwd = I ** -po, {"input": O ** -pi_, "weight": B ** -pp, "bias": B ** -pp}
        return out, bwd
    if func == "matmul":
        M, K = a["left"].shape[-2:]
        N = a["right"].shape[-1]
        return K ** -half, {"left": N ** -half, "right": M ** -half}
    if func == "conv1d":
        Co, Cg, k = a["weight"].shape
        L = a["input"].shape[-1]
        s, p, dl, G = [v[0] if isinstance(v, (tuple, list)) else v for v in (a["stride"], a["padding"], a["dilation"], a["groups"])]
        Lout = sp.floor((L + 2 * p - dl * (k - 1) - 1) / s) + 1
        B = Lout * (numel(a["input"]) / (a["input"].shape[-1] * a["input"].shape[-2]))
        out = (Cg * k) ** -half  # each output sums Cg*k products
        bwd = {"input": (Co * k / (G * s)) ** -half, "weight": B ** -half}  # interior count
        if a.get("bias") is not None:
            bwd["bias"] = B ** -half
        if a.get("scale_power") is not None:
            po, pi_, pp = a["scale_power"]
            out, bwd = (Cg * k) ** -po, {"input": (Co * k / (G * s)) ** -pi_, "weight": B ** -pp, "bias": B ** -pp}
        return out, bwd
    if func == "add":
        from ..extlib import broadcast

        osh = broadcast(a["input"].shape, a["other"].shape)
        single = numel(a["input"]) == 1 or numel(a["other"]) == 1
        # a single-element operand shifts the mean, not the spread: output left unscaled (as stated)
        return (sp.Integer(1) if single else sp.Integer(2) ** -half), {
            "input": (osh.numel() / numel(a["input"])) ** -half,
            "other": (osh.numel() / numel(a["other"])) ** -half,
        }
    if func == "embedding":
        V = a["weight"].shape[0]
        B = numel(a["input"])
        return 1, {"weight": (B / V) ** -half}  # expected hits per row
    if func == "dropout":
        p = a["p"]
        if a["training"] is False:
            pass
        return (1 - p) ** half, {"input": (1 - p) ** half}
    if func == "mse_loss":
        out = 1 / numel(a["input"]) if a["reduction"] == "mean" else 1
        return out, {"input": sp.Integer(8) ** -half, "target": sp.Integer(8) ** -half}
    if func in ("layer_norm", "rms_norm"):
        ns = a["normalized_shape"]
        rows = numel(a["input"]) / sp.Mul(*ns)
        bwd = {}
        if a.get("weight") is not None:
            bwd["weight"] = rows ** -half
        if a.get("bias") is not None:
            bwd["bias"] = rows ** -half
        return 1, bwd
    raise KeyError(func)


def schema_table(tier: str) -> Dict[str, List[SC.Schema]]:
    return {
        "linear": SC.linear_schemas(tier, None),
        "linear_readout": SC.linear_schemas(tier, None, fn="linear_readout"),
        "matmul": [s_ for s_ in SC.matmul_schemas(tier, None) if s_.note != "mixed-rank"],  # exact clause: equal batch dims
        "conv1d": SC.conv1d_schemas(tier, None),
        "add": SC.add_schemas(tier, None),
        "embedding": SC.embedding_schemas(tier),
        "dropout": SC.dropout_schemas(tier),
        "mse_loss": SC.mse_schemas(tier),
        "layer_norm": SC.norm_schemas(tier, "layer_norm"),
        "rms_norm": SC.norm_schemas(tier, "rms_norm"),
    }


def check(report: Report, repo: Repo) -> None:
    report.rule_text = (
        "R1: for each op x rank schema, abstract-interpret functional.py with symbolic sizes,"
        " peel the scale primitives off the result term and require"
        " simplify(extracted/oracle)==1 for the output scale and every operand's backward"
        " scale; oracle = 1/sqrt(#unit-variance terms) table in rules/c03.py."
        " non-trivial = obligation whose oracle expression is not the constant 1"
    )
    report.explanation = (
        "symbolic constant propagation over unit_scaling/functional.py; all dimension sizes"
        " are symbols so each obligation holds for every size of that rank"
    )
    report.assumptions += [
        "PyTorch reference ops sum the number of terms given in the oracle table",
        "sum of n independent unit-variance terms has variance n",
        "sympy.simplify returning 0 is accepted as equality",
        "symbolic dimensions are >= 2 (single-element operands are excluded by the property)",
    ]
    n_schema = 0
    tab = schema_table(report.tier)
    for func, schemas in tab.items():
        for sch in schemas:
            summ = summarise(repo, func, sch)
            n_schema += 1
            if not need_cases(report, "R1-termcount", summ):
                continue
            exp_out, exp_bwd = oracle(func, sch.args)
            for case in summ.cases:
                check_case_scales(report, "R1-termcount", summ, case, exp_out, exp_bwd)
    # add with a python scalar: plain torch.add, no scaling (as stated)
    a, b = SC.D("a"), SC.D("b")
    sch = SC.Schema("add[tensor+python-scalar]", dict(input=SC.P("input", (a, b)), other=sp.Symbol("c", real=True), constraint=None))
    summ = summarise(repo, "add", sch)
    if need_cases(report, "R1-termcount", summ):
        for case in summ.cases:
            check_case_scales(report, "R1-termcount", summ, case, 1, {})
    report.note("functions", sorted(tab))
    report.note("schemas_evaluated", n_schema + 1)
    report.floor("op x schema summaries", n_schema, 40 if report.tier == "quick" else 55)
