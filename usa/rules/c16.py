"""C16 -- unit_scale() == the User-Guide recipe, decided on a covering set of abstract FX
graphs: the backend is abstractly executed on each and its result compared (as an
unfolded dataflow term, modulo node names and order) with an independent reference
rewriter written from the recipe."""
from __future__ import annotations

from typing import Any, Dict, List, Optional, Set, Tuple

import sympy as sp

from .. import terms as TM
from ..absint import Interp, Unsupported
from ..core import AnalysisError, Report, Repo
from ..fxmodel import AbstractGraph, deep_map, deep_nodes, is_node
from ..schemas import O, P
from ..values import BOTTOM, ExtV, FuncV, Obj, T, TV, fmt

US = "unit_scaling/transforms/_unit_scale.py"
FN = "unit_scaling/functional.py"

F = "torch.nn.functional."
ADD, IADD, GETITEM = ExtV("_operator.add"), ExtV("_operator.iadd"), ExtV("_operator.getitem")

# frozen: which torch callables have a unit-scaled counterpart (User Guide table)
COUNTERPART = {
    "torch.add": "add", F + "conv1d": "conv1d", F + "cross_entropy": "cross_entropy", F + "dropout": "dropout",
    F + "embedding": "embedding", F + "gelu": "gelu", F + "layer_norm": "layer_norm", F + "linear": "linear",
    "torch.matmul": "matmul", "operator.matmul": "matmul", F + "mse_loss": "mse_loss", F + "rms_norm": "rms_norm",
    F + "scaled_dot_product_attention": "scaled_dot_product_attention", F + "silu": "silu", F + "softmax": "softmax",
}
SELF_ATTENTION = {F + "softmax", F + "scaled_dot_product_attention", "unit_scaling.functional.softmax", "unit_scaling.functional.scaled_dot_product_attention"}

NN_WRAPPERS = {
    "Softmax": "activation.py", "GELU": "activation.py", "SiLU": "activation.py", "LayerNorm": "normalization.py",
    "RMSNorm": "normalization.py", "Embedding": "sparse.py", "Dropout": "dropout.py", "Linear": "linear.py",
    "Conv1d": "conv.py", "CrossEntropyLoss": "loss.py", "MSELoss": "loss.py",
}


def nn_wrapper_call_forms() -> Dict[str, List[Tuple[str, int, List[str], str]]]:
    """For each torch.nn wrapper module: the F.<fn>(...) calls in its forward / _conv_forward, as
    (fn, number of positional arguments, keyword names, file:line), read from the installed torch sources."""
    import ast as _ast
    import sys as _sys
    from pathlib import Path as _Path

    root = None
    for p_ in _sys.path:
        if (_Path(p_) / "torch" / "nn" / "modules" / "activation.py").exists():
            root = _Path(p_) / "torch" / "nn" / "modules"
            break
    out: Dict[str, List[Tuple[str, int, List[str], str]]] = {}
    if root is None:
        return out
    trees: Dict[str, Any] = {}
    for cls_name, fname in NN_WRAPPERS.items():
        if fname not in trees:
            try:
                trees[fname] = _ast.parse((root / fname).read_text())
            except Exception:
                trees[fname] = None
        tree = trees[fname]
        if tree is None:
            continue
        for node in tree.body:
            if isinstance(node, _ast.ClassDef) and node.name == cls_name:
                for m in node.body:
                    if isinstance(m, _ast.FunctionDef) and m.name in ("forward", "_conv_forward"):
                        for c in _ast.walk(m):
                            if isinstance(c, _ast.Call) and isinstance(c.func, _ast.Attribute) and isinstance(c.func.value, _ast.Name) and c.func.value.id == "F":
                                if any(isinstance(a, _ast.Starred) for a in c.args) or any(k.arg is None for k in c.keywords):
                                    continue
                                out.setdefault(cls_name, []).append((c.func.attr, len(c.args), [k.arg for k in c.keywords], f"torch/nn/modules/{fname}:{c.lineno}"))
    return out


# ------------------------------------------------------------------ scenario graphs
# (name, op, target, args, kwargs); "%x" refers to node x
Scenario = List[Tuple[str, str, Any, tuple, dict]]


def E(n: str) -> ExtV:
    return ExtV(n)


def scenarios() -> Dict[str, Tuple[Scenario, Dict[Any, Any]]]:
    S: Dict[str, Tuple[Scenario, Dict[Any, Any]]] = {}
    S["mlp-residual (skip = input)"] = ([
        ("x", "placeholder", "x", (), {}),
        ("w1", "get_attr", "w1", (), {}), ("w2", "get_attr", "w2", (), {}),
        ("h", "call_function", E(F + "linear"), ("%x", "%w1", None), {}),
        ("a", "call_function", E(F + "gelu"), ("%h",), {}),
        ("o", "call_function", E(F + "linear"), ("%a", "%w2"), {"bias": None}),
        ("r", "call_function", ADD, ("%x", "%o"), {}),
        ("output", "output", "output", (("%r",),), {}),
    ], {})
    S["in-place tensor methods used as statements inside a residual branch"] = ([
        ("x", "placeholder", "x", (), {}),
        ("w1", "get_attr", "w1", (), {}), ("w2", "get_attr", "w2", (), {}),
        ("h", "call_function", E(F + "linear"), ("%x", "%w1"), {}),
        ("stmt_scale", "call_method", "mul_", ("%h", 0.25), {}),  # h.mul_(0.25): result unused, later readers point at h
        ("stmt_clamp", "call_method", "clamp_", ("%h",), {"max": 6.0}),
        ("a", "call_function", E(F + "gelu"), ("%h",), {}),
        ("o", "call_function", E(F + "linear"), ("%a", "%w2"), {}),
        ("r", "call_function", ADD, ("%x", "%o"), {}),
        ("output", "output", "output", (("%r",),), {}),
    ], {})
    # the operator spelling of a mapped op: `h @ w` is traced as the builtin operator.matmul (as `a + b` is operator.add)
    S["matmul written with the @ operator inside a residual branch"] = ([
        ("x", "placeholder", "x", (), {}),
        ("w1", "get_attr", "w1", (), {}), ("w2", "get_attr", "w2", (), {}),
        ("h", "call_function", E("_operator.matmul"), ("%x", "%w1"), {}),
        ("a", "call_function", E(F + "gelu"), ("%h",), {}),
        ("o", "call_function", E("_operator.matmul"), ("%a", "%w2"), {}),
        ("r", "call_function", ADD, ("%x", "%o"), {}),
        ("output", "output", "output", (("%r",),), {}),
    ], {})
    S["two blocks, attention branch, readout + plain add after last residual"] = ([
        ("x", "placeholder", "x", (), {}), ("z", "placeholder", "z", (), {}),
        ("w1", "get_attr", "w1", (), {}), ("w2", "get_attr", "w2", (), {}), ("w3", "get_attr", "w3", (), {}),
        ("n1", "call_function", E(F + "layer_norm"), ("%x", (8,)), {}),
        ("f1", "call_function", E(F + "linear"), ("%n1", "%w1"), {}),
        ("r1", "call_function", ADD, ("%f1", "%x"), {}),  # residual operand first
        ("q", "call_function", E(F + "linear"), ("%r1", "%w2"), {}),
        ("s", "call_function", E(F + "softmax"), ("%q",), {"dim": -1}),
        ("mm", "call_function", E("torch.matmul"), ("%s", "%q"), {}),
        ("o2", "call_function", E(F + "linear"), ("%mm", "%w2"), {}),
        ("d2", "call_function", E(F + "dropout"), ("%o2",), {"p": 0.0}),
        ("r2", "call_function", ADD, ("%r1", "%d2"), {}),  # skip is a residual output; softmax three ops deep in the branch
        ("ro", "call_function", E(F + "linear"), ("%r2", "%w3"), {}),  # no later residual: unconstrained
        ("p", "call_function", ADD, ("%ro", "%z"), {}),  # plain add after the last residual
        ("t", "call_function", E("torch.tanh"), ("%p",), {}),  # unmapped op: untouched
        ("output", "output", "output", (("%t",),), {}),
    ], {})
    S["branch operand written first (attention block, then an MLP block)"] = ([
        ("x", "placeholder", "x", (), {}),
        ("w1", "get_attr", "w1", (), {}), ("w2", "get_attr", "w2", (), {}), ("w3", "get_attr", "w3", (), {}),
        ("q", "call_function", E(F + "linear"), ("%x", "%w1"), {}),
        ("s", "call_function", E(F + "softmax"), ("%q",), {"dim": -1}),
        ("o", "call_function", E(F + "linear"), ("%s", "%w2"), {}),
        ("r1", "call_function", ADD, ("%o", "%x"), {}),  # f(skip) + skip with softmax in f: tau 0.01
        ("f", "call_function", E(F + "linear"), ("%r1", "%w3"), {}),
        ("g", "call_function", E(F + "gelu"), ("%f",), {}),
        ("r2", "call_function", ADD, ("%g", "%r1"), {}),  # f(skip) + skip, MLP branch; the attention lies upstream of the skip: tau 0.5
        ("output", "output", "output", (("%r2",),), {}),
    ], {})
    S["skip produced by a plain add (token + position embeddings)"] = ([
        ("ids", "placeholder", "ids", (), {}), ("pos", "placeholder", "pos", (), {}),
        ("we", "get_attr", "we", (), {}), ("wp", "get_attr", "wp", (), {}), ("w1", "get_attr", "w1", (), {}),
        ("te", "call_function", E(F + "embedding"), ("%ids", "%we"), {}),
        ("pe", "call_function", E(F + "embedding"), ("%pos", "%wp"), {}),
        ("h", "call_function", ADD, ("%te", "%pe"), {}),  # plain add
        ("f", "call_function", E(F + "linear"), ("%h", "%w1"), {}),
        ("g", "call_function", E(F + "silu"), ("%f",), {}),
        ("r", "call_function", ADD, ("%h", "%g"), {}),  # residual whose skip is the plain sum
        ("output", "output", "output", (("%r",),), {}),
    ], {})
    my_gelu = user_function("user_gelu", ["x"])
    user_fn = user_function("user_replacement", ["x", "approximate", "constraint"])
    S["scalar / in-place adds, attention, user replacement precedence"] = ([
        ("x", "placeholder", "x", (), {}), ("y", "placeholder", "y", (), {}),
        ("c", "call_function", ADD, ("%x", 2), {}),  # tensor + python scalar
        ("d", "call_function", IADD, ("%c", "%y"), {}),  # in-place add of unrelated tensors
        ("at", "call_function", E(F + "scaled_dot_product_attention"), ("%d", "%d", "%d"), {"is_causal": True}),
        ("r", "call_function", ADD, ("%d", "%at"), {}),  # residual, attention branch
        ("u", "call_function", my_gelu, ("%r",), {}),  # user-mapped custom function
        ("v", "call_function", E(F + "gelu"), ("%u",), {"approximate": "tanh"}),  # user map overrides the built-in one
        ("m", "call_method", "reshape", ("%v", 4, -1), {}),
        ("l", "call_function", E(F + "mse_loss"), ("%m", "%y"), {}),
        ("output", "output", "output", (("%l",),), {}),
    ], {my_gelu: "U:gelu", E(F + "gelu"): user_fn})
    S["two towers joined by a loss (each with its own residual)"] = ([
        ("a", "placeholder", "a", (), {}), ("b", "placeholder", "b", (), {}),
        ("wa", "get_attr", "wa", (), {}), ("wb", "get_attr", "wb", (), {}), ("wc", "get_attr", "wc", (), {}),
        ("fa", "call_function", E(F + "linear"), ("%a", "%wa", None), {}),
        ("ga", "call_function", E(F + "gelu"), ("%fa",), {}),
        ("ra", "call_function", ADD, ("%a", "%ga"), {}),  # residual in tower A (not the last residual of the graph)
        ("fb", "call_function", E(F + "linear"), ("%b", "%wb", None), {}),
        ("rb", "call_function", ADD, ("%fb", "%b"), {}),  # residual in tower B
        ("hb", "call_function", E(F + "linear"), ("%rb", "%wc", None), {}),  # after the last residual of its tower
        ("l", "call_function", E(F + "mse_loss"), ("%ra", "%hb"), {}),
        ("output", "output", "output", (("%l",),), {}),
    ], {})
    S["branch operands passed by keyword and inside a list"] = ([
        ("x", "placeholder", "x", (), {}), ("w", "get_attr", "w", (), {}),
        ("q", "call_function", E(F + "linear"), ("%x", "%w", None), {}),
        ("at", "call_function", E(F + "scaled_dot_product_attention"), (), {"query": "%q", "key": "%q", "value": "%q"}),  # tensors by keyword
        ("r1", "call_function", ADD, ("%x", "%at"), {}),
        ("h", "call_function", E(F + "linear"), ("%r1", "%w", None), {}),
        ("c", "call_function", E("torch.cat"), (["%h", "%h"],), {"dim": -1}),  # tensors inside a list argument
        ("o", "call_function", E(F + "linear"), ("%c", "%w"), {"bias": None}),
        ("r2", "call_function", ADD, ("%r1", "%o"), {}),
        ("output", "output", "output", (("%r2",),), {}),
    ], {})
    S["branch that starts and ends with a plain add"] = ([
        ("x", "placeholder", "x", (), {}), ("pos", "placeholder", "pos", (), {}), ("d", "placeholder", "d", (), {}),
        ("w", "get_attr", "w", (), {}),
        ("s0", "call_function", ADD, ("%x", "%pos"), {}),  # plain add that *starts* the branch (consumes the skip tensor)
        ("f", "call_function", E(F + "linear"), ("%s0", "%w", None), {}),
        ("g", "call_function", E(F + "gelu"), ("%f",), {}),
        ("e0", "call_function", ADD, ("%g", "%d"), {}),  # plain add that *ends* the branch
        ("r", "call_function", ADD, ("%x", "%e0"), {}),  # residual: skip = x
        ("output", "output", "output", (("%r",),), {}),
    ], {})
    # a side input gates the branch: the softmax is on the branch (an ancestor of the branch end other than the skip)
    # although it is not computed from the skip tensor
    S["softmax of a second input multiplies the residual branch"] = ([
        ("x", "placeholder", "x", (), {}), ("c", "placeholder", "c", (), {}),
        ("w", "get_attr", "w", (), {}),
        ("f", "call_function", E(F + "linear"), ("%x", "%w", None), {}),
        ("s", "call_function", E(F + "softmax"), ("%c",), {"dim": -1}),
        ("m", "call_function", E("_operator.mul"), ("%f", "%s"), {}),  # unmapped op joining the two
        ("r", "call_function", ADD, ("%x", "%m"), {}),  # branch contains softmax: tau 0.01
        ("output", "output", "output", (("%r",),), {}),
    ], {})
    # "no later residual addition" is a dependency relation, not a position in the node list
    S["auxiliary head traced before the last residual block"] = ([
        ("x", "placeholder", "x", (), {}),
        ("w1", "get_attr", "w1", (), {}), ("w2", "get_attr", "w2", (), {}), ("w3", "get_attr", "w3", (), {}),
        ("f1", "call_function", E(F + "linear"), ("%x", "%w1", None), {}),
        ("g1", "call_function", E(F + "gelu"), ("%f1",), {}),
        ("r1", "call_function", ADD, ("%x", "%g1"), {}),
        ("aux", "call_function", E(F + "linear"), ("%r1", "%w3", None), {}),  # feeds no residual add: unconstrained
        ("ga", "call_function", E(F + "gelu"), ("%aux",), {}),
        ("f2", "call_function", E(F + "linear"), ("%r1", "%w2", None), {}),
        ("g2", "call_function", E(F + "gelu"), ("%f2",), {}),
        ("r2", "call_function", ADD, ("%r1", "%g2"), {}),
        ("output", "output", "output", (("%r2", "%ga"),), {}),
    ], {})
    return S


def user_function(name: str, params: List[str]) -> Obj:
    """A user-defined python function (closed abstract object with a known signature)."""
    return Obj("function", attrs={"__name__": name, "_callable": True, "_signature": params}, term=T("param", (name,)), open_attrs=False)


def build(it: Interp, sc: Scenario) -> Tuple[AbstractGraph, Dict[str, Obj]]:
    g = AbstractGraph(it)
    N: Dict[str, Obj] = {}

    def ref(a: Any) -> Any:
        if isinstance(a, str) and a.startswith("%"):
            return N[a[1:]]
        if isinstance(a, tuple):
            return tuple(ref(x) for x in a)
        if isinstance(a, list):
            return [ref(x) for x in a]
        return a

    for name, op, tgt, args, kwargs in sc:
        N[name] = g.node(name, op, tgt, ref(args), {k: ref(v) for k, v in kwargs.items()})
    return g, N


# ------------------------------------------------------------------ unfolding
def tkey(t: Any) -> str:
    if isinstance(t, ExtV):
        return t.name.replace("_operator.", "operator.")
    if isinstance(t, FuncV):
        return f"{t.module.name}.{t.qualname}"
    if isinstance(t, TV):
        return fmt(t.term)
    if isinstance(t, Obj):
        return fmt(t.term)
    return str(t)


def unfold(it: Interp, g: AbstractGraph, errors: List[str]) -> Any:
    memo: Dict[int, Any] = {}

    def term(n: Obj) -> Any:
        if id(n) in memo:
            return memo[id(n)]
        op, tgt = n.attrs["op"], n.attrs["target"]
        args = deep_map(n.attrs["_args"], term)
        kwargs = {k: deep_map(v, term) for k, v in n.attrs["_kwargs"].items()}
        if op in ("placeholder", "get_attr"):
            r: Any = (op, str(tgt))
        elif op == "output":
            r = ("output", args)
        elif op == "call_function" and isinstance(tgt, FuncV):
            try:
                b = it.bind(tgt, list(args), dict(kwargs))
                r = ("call", tkey(tgt), tuple(sorted((k, _canon(v)) for k, v in b.items())))
            except Unsupported as ex:
                errors.append(f"node {n.attrs['name']}: call of {tkey(tgt)} does not bind: {ex}")
                r = ("call!", tkey(tgt), _canon(args), tuple(sorted((k, _canon(v)) for k, v in kwargs.items())))
        else:
            r = (op, tkey(tgt), _canon(args), tuple(sorted((k, _canon(v)) for k, v in kwargs.items())))
        memo[id(n)] = r
        return r

    out = [n for n in g.nodes if n.attrs["op"] == "output"]
    if len(out) != 1:
        errors.append(f"{len(out)} output nodes")
        return None
    return term(out[0])


def _canon(v: Any) -> Any:
    if isinstance(v, list):
        return tuple(_canon(x) for x in v)
    if isinstance(v, tuple):
        return tuple(_canon(x) for x in v)
    if isinstance(v, dict):
        return tuple(sorted((k, _canon(x)) for k, x in v.items()))
    if isinstance(v, float):
        return sp.Rational(repr(v))
    if isinstance(v, TV):
        return fmt(v.term)
    return v


# ------------------------------------------------------------------ reference rewriter (the recipe)
def reference(it: Interp, sc: Scenario, user_map: Dict[Any, Any]) -> Any:
    U = {n: it.get_global(FN, n) for n in list(COUNTERPART.values()) + ["residual_split", "residual_add"]}
    nodes = {name: (op, tgt, args, kwargs) for name, op, tgt, args, kwargs in sc}
    order = [name for name, *_ in sc]

    def refs(a: Any) -> List[str]:
        if isinstance(a, str) and a.startswith("%"):
            return [a[1:]]
        if isinstance(a, (tuple, list)):
            return [r for x in a for r in refs(x)]
        if isinstance(a, dict):
            return [r for x in a.values() for r in refs(x)]
        return []

    inputs = {n: refs(nodes[n][2]) + refs(nodes[n][3]) for n in order}
    anc: Dict[str, Set[str]] = {}
    for n in order:
        s: Set[str] = set()
        for i in inputs[n]:
            s |= {i} | anc[i]
        anc[n] = s

    def is_add(n: str) -> bool:
        op, tgt, _a, _k = nodes[n]
        return op == "call_function" and isinstance(tgt, ExtV) and tgt.name in ("_operator.add", "_operator.iadd")

    residual: Dict[str, Tuple[str, str]] = {}  # add -> (skip, branch end)
    for n in order:
        if is_add(n):
            a = nodes[n][2]
            if len(a) == 2 and all(isinstance(x, str) and x.startswith("%") for x in a):
                l, r = a[0][1:], a[1][1:]
                if l in anc[r]:
                    residual[n] = (l, r)
                elif r in anc[l]:
                    residual[n] = (r, l)
    skip_of = {skip: add for add, (skip, _b) in residual.items()}

    def target_after(n: str) -> Any:
        op, tgt, _a, _k = nodes[n]
        if op != "call_function":
            return tgt
        for k, v in user_map.items():
            if k is tgt or (isinstance(k, ExtV) and isinstance(tgt, ExtV) and k.name == tgt.name):
                return U[v[2:]] if isinstance(v, str) and v.startswith("U:") else v
        if isinstance(tgt, ExtV) and tkey(tgt) in COUNTERPART:
            return U[COUNTERPART[tkey(tgt)]]
        return tgt

    def branch_targets(add: str) -> Set[str]:
        skip, end = residual[add]
        seen, work, out = set(), [end], set()
        while work:
            p = work.pop()
            if p == skip or p in seen:
                continue
            seen.add(p)
            out.add(tkey(nodes[p][1]))
            out.add(tkey(target_after(p)))
            work += inputs[p]
        return out

    has_successor: Set[str] = set()
    for add in residual:
        has_successor |= {add} | anc[add]

    memo: Dict[Tuple[str, Optional[str]], Any] = {}

    def split_term(skip: str) -> Any:
        add = skip_of[skip]
        tau = sp.Rational(1, 100) if branch_targets(add) & SELF_ATTENTION else sp.Rational(1, 2)
        b = it.bind(U["residual_split"], [term(skip, None), tau], {})
        return ("call", tkey(U["residual_split"]), tuple(sorted((k, _canon(v)) for k, v in b.items()))), tau

    def use(n: str, user: str) -> Any:
        """term of node n as seen by `user` (skip tensors are split)."""
        if n in skip_of:
            st, _tau = split_term(n)
            idx = 1 if skip_of[n] == user else 0
            return ("call_function", "operator.getitem", (st, idx), ())
        return term(n, None)

    def subst(a: Any, user: str) -> Any:
        if isinstance(a, str) and a.startswith("%"):
            return use(a[1:], user)
        if isinstance(a, tuple):
            return tuple(subst(x, user) for x in a)
        if isinstance(a, list):
            return [subst(x, user) for x in a]
        return a

    def term(n: str, _ctx: Optional[str]) -> Any:
        if (n, None) in memo:
            return memo[(n, None)]
        op, tgt, args, kwargs = nodes[n]
        if op in ("placeholder", "get_attr"):
            r: Any = (op, str(tgt))
        elif op == "output":
            r = ("output", subst(args, n))
        elif n in residual:
            skip, end = residual[n]
            _st, tau = split_term(skip)
            b = it.bind(U["residual_add"], [use(end, n), use(skip, n), tau], {})
            r = ("call", tkey(U["residual_add"]), tuple(sorted((k, _canon(v)) for k, v in b.items())))
        elif is_add(n):
            b = it.bind(U["add"], list(subst(args, n)), {**{k: subst(v, n) for k, v in kwargs.items()}, "constraint": None})
            r = ("call", tkey(U["add"]), tuple(sorted((k, _canon(v)) for k, v in b.items())))
        else:
            t2 = target_after(n)
            a2 = subst(args, n)
            k2 = {k: subst(v, n) for k, v in kwargs.items()}
            if isinstance(t2, FuncV):
                if n not in has_successor and "constraint" in it.param_names(t2):
                    k2["constraint"] = None
                b = it.bind(t2, list(a2), k2)
                r = ("call", tkey(t2), tuple(sorted((k, _canon(v)) for k, v in b.items())))
            else:
                if isinstance(t2, Obj) and n not in has_successor and "constraint" in t2.attrs.get("_signature", []):
                    k2["constraint"] = None
                r = (op, tkey(t2), _canon(a2), tuple(sorted((k, _canon(v)) for k, v in k2.items())))
        memo[(n, None)] = r
        return r

    return term("output", None)


def first_diff(a: Any, b: Any, path: str = "output") -> str:
    if type(a) != type(b) and not (isinstance(a, (int, sp.Basic)) and isinstance(b, (int, sp.Basic))):
        return f"{path}: {a!r:.160} vs {b!r:.160}"
    if isinstance(a, tuple):
        if len(a) != len(b):
            return f"{path}: {a!r:.200} vs {b!r:.200}"
        if len(a) >= 2 and isinstance(a[0], str) and a[0] in ("call", "call_function", "call_method", "call!") and isinstance(a[1], str):
            if a[:2] != b[:2]:
                return f"{path}: {a[:2]} vs {b[:2]}"
            path = f"{path}/{a[1].rsplit('.', 1)[-1]}"
        for i, (x, y) in enumerate(zip(a, b)):
            if x != y:
                if isinstance(x, tuple) and len(x) == 2 and isinstance(x[0], str) and isinstance(y, tuple) and len(y) == 2 and x[0] == y[0]:
                    return first_diff(x[1], y[1], f"{path}.{x[0]}")
                return first_diff(x, y, f"{path}[{i}]")
        return ""
    return "" if a == b else f"{path}: {a!r:.160} vs {b!r:.160}"


def check(report: Report, repo: Repo) -> None:
    report.rule_text = (
        "R1 (rewrite == recipe): abstractly execute unit_scaling_backend(replace)(gm) on each scenario graph (abstract fx"
        " model, utils.replace_node_with_function inlined) and compare the unfolded result with the reference rewriter:"
        " mapped ops -> unit-scaled counterparts with the same arguments (user map first); an add whose one operand is an"
        " ancestor of the other -> residual_split(skip, tau)/getitem 0 into the branch/getitem 1 + residual_add(residual,"
        " skip, tau), tau = 0.01 iff the branch contains softmax/attention else 0.5; every other add -> U.add(constraint=None);"
        " ops with no later residual add get constraint=None; everything else untouched; every rewritten call must bind to"
        " its target's signature; the backend must not raise and must lint. R2: torch_map (evaluated statically from the"
        " module namespace and the torch name tables) == the frozen counterpart table. R3: unit_scale() re-initialises the"
        " returned copy (weights / std, biases zeroed; Linear and Embedding), reorders backends on the result, passes"
        " (module, backend(replace), non_recurse=list(replace)) to apply_transform."
    )
    report.explanation = "abstract execution of the graph rewrite on a covering set of hand-built abstract FX graphs vs an independent reference rewriter; translation validation on scenario shapes, not on Dynamo-captured graphs"
    report.assumptions += ["what TorchDynamo captures is not decided; scenario graphs cover the graph shapes named in the property", "torch.fx contract as modelled in usa/fxmodel.py"]

    # ---- R2 torch_map
    it0 = Interp(repo)
    tm = it0.get_global(FN, "torch_map")
    if not isinstance(tm, dict):
        report.add("R2-torch-map", f"{FN}::torch_map", None, f"not statically evaluable: {fmt(tm)}")
    else:
        got = {tkey(k): (v.qualname if isinstance(v, FuncV) and v.module.rel == FN else fmt(v)) for k, v in tm.items()}
        report.add("R2-torch-map", f"{FN}::torch_map", got == COUNTERPART, "the name-based sweep must map exactly the torch callables with a unit-scaled counterpart defined in functional.py; extra: " + str(sorted(set(got) - set(COUNTERPART))) + " missing: " + str(sorted(set(COUNTERPART) - set(got))), sorted(got.items()), sorted(COUNTERPART.items()))

    # ---- R1 scenarios
    n_sc = 0
    for sname, (sc, umap) in scenarios().items():
        it = Interp(repo)
        cons = f"{US}::unit_scaling_backend.inner_backend[{sname.split(' (')[0].split(',')[0]}]"
        g, N = build(it, sc)
        gm = Obj("torch.fx.GraphModule", attrs={"graph": g.obj}, term=T("param", ("gm",)))
        replace = {k: (it.get_global(FN, v[2:]) if isinstance(v, str) and v.startswith("U:") else v) for k, v in umap.items()}
        tm_obj = it.get_global(FN, "torch_map")
        tm_before = dict(tm_obj) if isinstance(tm_obj, dict) else None
        replace_before = dict(replace)
        try:
            usb = it.get_global(US, "unit_scaling_backend")
            backend = it.call_function(usb, [replace], {})
            it.events = []
            res = it.call_function(backend, [gm, O("example_inputs")], {})
        except Unsupported as ex:
            report.add("R1-rewrite", cons, None, f"[{sname}] outside fragment: {ex}")
            continue
        if tm_before is not None:
            same_tm = isinstance(tm_obj, dict) and set(tm_obj) == set(tm_before) and all(tm_obj[k_] is tm_before[k_] for k_ in tm_before)
            report.add("R1-rewrite", f"{FN}::torch_map::unchanged", same_tm, f"[{sname}] running the backend leaves the library's global torch -> unit-scaled table as it was (user replacements of one unit_scale() call must not leak into later ones)", sorted(tkey(k_) for k_ in set(tm_obj) ^ set(tm_before)) if isinstance(tm_obj, dict) else fmt(tm_obj), [], nontrivial=False)
        same_rep = set(replace) == set(replace_before) and all(replace[k_] is replace_before[k_] for k_ in replace_before)
        report.add("R1-rewrite", f"{cons}::replace-unchanged", same_rep, f"[{sname}] the caller's `replace` mapping is not modified", "changed" if not same_rep else "unchanged", "unchanged", nontrivial=False)
        n_sc += 1
        raised = [e["exc"] for e in it.events if e.kind == "raise"]
        report.add("R1-no-raise", cons, not raised and res is not BOTTOM, f"[{sname}] the backend must run without error; " + "; ".join(raised), raised, [])
        errors: List[str] = []
        got = unfold(it, g, errors)
        try:
            exp = reference(it, sc, umap)
        except Unsupported as ex:
            bad = "missing argument" in str(ex) or "unexpected keyword" in str(ex) or "too many positional" in str(ex)
            report.add("R1-binds", cons, False if bad else None, f"[{sname}] the recipe's call (same arguments as the original op) does not bind to the unit-scaled counterpart: {ex}", str(ex), "binds")
            continue
        report.add("R1-binds", cons, not errors, f"[{sname}] every rewritten call must bind to its target's signature; " + "; ".join(errors), errors, [])
        d = first_diff(got, exp) if got is not None else "no output"
        report.add("R1-rewrite", cons, got == exp, f"[{sname}] rewritten graph must equal the recipe; first difference: {d}", str(got)[:500], str(exp)[:500])
        report.add("R1-lint", cons, g.linted >= 1, f"[{sname}] graph.lint() runs on the result", g.linted, ">=1", nontrivial=False)
        # statement nodes (an in-place method whose result nobody reads) are operations too: "all other operations untouched"
        stmts = [nm for nm, op_, _t, _a, _k in sc if nm.startswith("stmt_")]
        if stmts:
            left = [n_.attrs["name"] for n_ in g.nodes]
            gone = [nm for nm in stmts if nm not in left]
            report.add("R1-rewrite", f"{cons}::statements", not gone, f"[{sname}] in-place method calls used as statements survive the rewrite (torch.fx regards every call_method node as pure, so a dead-code sweep would delete them)", gone, [])
    from .c17 import check_root_entry

    check_root_entry(report, repo, "R3-unit_scale")  # the transform is only applied at all if TorchDynamo traces the root
    report.floor("scenario graphs executed", n_sc, 10)

    # ---- R1 call forms of torch.nn's own wrapper modules (what TorchDynamo inlines for nn.Softmax, nn.GELU, ...):
    # read from the installed torch/nn/modules/*.py with ast; each must bind to the unit-scaled counterpart
    n_forms = 0
    for mod_name, forms in nn_wrapper_call_forms().items():
        for fn_name, npos, kws, where in forms:
            tgt_name = COUNTERPART.get(F + fn_name)
            if tgt_name is None:
                continue
            n_forms += 1
            target = it0.unwrap(it0.get_global(FN, tgt_name))
            cons = f"{FN}::{tgt_name}::signature[nn.{mod_name}]"
            try:
                it0.bind(target, [O(f"a{i}") for i in range(npos)], {k_: O(k_) for k_ in kws})
                report.add("R1-binds", cons, True, f"nn.{mod_name} calls F.{fn_name} with {npos} positional arguments and keywords {sorted(kws)} ({where}): binds to U.{tgt_name}", "binds", "binds", nontrivial=False)
            except Unsupported as ex:
                report.add("R1-binds", cons, False, f"nn.{mod_name} calls F.{fn_name} with {npos} positional arguments and keywords {sorted(kws)} ({where}); after unit_scale the same call goes to U.{tgt_name}, whose signature rejects it: {ex}", str(ex), "binds")
    report.note("nn_wrapper_call_forms", n_forms)
    report.floor("torch.nn wrapper call forms read from the installed sources", n_forms, 8)

    # ---- R3 unit_scale(): copy, reorder, re-initialise (run for real on an abstract module)
    it3 = Interp(repo)
    us = it3.get_global(US, "unit_scale")

    def child(cls_name: str, nm: str) -> Obj:
        return Obj(cls_name, attrs={"weight": P(f"{nm}.w", None), "bias": P(f"{nm}.b", None), "_children": [], "__module__": "user_code.layers"}, term=None)

    lin, emb, ln = child("torch.nn.Linear", "lin"), child("torch.nn.Embedding", "emb"), child("torch.nn.LayerNorm", "ln")
    embp = child("torch.nn.Embedding", "embp")  # an embedding with a padding row: "weights to unit variance" has no exception for it
    emb.attrs["padding_idx"] = None
    embp.attrs["padding_idx"] = 1
    prev_backend = user_function("earlier_backend", ["gm", "example_inputs"])
    prev_backend.attrs["__qualname__"] = "make_earlier_backend.<locals>.earlier_backend"
    mod = Obj("torch.nn.Module", term=None)
    mod.attrs.update({"forward": O("m.forward"), "_children": [("lin", lin), ("emb", emb), ("embp", embp), ("ln", ln)], "__module__": "user_code.models", "backends": [prev_backend]})
    key = user_function("user_fn", ["x"])
    rep = {key: user_function("user_target", ["x"])}
    cons = f"{US}::unit_scale"
    try:
        it3.events = []
        before = {id(c): dict(c.attrs) for c in (lin, emb, embp, ln)}
        res = it3.call_function(us, [mod, rep], {})
        ok = isinstance(res, Obj) and res is not mod
        report.add("R3-unit_scale", f"{cons}::returns-copy", ok, "unit_scale returns a transformed copy", fmt(res)[:80], "a new module")
        if ok:
            untouched = all(all(c.attrs.get(k) is v for k, v in before[id(c)].items()) for c in (lin, emb, embp, ln)) and mod.attrs.get("backends") == [prev_backend] and "rerun_transform" not in mod.attrs
            report.add("R3-unit_scale", f"{cons}::input-untouched", untouched, "the argument module (its weights, biases and backend list) is never re-initialised or modified", "modified" if not untouched else "unchanged", "unchanged")
            ch = dict(res.attrs.get("_children", []))
            for nm, want in (("lin", True), ("emb", True), ("embp", True), ("ln", False)):
                c = ch.get(nm)
                w = TM.term_of(c.attrs.get("weight")) if isinstance(c, Obj) else None
                b_ = TM.term_of(c.attrs.get("bias")) if isinstance(c, Obj) else None
                cw, cb = T("copy", (T("param", (f"{nm}.w",)),)), T("copy", (T("param", (f"{nm}.b",)),))
                if want:
                    okw = w == T("div", (cw, T("method", ("std", cw, (), ()))))
                    okb = b_ == T("sub", (cb, cb)) or (isinstance(b_, T) and b_.op == "method" and b_.args[0] == "zero_")
                    report.add("R3-unit_scale", f"{cons}::reinit[{nm}]", okw and okb, f"the copy's {nm} weight is divided by its own std and its bias zeroed", f"w={fmt(w)} b={fmt(b_)}", "w/std(w), 0")
                else:
                    report.add("R3-unit_scale", f"{cons}::reinit[{nm}]", w == cw and b_ == cb, "modules other than Linear/Embedding keep their parameters", f"w={fmt(w)} b={fmt(b_)}", "unchanged", nontrivial=False)
            bad = [e for e in it3.events if e.kind == "inplace" and any(not str(a).startswith("copy:") for a in (e.get("alias") or ()))]
            report.add("R3-unit_scale", f"{cons}::inplace-on-copy", not bad, "every in-place re-initialisation acts on the copy's tensors", [e["op"] for e in bad], [])
            ng = [e for e in it3.events if e.kind == "inplace"]
            report.add("R3-unit_scale", f"{cons}::no_grad", bool(ng) and all(any("no_grad" in fmt(w_["ctx"]) for w_ in it3.events if w_.kind == "with") for _e in ng[:1]), "re-initialisation happens under torch.no_grad()", len(ng), ">=1", nontrivial=False)
            bl = res.attrs.get("backends")
            okb = isinstance(bl, list) and len(bl) == 2 and bl[0] is prev_backend and isinstance(bl[1], FuncV) and bl[1].env is not None and bl[1].env.lookup("replacement_map")[1] is rep
            report.add("R3-unit_scale", f"{cons}::backend", okb, "the unit-scaling backend built from `replace` is appended to the copy's backend list", fmt(bl)[:120], "[earlier..., unit_scaling_backend(replace)]")
            allow = [e for e in it3.events if e.kind == "call" and e["callee"] == "torch._dynamo.allow_in_graph"]
            report.add("R3-unit_scale", f"{cons}::non-recurse", len(allow) == 1 and allow[0]["args"][0] is key, "user-replaced functions are kept as leaf calls (allow_in_graph on each key of `replace`)", len(allow), 1)
    except Unsupported as ex:
        report.add("R3-unit_scale", cons, None, f"outside fragment: {ex}")
