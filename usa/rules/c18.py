"""C18 -- scale tracking is observational: tracker autograd functions are identities in
both passes, instrumentation sits at the producer under the float-tensor predicate,
metric fields equal their definitions."""
from __future__ import annotations

from typing import Any, Dict, List

import sympy as sp

from .. import terms as TM
from ..absint import Interp, Unsupported
from ..core import AnalysisError, Report, Repo
from ..schemas import O, P
from ..values import BOTTOM, ClassV, FuncV, Gamma, Obj, T, TV, fmt

TS = "unit_scaling/transforms/_track_scales.py"
UT = "unit_scaling/utils.py"


def ident_ok(term: Any, src: Any) -> bool:
    """term is `src` itself or a clone of it (no arithmetic, no detach, no cast)."""
    if term == src:
        return True
    return isinstance(term, T) and term.op == "method" and term.args[0] == "clone" and term.args[1] == src and not term.args[2]


def method_chain(term: Any) -> List[str]:
    out = []
    while isinstance(term, T) and term.op == "method":
        out.append(term.args[0] + ("" if not term.args[2] and not term.args[3] else fmt(term.args[2]) + fmt(term.args[3])))
        term = term.args[1]
    out.append(fmt(term))
    return out


EXPECTED_METRICS = {
    "mean_abs": ["mean", "abs", "t"],
    "abs_mean": ["abs", "mean", "t"],
    "std": ["std", "t"],
    "abs_max": ["max", "abs", "t"],
    "abs_min": ["min", "abs", "t"],
}


def _eval_cond(c: Any, A: bool, B: bool) -> Any:
    """Evaluate a condition term over the two atoms isinstance(out, Tensor) (A) and
    out.is_floating_point() (B); None if it mentions anything else."""
    import sympy as _sp

    if isinstance(c, bool):
        return c
    if isinstance(c, T):
        if c.op == "not":
            v = _eval_cond(c.args[0], A, B)
            return None if v is None else (not v)
        if c.op in ("and", "or"):
            vs = [_eval_cond(x, A, B) for x in c.args]
            if any(v is None for v in vs):
                return None
            return all(vs) if c.op == "and" else any(vs)
        if c.op == "isinstance":
            return A if "Tensor" in fmt(c) else None
        if c.op == "truth":
            return B if "is_floating_point" in fmt(c) else None
        if "is_floating_point" in fmt(c) and c.op in ("method", "callv"):
            return B
    return None


def _leaf_for(v: Any, A: bool, B: bool) -> Any:
    """Select the leaf of a gated value under an assignment of the two atoms."""
    while isinstance(v, Gamma):
        t = _eval_cond(v.cond, A, B)
        if t is None:
            return ("?", fmt(v.cond))
        v = v.a if t else v.b
    return v


def check(report: Report, repo: Repo) -> None:
    report.rule_text = (
        "R1: forward of ScaleTrackingAutogradFunction / ScaleTracker returns its tensor argument itself or its clone;"
        " backward returns the incoming gradient (or clone) in slot 0 and None elsewhere; forward metrics are recorded from"
        " the forward argument, backward metrics from the backward argument, bwd starts as None."
        " R2: in both interpreters' run_node the value returned is gamma(float-tensor predicate of the produced value ?"
        " tracker.apply(produced value, ...) : produced value) -- instrumentation at the producer, non-float values untouched."
        " R3: each Metrics field == its definition as a method chain (mean_abs = t.abs().mean(), abs_mean = t.mean().abs(),"
        " std = t.std(), abs_max = t.abs().max(), abs_min = t.abs().min(), numel = t.numel())."
        " R4: _make_input_tensors_require_grad only calls requires_grad_() on float-tensor arguments and delegates unchanged."
    )
    report.explanation = "abstract interpretation of the tracking autograd functions, interpreters and metric constructors"
    report.assumptions += ["autograd sums gradients over all consumers before calling a custom function's backward", "bit-identity of outputs under Dynamo is not decided"]

    it = Interp(repo, opaque=lambda f: isinstance(f, ClassV) and f.qualname == "Metrics")
    # ---------------- R1: the two tracker functions
    for rel, cname, extra in ((TS, "ScaleTrackingAutogradFunction", "node_meta"), (UT, "ScaleTracker", "scale_tracker")):
        cls = it.get_global(rel, cname)
        if not isinstance(cls, ClassV):
            raise AnalysisError(f"anchor vanished: {rel}::{cname}")
        t = P("t", None)
        ctx = Obj("ctx", term=T("param", ("ctx",)))
        aux = {} if extra == "node_meta" else Obj("ScalePair", term=T("param", ("scale_tracker",)))
        cons = f"{rel}::{cname}"
        try:
            it.events = []
            r = it.call_function(it.class_attr(cls, "forward"), [ctx, t, aux], {})
            report.add("R1-identity", f"{cons}.forward", ident_ok(TM.term_of(r), t.term), "forward must return its tensor argument (or a clone): no arithmetic, detach or cast", fmt(r), "t | t.clone()")
            if extra == "node_meta":
                news = [e for e in it.events if e.kind == "new" and e["cls"].qualname == "Metrics"]
                okm = len(news) == 1 and TM.term_of(news[0]["bound"].get("fwd_tensor")) == t.term and isinstance(aux.get("metrics"), Obj)
                report.add("R1-identity", f"{cons}.forward::metrics", okm, "forward metrics are computed from the forward argument and stored under node_meta['metrics']", fmt([e['bound'] for e in news]), "Metrics(fwd_tensor=t)")
                report.add("R1-identity", f"{cons}.forward::ctx", ctx.attrs.get("node_meta") is aux, "the same meta dict is kept for the backward pass", fmt(ctx.attrs.get("node_meta")), "node_meta", nontrivial=False)
            if extra == "node_meta":
                # a second forward through the same node (module called again) starts from a clean
                # record: no backward metrics may be carried over from the previous call
                stale = Obj("Metrics", attrs={"fwd": O("old_fwd"), "bwd": O("old_bwd_from_previous_call")}, cls=it.get_global(TS, "Metrics"), term=T("param", ("previous_metrics",)))
                meta2 = {"metrics": stale}
                it.events = []
                it.call_function(it.class_attr(cls, "forward"), [Obj("ctx", term=T("param", ("ctx2",))), P("t2", None), meta2], {})
                cur = meta2.get("metrics")
                news2 = [e for e in it.events if e.kind == "new" and e["cls"].qualname == "Metrics"]
                fresh = isinstance(cur, Obj) and cur is not stale and len(news2) == 1
                reset = isinstance(cur, Obj) and cur is stale and cur.attrs.get("bwd", 0) is None
                report.add("R1-identity", f"{cons}.forward::fresh-record", fresh or reset, "each forward pass records into a fresh Metrics (bwd = None) so a call without backward reports no backward metrics", "stale bwd kept" if not (fresh or reset) else "fresh", "new Metrics(fwd_tensor=t)")
            g = P("grad", None)
            if extra == "node_meta":
                mobj = Obj("Metrics", term=T("param", ("metrics",)))
                ctx2 = Obj("ctx", attrs={"node_meta": {"metrics": mobj}}, term=T("param", ("ctx",)))
            else:
                ctx2 = Obj("ctx", attrs={"scale_tracker": Obj("ScalePair", term=T("param", ("pair",)))}, term=T("param", ("ctx",)))
            it.events = []
            r = it.call_function(it.class_attr(cls, "backward"), [ctx2, g], {})
            ok = isinstance(r, tuple) and len(r) >= 1 and ident_ok(TM.term_of(r[0]), g.term) and all(x is None for x in r[1:])
            report.add("R1-identity", f"{cons}.backward", ok, "backward must return the incoming gradient (or a clone) for the tensor and None for the other inputs", fmt(r), "(grad | grad.clone(), None, ...)")
            if extra == "node_meta":
                sb = [e for e in it.events if e.kind == "callv" and "set_bwd" in fmt(e["callee"])]
                vals = [TM.term_of(v) for e in sb for v in list(e["args"]) + list(e["kwargs"].values())]
                report.add("R1-identity", f"{cons}.backward::metrics", len(sb) == 1 and vals == [g.term], "backward metrics are recorded from the backward argument (the total incoming gradient)", fmt(vals), "set_bwd(grad)")
        except Unsupported as ex:
            report.add("R1-identity", cons, None, f"outside fragment: {ex}")

    # Metrics.__init__: bwd starts as None, fwd from the tensor
    it_m = Interp(repo)
    mcls = it_m.get_global(TS, "Metrics")
    try:
        t = P("t", None)
        m = it_m.call_function(mcls, [], {"fwd_tensor": t})
        report.add("R1-identity", f"{TS}::Metrics.__init__::bwd", isinstance(m, Obj) and "bwd" in m.attrs and m.attrs["bwd"] is None, "a tensor that receives no gradient reports no backward metrics (bwd starts as None)", fmt(m.attrs.get("bwd", "<unset>")), "None")
        # ---------------- R3 metric definitions
        data = m.attrs.get("fwd")
        if not isinstance(data, Obj):
            report.add("R3-metrics", f"{TS}::Metrics.from_tensor", False, "fwd metrics are not a Metrics.Data record", fmt(data), "Metrics.Data(...)")
        else:
            for fld, chain in EXPECTED_METRICS.items():
                v = data.attrs.get(fld)
                src = it_m.data_syms.get(v) if isinstance(v, sp.Symbol) else None
                got = (["item"] if src and src[0] == ".item()" else [f"<{src[0] if src else fmt(v)}>"]) + (method_chain(src[1].term) if src else [])
                exp = ["item"] + chain
                report.add("R3-metrics", f"{TS}::Metrics.from_tensor::{fld}", got == exp, f"field '{fld}' must be computed as t.{'.'.join(reversed(chain[:-1]))}().item()", ".".join(got), ".".join(exp))
            v = data.attrs.get("numel")
            report.add("R3-metrics", f"{TS}::Metrics.from_tensor::numel", isinstance(v, sp.Symbol) and v.name == "numel(t)", "field 'numel' must be t.numel()", fmt(v), "numel(t)")
            m2 = Obj("Metrics", cls=mcls)
            it_m.call_function(it_m.class_attr(mcls, "set_bwd"), [m2, P("g", None)], {})
            b = m2.attrs.get("bwd")
            okb = isinstance(b, Obj) and isinstance(b.attrs.get("std"), sp.Symbol) and method_chain(it_m.data_syms[b.attrs["std"]][1].term) == ["std", "g"]
            report.add("R3-metrics", f"{TS}::Metrics.set_bwd", okb, "set_bwd records the same statistics of the gradient tensor", fmt(b), "from_tensor(g)")
    except Unsupported as ex:
        report.add("R3-metrics", f"{TS}::Metrics", None, f"outside fragment: {ex}")

    # ---------------- R2 producer-side instrumentation
    for rel, cname, tracker in ((TS, "ScaleTrackingInterpreter", "ScaleTrackingAutogradFunction"), (UT, "ScaleTrackingInterpreter", "ScaleTracker")):
        it2 = Interp(repo)
        cls = it2.get_global(rel, cname)
        n = Obj("torch.fx.Node", attrs={"meta": {}, "name": "node_name"}, term=T("param", ("n",)))
        selfv = Obj(cname, cls=cls, attrs={"scales": {}}, term=T("param", ("self",)))
        cons = f"{rel}::{cname}.run_node"
        try:
            it2.events = []
            r = it2.call_function(it2.class_attr(cls, "run_node"), [selfv, n], {})
        except Unsupported as ex:
            report.add("R2-producer", cons, None, f"outside fragment: {ex}")
            continue
        sup = [e for e in it2.events if e.kind == "super" and e["method"] == "run_node"]
        ag = [e for e in it2.events if e.kind == "autograd"]
        out_t = T("super", ("run_node", (n.term,), ()))
        if len(sup) != 1:
            report.add("R2-producer", cons, False, "run_node must compute the node exactly once via super().run_node(n)", len(sup), 1)
            continue
        # decide the returned value for each truth assignment of the two predicate atoms
        table = {}
        for A_ in (True, False):
            for B_ in (True, False):
                leaf = _leaf_for(r, A_, B_)
                table[(A_, B_)] = TM.term_of(leaf) if not (isinstance(leaf, tuple) and leaf and leaf[0] == "?") else leaf
        wrap_ok = len(ag) >= 1 and all(e["cls"].qualname == tracker and TM.term_of(e["args"][0]) == out_t for e in ag)
        wrap_terms = [e["result"].term for e in ag]
        okc = all(not (isinstance(v, tuple) and v and v[0] == "?") for v in table.values())
        report.add("R2-producer", f"{cons}::predicate", okc and table[(True, True)] in wrap_terms and all(table[k] == out_t for k in table if k != (True, True)), "the produced value is wrapped iff isinstance(out, Tensor) and out.is_floating_point(); every other value is returned untouched", {str(k): fmt(v) for k, v in table.items()}, "wrap iff (Tensor, float)")
        report.add("R2-producer", f"{cons}::wrap", wrap_ok, f"float tensors: the returned value is {tracker}.apply(<produced value>, ...) so every consumer reads the wrapped tensor", [fmt(e["args"][0]) for e in ag], f"{tracker}.apply(out, ...)")
        report.add("R2-producer", f"{cons}::non-float", table[(False, False)] == out_t and table[(True, False)] == out_t, "non-float values are returned untouched", fmt(table[(True, False)]), fmt(out_t))
        if rel == TS:
            okm = len(ag) >= 1 and all(len(e["args"]) == 2 and e["args"][1] is n.attrs["meta"] for e in ag)
            report.add("R2-producer", f"{cons}::meta", okm, "metrics are written into the producing node's own meta dict", fmt(ag[0]["args"][1]) if ag else "-", "n.meta", nontrivial=False)

    # ---------------- R4 requires-grad shim (found through track_scales: the wrapper it installs as forward)
    it4 = Interp(repo, opaque=lambda f: isinstance(f, FuncV) and f.qualname == "apply_transform")
    cons = f"{TS}::track_scales::forward-shim"
    try:
        ts = it4.get_global(TS, "track_scales")
        it4.events = []
        mod = Obj("torch.nn.Module", term=T("param", ("module",)))
        it4.call_function(ts, [mod], {})
        shims = [e["value"] for e in it4.events if e.kind == "setattr" and e["attr"] == "forward" and isinstance(e["value"], FuncV)]
        if len(shims) != 1:
            report.add("R4-shim", cons, False, "track_scales must install exactly one forward wrapper (inputs need requires_grad for backward metrics)", len(shims), 1)
        else:
            nf = shims[0]
            old_fwd = nf.env.lookup("old_forward")[1] if nf.env is not None else None
            x, i = P("x", None), O("idx")
            it4.events = []
            r = it4.call_function(nf, [x, i], {"k": P("y", None)})
            ops = [e for e in it4.events if e.kind == "inplace"] + [e for e in it4.events if e.kind == "method" and e["name"] not in ("is_floating_point",)]
            names = sorted({(e.get("op") or e.get("name")) for e in ops})
            report.add("R4-shim", f"{cons}::effects", names in (["requires_grad_"], []), "the only operation applied to the arguments is requires_grad_()", names, ["requires_grad_"])
            guarded = all(any("is_floating_point" in fmt(c) for c, pol in e.guard if pol) or "is_floating_point" in TM.guard_str(e.guard) for e in ops)
            report.add("R4-shim", f"{cons}::guard", guarded, "requires_grad_() only under the float-tensor predicate", [TM.guard_str(e.guard) for e in ops], "is_float_tensor(a)")
            rt = TM.term_of(r)
            okd = isinstance(rt, T) and rt.op == "callv" and rt.args[1] == (x.term, i.term) and dict(rt.args[2]) == {"k": T("param", ("y",))}
            report.add("R4-shim", f"{cons}::delegate", okd, "delegates to the original forward with unchanged arguments", fmt(r), "old_forward(x, idx, k=y)")
    except Unsupported as ex:
        report.add("R4-shim", cons, None, f"outside fragment: {ex}")
    report.floor("obligations", len(report.obls), 25)
