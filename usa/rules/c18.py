"""C18 -- scale tracking is observational: tracker autograd functions are identities in
both passes, instrumentation sits at the producer under the float-tensor predicate,
metric fields equal their definitions."""
from __future__ import annotations

from typing import Any, Dict, List

import sympy as sp

from .. import terms as TM
from ..absint import Interp, Unsupported
from ..core import AnalysisError, Report, Repo
from ..schemas import O, P
from ..values import BOTTOM, ClassV, FuncV, Gamma, Obj, T, TV, fmt

TS = "unit_scaling/transforms/_track_scales.py"
UT = "unit_scaling/utils.py"


def ident_ok(term: Any, src: Any) -> bool:
    """term is `src` itself or a clone of it (no arithmetic, no detach, no cast)."""
    if term == src:
        return True
    return isinstance(term, T) and term.op == "method" and term.args[0] == "clone" and term.args[1] == src and not term.args[2]


def method_chain(term: Any) -> List[str]:
    out = []
    while isinstance(term, T) and term.op == "method":
        out.append(term.args[0] + ("" if not term.args[2] and not term.args[3] else fmt(term.args[2]) + fmt(term.args[3])))
        term = term.args[1]
    out.append(fmt(term))
    return out


EXPECTED_METRICS = {
    "mean_abs": ["mean", "abs", "t"],
    "abs_mean": ["abs", "mean", "t"],
    "std": ["std", "t"],
    "abs_max": ["max", "abs", "t"],
    "abs_min": ["min", "abs", "t"],
}


def _atom_kind(c: Any) -> Any:
    """'A' for isinstance(out, Tensor), 'B' for out.is_floating_point(), else the atom's text."""
    if isinstance(c, T):
        if c.op == "isinstance" and "Tensor" in fmt(c):
            return "A"
        if "is_floating_point" in fmt(c) and c.op in ("truth", "method", "callv", "call"):
            return "B"
    return fmt(c)


def _atoms(c: Any, out: set) -> None:
    if isinstance(c, T) and c.op in ("not", "and", "or"):
        for x in c.args:
            _atoms(x, out)
    elif not isinstance(c, bool):
        out.add(_atom_kind(c))


def _eval_cond(c: Any, val: Dict[str, bool]) -> Any:
    if isinstance(c, bool):
        return c
    if isinstance(c, T) and c.op == "not":
        v = _eval_cond(c.args[0], val)
        return None if v is None else (not v)
    if isinstance(c, T) and c.op in ("and", "or"):
        vs = [_eval_cond(x, val) for x in c.args]
        if any(v is None for v in vs):
            return None
        return all(vs) if c.op == "and" else any(vs)
    return val.get(_atom_kind(c))


def _leaf_for(v: Any, val: Dict[str, bool]) -> Any:
    """Select the leaf of a gated value under an assignment of the condition atoms."""
    while isinstance(v, Gamma):
        t = _eval_cond(v.cond, val)
        if t is None:
            return ("?", fmt(v.cond))
        v = v.a if t else v.b
    return v


def _gamma_atoms(v: Any, out: set) -> None:
    if isinstance(v, Gamma):
        _atoms(v.cond, out)
        _gamma_atoms(v.a, out)
        _gamma_atoms(v.b, out)


def check(report: Report, repo: Repo) -> None:
    report.rule_text = (
        "R1: forward of ScaleTrackingAutogradFunction / ScaleTracker returns its tensor argument itself or its clone;"
        " backward returns the incoming gradient (or clone) in slot 0 and None elsewhere; forward metrics are recorded from"
        " the forward argument, backward metrics from the backward argument, bwd starts as None."
        " R2: in both interpreters' run_node the value returned is gamma(float-tensor predicate of the produced value ?"
        " tracker.apply(produced value, ...) : produced value) -- instrumentation at the producer, non-float values untouched."
        " R3: each Metrics field == its definition as a method chain (mean_abs = t.abs().mean(), abs_mean = t.mean().abs(),"
        " std = t.std(), abs_max = t.abs().max(), abs_min = t.abs().min(), numel = t.numel())."
        " R4: _make_input_tensors_require_grad only calls requires_grad_() on float-tensor arguments and delegates unchanged."
    )
    report.explanation = "abstract interpretation of the tracking autograd functions, interpreters and metric constructors"
    report.assumptions += ["autograd sums gradients over all consumers before calling a custom function's backward", "bit-identity of outputs under Dynamo is not decided"]

    it = Interp(repo, opaque=lambda f: isinstance(f, ClassV) and f.qualname == "Metrics")
    # ---------------- R1: the two tracker functions
    for rel, cname, extra in ((TS, "ScaleTrackingAutogradFunction", "node_meta"), (UT, "ScaleTracker", "scale_tracker")):
        cls = it.get_global(rel, cname)
        if not isinstance(cls, ClassV):
            raise AnalysisError(f"anchor vanished: {rel}::{cname}")
        t = P("t", None)
        ctx = Obj("ctx", term=T("param", ("ctx",)))
        aux = {} if extra == "node_meta" else Obj("ScalePair", term=T("param", ("scale_tracker",)))
        cons = f"{rel}::{cname}"
        try:
            it.events = []
            r = it.call_function(it.class_attr(cls, "forward"), [ctx, t, aux], {})
            report.add("R1-identity", f"{cons}.forward", ident_ok(TM.term_of(r), t.term), "forward must return its tensor argument (or a clone): no arithmetic, detach or cast", fmt(r), "t | t.clone()")
            if extra == "node_meta":
                news = [e for e in it.events if e.kind == "new" and e["cls"].qualname == "Metrics"]
                okm = len(news) == 1 and TM.term_of(news[0]["bound"].get("fwd_tensor")) == t.term and isinstance(aux.get("metrics"), Obj)
                report.add("R1-identity", f"{cons}.forward::metrics", okm, "forward metrics are computed from the forward argument and stored under node_meta['metrics']", fmt([e['bound'] for e in news]), "Metrics(fwd_tensor=t)")
                report.add("R1-identity", f"{cons}.forward::ctx", ctx.attrs.get("node_meta") is aux, "the same meta dict is kept for the backward pass", fmt(ctx.attrs.get("node_meta")), "node_meta", nontrivial=False)
            if extra == "node_meta":
                # a second forward through the same node (module called again) starts from a clean
                # record: no backward metrics may be carried over from the previous call
                stale = Obj("Metrics", attrs={"fwd": O("old_fwd"), "bwd": O("old_bwd_from_previous_call")}, cls=it.get_global(TS, "Metrics"), term=T("param", ("previous_metrics",)))
                meta2 = {"metrics": stale}
                it.events = []
                it.call_function(it.class_attr(cls, "forward"), [Obj("ctx", term=T("param", ("ctx2",))), P("t2", None), meta2], {})
                cur = meta2.get("metrics")
                news2 = [e for e in it.events if e.kind == "new" and e["cls"].qualname == "Metrics"]
                fresh = isinstance(cur, Obj) and cur is not stale and len(news2) == 1
                reset = isinstance(cur, Obj) and cur is stale and cur.attrs.get("bwd", 0) is None
                report.add("R1-identity", f"{cons}.forward::fresh-record", fresh or reset, "each forward pass records into a fresh Metrics (bwd = None) so a call without backward reports no backward metrics", "stale bwd kept" if not (fresh or reset) else "fresh", "new Metrics(fwd_tensor=t)")
            g = P("grad", None)
            if extra == "node_meta":
                mobj = Obj("Metrics", term=T("param", ("metrics",)))
                ctx2 = Obj("ctx", attrs={"node_meta": {"metrics": mobj}}, term=T("param", ("ctx",)))
            else:
                ctx2 = Obj("ctx", attrs={"scale_tracker": Obj("ScalePair", term=T("param", ("pair",)))}, term=T("param", ("ctx",)))
            it.events = []
            r = it.call_function(it.class_attr(cls, "backward"), [ctx2, g], {})
            ok = isinstance(r, tuple) and len(r) >= 1 and ident_ok(TM.term_of(r[0]), g.term) and all(x is None for x in r[1:])
            report.add("R1-identity", f"{cons}.backward", ok, "backward must return the incoming gradient (or a clone) for the tensor and None for the other inputs", fmt(r), "(grad | grad.clone(), None, ...)")
            if ok:
                # grad-mode typestate: autograd runs backward() with recording on when the caller asked for
                # create_graph=True; a gradient produced inside no_grad / inference_mode is cut out of that graph
                cut = [x for x in r if isinstance(x, TV) and getattr(x, "nograd", False)]
                report.add("R1-identity", f"{cons}.backward::grad-mode", not cut, "the gradient handed back is not produced inside a no_grad / inference_mode region (double backward through a tracked module keeps its second-order terms)", "produced under no_grad" if cut else "caller's grad mode", "caller's grad mode")
            if extra == "node_meta":
                sb = [e for e in it.events if e.kind == "callv" and "set_bwd" in fmt(e["callee"])]
                vals = [TM.term_of(v) for e in sb for v in list(e["args"]) + list(e["kwargs"].values())]
                report.add("R1-identity", f"{cons}.backward::metrics", len(sb) == 1 and vals == [g.term], "backward metrics are recorded from the backward argument (the total incoming gradient)", fmt(vals), "set_bwd(grad)")
        except Unsupported as ex:
            report.add("R1-identity", cons, None, f"outside fragment: {ex}")

    # Metrics.__init__: bwd starts as None, fwd from the tensor
    it_m = Interp(repo)
    mcls = it_m.get_global(TS, "Metrics")
    try:
        t = P("t", None)
        m = it_m.call_function(mcls, [], {"fwd_tensor": t})
        report.add("R1-identity", f"{TS}::Metrics.__init__::bwd", isinstance(m, Obj) and "bwd" in m.attrs and m.attrs["bwd"] is None, "a tensor that receives no gradient reports no backward metrics (bwd starts as None)", fmt(m.attrs.get("bwd", "<unset>")), "None")
        # ---------------- R3 metric definitions
        data = m.attrs.get("fwd")
        if not isinstance(data, Obj):
            report.add("R3-metrics", f"{TS}::Metrics.from_tensor", False, "fwd metrics are not a Metrics.Data record", fmt(data), "Metrics.Data(...)")
        else:
            for fld, chain in EXPECTED_METRICS.items():
                v = data.attrs.get(fld)
                src = it_m.data_syms.get(v) if isinstance(v, sp.Symbol) else None
                got = (["item"] if src and src[0] == ".item()" else [f"<{src[0] if src else fmt(v)}>"]) + (method_chain(src[1].term) if src else [])
                exp = ["item"] + chain
                report.add("R3-metrics", f"{TS}::Metrics.from_tensor::{fld}", got == exp, f"field '{fld}' must be computed as t.{'.'.join(reversed(chain[:-1]))}().item()", ".".join(got), ".".join(exp))
            v = data.attrs.get("numel")
            report.add("R3-metrics", f"{TS}::Metrics.from_tensor::numel", isinstance(v, sp.Symbol) and v.name == "numel(t)", "field 'numel' must be t.numel()", fmt(v), "numel(t)")
            m2 = Obj("Metrics", cls=mcls)
            it_m.call_function(it_m.class_attr(mcls, "set_bwd"), [m2, P("g", None)], {})
            b = m2.attrs.get("bwd")
            okb = isinstance(b, Obj) and isinstance(b.attrs.get("std"), sp.Symbol) and method_chain(it_m.data_syms[b.attrs["std"]][1].term) == ["std", "g"]
            report.add("R3-metrics", f"{TS}::Metrics.set_bwd", okb, "set_bwd records the same statistics of the gradient tensor", fmt(b), "from_tensor(g)")
    except Unsupported as ex:
        report.add("R3-metrics", f"{TS}::Metrics", None, f"outside fragment: {ex}")

    # ---------------- R2 producer-side instrumentation
    for rel, cname, tracker in ((TS, "ScaleTrackingInterpreter", "ScaleTrackingAutogradFunction"), (UT, "ScaleTrackingInterpreter", "ScaleTracker")):
        it2 = Interp(repo)
        cls = it2.get_global(rel, cname)
        n = Obj("torch.fx.Node", attrs={"meta": {}, "name": "node_name"}, term=T("param", ("n",)))
        selfv = Obj(cname, cls=cls, attrs={"scales": {}}, term=T("param", ("self",)))
        cons = f"{rel}::{cname}.run_node"
        try:
            it2.events = []
            r = it2.call_function(it2.class_attr(cls, "run_node"), [selfv, n], {})
        except Unsupported as ex:
            report.add("R2-producer", cons, None, f"outside fragment: {ex}")
            continue
        sup = [e for e in it2.events if e.kind == "super" and e["method"] == "run_node"]
        ag = [e for e in it2.events if e.kind == "autograd"]
        out_t = T("super", ("run_node", (n.term,), ()))
        if len(sup) != 1:
            report.add("R2-producer", cons, False, "run_node must compute the node exactly once via super().run_node(n)", len(sup), 1)
            continue
        # decide the returned value for each truth assignment of the two predicate atoms; any further
        # condition the code consults must not change the outcome (the wrap decision is a function of the
        # float-tensor predicate alone)
        import itertools as _it

        atoms: set = set()
        _gamma_atoms(r, atoms)
        extras = sorted(atoms - {"A", "B"})
        table = {}
        depends = []
        for A_ in (True, False):
            for B_ in (True, False):
                seen_ = []
                for combo in _it.product((True, False), repeat=min(len(extras), 6)):
                    val = {"A": A_, "B": B_, **dict(zip(extras, combo))}
                    leaf = _leaf_for(r, val)
                    seen_.append(TM.term_of(leaf) if not (isinstance(leaf, tuple) and leaf and leaf[0] == "?") else leaf)
                table[(A_, B_)] = seen_[0]
                if any(x != seen_[0] for x in seen_[1:]):
                    depends.append((A_, B_))
        if depends:
            report.add("R2-producer", f"{cons}::predicate", False, "whether the produced value is wrapped must depend on the float-tensor predicate alone; it also depends on: " + "; ".join(extras), {str(k): fmt(table[k]) for k in depends}, "wrap iff (Tensor, float)")
            continue
        wrap_ok = len(ag) >= 1 and all(e["cls"].qualname == tracker and TM.term_of(e["args"][0]) == out_t for e in ag)
        wrap_terms = [e["result"].term for e in ag]
        okc = all(not (isinstance(v, tuple) and v and v[0] == "?") for v in table.values())
        report.add("R2-producer", f"{cons}::predicate", okc and table[(True, True)] in wrap_terms and all(table[k] == out_t for k in table if k != (True, True)), "the produced value is wrapped iff isinstance(out, Tensor) and out.is_floating_point(); every other value is returned untouched", {str(k): fmt(v) for k, v in table.items()}, "wrap iff (Tensor, float)")
        report.add("R2-producer", f"{cons}::wrap", wrap_ok, f"float tensors: the returned value is {tracker}.apply(<produced value>, ...) so every consumer reads the wrapped tensor", [fmt(e["args"][0]) for e in ag], f"{tracker}.apply(out, ...)")
        report.add("R2-producer", f"{cons}::non-float", table[(False, False)] == out_t and table[(True, False)] == out_t, "non-float values are returned untouched", fmt(table[(True, False)]), fmt(out_t))
        if rel == TS:
            okm = len(ag) >= 1 and all(len(e["args"]) == 2 and e["args"][1] is n.attrs["meta"] for e in ag)
            report.add("R2-producer", f"{cons}::meta", okm, "metrics are written into the producing node's own meta dict", fmt(ag[0]["args"][1]) if ag else "-", "n.meta", nontrivial=False)

    # ---------------- R4 requires-grad shim (found through track_scales: the wrapper it installs as forward)
    it4 = Interp(repo, opaque=lambda f: isinstance(f, FuncV) and f.qualname == "apply_transform")
    cons = f"{TS}::track_scales::forward-shim"
    try:
        ts = it4.get_global(TS, "track_scales")
        it4.events = []
        mod = Obj("torch.nn.Module", term=T("param", ("module",)))
        it4.call_function(ts, [mod], {})
        shims = [e["value"] for e in it4.events if e.kind == "setattr" and e["attr"] == "forward" and isinstance(e["value"], FuncV)]
        if len(shims) != 1:
            report.add("R4-shim", cons, False, "track_scales must install exactly one forward wrapper (inputs need requires_grad for backward metrics)", len(shims), 1)
        else:
            nf = shims[0]
            old_fwd = nf.env.lookup("old_forward")[1] if nf.env is not None else None
            x, i = P("x", None), O("idx")
            it4.events = []
            r = it4.call_function(nf, [x, i], {"k": P("y", None)})
            ops = [e for e in it4.events if e.kind == "inplace"] + [e for e in it4.events if e.kind == "method" and e["name"] not in ("is_floating_point",)]
            names = sorted({(e.get("op") or e.get("name")) for e in ops})
            report.add("R4-shim", f"{cons}::effects", names in (["requires_grad_"], []), "the only operation applied to the arguments is requires_grad_()", names, ["requires_grad_"])
            guarded = all(any("is_floating_point" in fmt(c) for c, pol in e.guard if pol) or "is_floating_point" in TM.guard_str(e.guard) for e in ops)
            report.add("R4-shim", f"{cons}::guard", guarded, "requires_grad_() only under the float-tensor predicate", [TM.guard_str(e.guard) for e in ops], "is_float_tensor(a)")
            rt = TM.term_of(r)
            okd = isinstance(rt, T) and rt.op == "callv" and rt.args[1] == (x.term, i.term) and dict(rt.args[2]) == {"k": T("param", ("y",))}
            report.add("R4-shim", f"{cons}::delegate", okd, "delegates to the original forward with unchanged arguments", fmt(r), "old_forward(x, idx, k=y)")
    except Unsupported as ex:
        report.add("R4-shim", cons, None, f"outside fragment: {ex}")
    # ---------------- R5 the other torch.fx.Interpreter hooks: an override may observe, never alter
    import ast as _ast

    HOOKS = ("placeholder", "get_attr", "call_function", "call_method", "call_module", "output", "fetch_attr", "fetch_args_kwargs_from_env", "map_nodes_to_values", "run", "boxed_run")
    n_hooks = 0
    for rel, cname in ((TS, "ScaleTrackingInterpreter"), (UT, "ScaleTrackingInterpreter")):
        it5 = Interp(repo)
        cls = it5.get_global(rel, cname)
        if not isinstance(cls, ClassV):
            continue
        for st in cls.node.body:
            if not isinstance(st, _ast.FunctionDef) or st.name not in HOOKS:
                continue
            n_hooks += 1
            cons = f"{rel}::{cname}.{st.name}"
            fn = it5.class_attr(cls, st.name)
            selfv = Obj(cname, cls=cls, attrs={"scales": {}}, term=T("param", ("self",)))
            pn = [a.arg for a in st.args.args][1:]
            argv = [Obj("value", term=T("param", (a,))) for a in pn]
            try:
                it5.events = []
                r = it5.call_function(fn, [selfv, *argv], {})
            except Unsupported as ex:
                report.add("R5-hooks", cons, None, f"outside fragment: {ex}")
                continue
            sup = [e for e in it5.events if e.kind == "super" and e["method"] == st.name]
            # every value the override can return is either unrelated to the value torch computed (a constant,
            # a looked-up function) or that value itself -- never something derived from it
            bad_leaves = []
            for _g, leaf in TM.leaves(r):
                lt = TM.term_of(leaf)
                derived = any(isinstance(x, T) and x.op == "super" and x.args[0] == st.name for x in TM.walk(lt))
                if derived and not (isinstance(lt, T) and lt.op == "super" and lt.args[0] == st.name):
                    bad_leaves.append(fmt(lt))
            report.add("R5-hooks", cons, not bad_leaves, f"an override of Interpreter.{st.name} must hand on super().{st.name}(...) itself, not a value derived from it (tracking is observational)", bad_leaves or fmt(r)[:200], f"super().{st.name}(...)")
            eff = [e for e in it5.events if e.kind == "inplace" or (e.kind == "callv" and isinstance(TM.term_of(e["callee"]), T) and TM.term_of(e["callee"]).op == "attr" and str(TM.term_of(e["callee"]).args[1]).endswith("_") and not str(TM.term_of(e["callee"]).args[1]).endswith("__"))]
            report.add("R5-hooks", f"{cons}::effects", not eff, f"an override of Interpreter.{st.name} must not modify the values flowing through the graph (no in-place method such as requires_grad_())", [e.get("op") or fmt(e["callee"]) for e in eff], [])
    report.note("interpreter_hook_overrides", n_hooks)
    # ---------------- R6 what is reported: a recorded statistic of 0 is a statistic, only None means "none recorded"
    it6 = Interp(repo)
    pcls = it6.get_global(UT, "ScalePair")
    cons = f"{UT}::ScalePair.__str__"
    try:
        for a_, b_, want in ((sp.Integer(0), None, (True, False)), (sp.Rational(3, 2), sp.Integer(0), (True, True)), (None, None, (False, False))):
            o = it6.call_function(pcls, [a_, b_], {})
            txt = it6.call_function(it6.class_attr(pcls, "__str__"), [o], {})
            if not isinstance(txt, str) or "<-" not in txt:
                report.add("R6-display", cons, None, f"printed form is not statically known: {fmt(txt)}")
                continue
            left, right = txt.split("<-", 1)
            shown = ("n/a" not in left, "n/a" not in right)
            report.add("R6-display", cons, shown == want, f"ScalePair(forward={a_}, backward={b_}) prints a number for every recorded scale (0 included) and 'n/a' only for None", txt, "number iff not None")
    except Unsupported as ex:
        report.add("R6-display", cons, None, f"outside fragment: {ex}")
    from .c17 import check_root_entry

    check_root_entry(report, repo, "R4-shim")  # the transform is only applied at all if TorchDynamo traces the root
    report.floor("obligations", len(report.obls), 25)
