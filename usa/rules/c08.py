"""C08 -- modules equal their functional form, honour every option, start unit-scaled."""
from __future__ import annotations

import ast
from typing import Any, Dict, List, Optional, Tuple

import sympy as sp

from .. import terms as TM
from ..absint import Interp, Unsupported, _Builtin
from .common import public_functional
from ..core import AnalysisError, Report, Repo
from ..schemas import O, P, dim, hyper
from ..values import BOTTOM, ClassV, ExtV, FuncV, Gamma, Obj, T, TV, fmt

MD = "unit_scaling/_modules.py"
FNM = "unit_scaling.functional."

# torch.nn base classes: constructor parameter order, and the attribute each one is
# stored under (torch.nn convention; frozen table = trusted base)
TORCH_BASES: Dict[str, List[str]] = {
    "torch.nn.GELU": ["approximate"],
    "torch.nn.SiLU": ["inplace"],
    "torch.nn.Softmax": ["dim"],
    "torch.nn.Dropout": ["p", "inplace"],
    "torch.nn.Linear": ["in_features", "out_features", "bias", "device", "dtype"],
    "torch.nn.Conv1d": ["in_channels", "out_channels", "kernel_size", "stride", "padding", "dilation", "groups", "bias", "padding_mode", "device", "dtype"],
    "torch.nn.LayerNorm": ["normalized_shape", "eps", "elementwise_affine", "bias", "device", "dtype"],
    "torch.nn.Embedding": ["num_embeddings", "embedding_dim", "padding_idx", "max_norm", "norm_type", "scale_grad_by_freq", "sparse", "_weight", "_freeze", "device", "dtype"],
    "torch.nn.CrossEntropyLoss": ["weight", "size_average", "ignore_index", "reduce", "reduction", "label_smoothing"],
    "torch.nn.Module": [],
    "torch.nn.ModuleList": ["modules"],
    "torch.nn.Sequential": [],
}
# parameters torch creates (and under which condition) for each base
TORCH_PARAMS = {
    "torch.nn.Linear": {"weight": True, "bias": "bias"},
    "torch.nn.Conv1d": {"weight": True, "bias": "bias"},
    "torch.nn.LayerNorm": {"weight": "elementwise_affine", "bias": "elementwise_affine&bias"},
    "torch.nn.Embedding": {"weight": True},
}

LEAF = {
    # class -> (functional, ctor schema variants)
    "GELU": "gelu", "SiLU": "silu", "Softmax": "softmax", "Dropout": "dropout", "Linear": "linear",
    "LinearReadout": "linear_readout", "Conv1d": "conv1d", "LayerNorm": "layer_norm", "RMSNorm": "rms_norm",
    "Embedding": "embedding", "CrossEntropyLoss": "cross_entropy",
}
TAGS = {
    ("Linear", "weight"): "ctor:weight_mup_type=weight", ("Linear", "bias"): "bias",
    ("LinearReadout", "weight"): "ctor:weight_mup_type=output", ("LinearReadout", "bias"): "bias",
    ("Conv1d", "weight"): "ctor:weight_mup_type=weight", ("Conv1d", "bias"): "bias",
    ("LayerNorm", "weight"): "norm", ("LayerNorm", "bias"): "bias",
    ("RMSNorm", "weight"): "norm", ("Embedding", "weight"): "weight",
}
CONCRETE_FLAGS = {"bias": (True, False), "elementwise_affine": (True, False), "padding_mode": ("zeros", "circular")}
# options consumed at construction by torch's own constructor (sizes, placement, init)
EFFECT_ON_PARAMETER = {"_freeze": "weight"}
CONSUMED_BY_BASE = {"in_features", "out_features", "device", "dtype", "in_channels", "out_channels", "kernel_size", "num_embeddings", "embedding_dim", "_weight", "_freeze", "bias", "elementwise_affine"}


def ext_base(it: Interp, cls: ClassV) -> Optional[str]:
    for b in it.class_bases(cls):
        if isinstance(b, ExtV):
            return b.name
        if isinstance(b, ClassV):
            r = ext_base(it, b)
            if r:
                return r
    return None


def make_super_hook(base_name: str):
    def hook(it: Interp, selfv: Any, cls: Any, meth: str, args: List[Any], kwargs: Dict[str, Any]):
        if meth != "__init__" or not isinstance(selfv, Obj):
            return NotImplemented
        names = TORCH_BASES.get(base_name)
        if names is None:
            return NotImplemented
        bound = dict(zip(names, args))
        bound.update({k: v for k, v in kwargs.items() if k in names})
        for k, v in bound.items():
            selfv.attrs[k] = v
        selfv.attrs["_base_bound"] = bound
        for pname, cond in TORCH_PARAMS.get(base_name, {}).items():
            present = True
            if isinstance(cond, str):
                for c in cond.split("&"):
                    val = bound.get(c, True)
                    present = present and (val is True or (not isinstance(val, bool) and val is not False))
                    if val is False:
                        present = False
            selfv.attrs[pname] = TV(T("param", (f"torch.{pname}",)), alias=frozenset([pname])) if present else None
        if base_name == "torch.nn.Conv1d":
            selfv.attrs["_reversed_padding_repeated_twice"] = TV(T("attr", (T("param", ("self",)), "_reversed_padding_repeated_twice")), kind="opaque")
        selfv.attrs["training"] = TV(T("attr", (T("param", ("self",)), "training")), kind="opaque")
        return None

    return hook


def ctor_values(it: Interp, init: FuncV, flags: Dict[str, Any]) -> Dict[str, Any]:
    vals: Dict[str, Any] = {}
    for p in it.param_names(init)[1:]:
        if p in flags:
            vals[p] = flags[p]
        elif p in ("args", "kwargs"):
            continue
        else:
            vals[p] = O(f"opt:{p}")
    return vals


def check(report: Report, repo: Repo) -> None:
    report.rule_text = (
        "For each public leaf module (constructor options symbolic, boolean/string flags enumerated): evaluate __init__"
        " (torch.nn base constructor modelled by its attribute convention) then forward with unit_scaling.functional opaque:"
        " R1 forward returns exactly one call of the functional of the same role with `input` and the module's own"
        " parameters; R2 every constructor option that the functional has a same-named parameter for is bound to exactly"
        " that parameter (no dead option, no role swap), every other option is consumed at construction (torch base"
        " constructor / Parameter) or read in forward, or rejected via unsupported_args; R3 Conv1d: when the input was"
        " padded with the module's padding (non-'zeros' modes) the convolution gets padding 0; R4 each nn.Parameter the"
        " torch base creates is re-wrapped by Parameter(<same data>, mup_type = table); R5 reset_parameters draws weights"
        " with nn.init.normal_ (defaults) and zeroes a present bias; RMSNorm gain starts at ones; R6 depth containers tag"
        " every parameter with len(self) after construction and raise ValueError for untagged parameters; composite"
        " modules (MLP, MHSA, TransformerLayer) forward their options."
    )
    report.explanation = "abstract interpretation of _modules.py with symbolic constructor options; option-forwarding relation module -> functional decided on call bindings"
    report.assumptions += ["torch.nn constructors store each argument under the same-named attribute (table TORCH_BASES)", "numerical equality with the torch.nn twin follows from C01 given R1-R3"]

    fopq = lambda f: (public_functional(f) or (isinstance(f, FuncV) and f.qualname == "Parameter"))
    n_cls = 0
    for cname, fname in LEAF.items():
        it = Interp(repo, opaque=fopq)
        cls = it.get_global(MD, cname)
        if not isinstance(cls, ClassV):
            raise AnalysisError(f"anchor vanished: {MD}::{cname}")
        init = it.class_attr(cls, "__init__")
        fwd = it.class_attr(cls, "forward")
        base = ext_base(it, cls) or "torch.nn.Module"
        it.super_hook = make_super_hook(base)
        unsupported = set()
        for d in cls.node.decorator_list:
            if isinstance(d, ast.Call):
                for kw in d.keywords:
                    if kw.arg == "unsupported_args":
                        try:
                            unsupported |= set(ast.literal_eval(kw.value))
                        except Exception:
                            pass
        func = it.get_global("unit_scaling/functional.py", fname)
        fparams = it.param_names(func)
        flag_names = [p for p in it.param_names(init)[1:] if p in CONCRETE_FLAGS]
        combos: List[Dict[str, Any]] = [{}]
        for fnm in flag_names:
            combos = [dict(c, **{fnm: v}) for c in combos for v in CONCRETE_FLAGS[fnm]]
        n_cls += 1
        for flags in combos:
            lab = f"{cname}({', '.join(f'{k}={v}' for k, v in flags.items())})"
            selfv = Obj(f"unit_scaling._modules.{cname}", cls=cls, term=T("param", ("self",)))
            vals = ctor_values(it, init, flags)
            it.events = []
            try:
                it.call_function(init, [selfv], dict(vals))
            except Unsupported as ex:
                report.add("R2-options", f"{MD}::{cname}.__init__", None, f"{lab}: outside fragment: {ex}")
                continue
            init_events = list(it.events)
            base_bound = selfv.attrs.get("_base_bound", {})
            # ---- R4 tags at Parameter sites
            pcalls = [e for e in init_events if e.kind == "call" and e["callee"].endswith("parameter.Parameter")]
            for pname in ("weight", "bias"):
                if (cname, pname) not in TAGS:
                    continue
                cur = selfv.attrs.get(pname)
                want = TAGS[(cname, pname)]
                cons = f"{MD}::{cname}.__init__::{pname}"
                if cname != "RMSNorm" and pname in TORCH_PARAMS.get(base, {}) and base_present(flags, base, pname) is False:
                    report.add("R4-tags", cons, cur is None, f"{lab}: absent parameter stays None", fmt(cur), "None", nontrivial=False)
                    continue
                if cname == "RMSNorm" and flags.get("elementwise_affine") is False:
                    report.add("R4-tags", cons, cur is None, f"{lab}: no gain without elementwise_affine", fmt(cur), "None", nontrivial=False)
                    continue
                ct = TM.term_of(cur)
                ok = isinstance(ct, T) and ct.op == "call" and str(ct.args[0]).endswith("parameter.Parameter")
                if not ok:
                    report.add("R4-tags", cons, False, f"{lab}: parameter '{pname}' is not re-wrapped by unit_scaling.Parameter (it would carry no u-muP tag)", fmt(ct), "Parameter(...)")
                    continue
                b = dict(ct.args[1])
                tag = b.get("mup_type")
                if want.startswith("ctor:"):
                    optname, dflt = want[5:].split("=")
                    okt = tag == T("param", (f"opt:{optname}",))
                    # default value of the option
                    dv = it.bind(init, [selfv], {k: v for k, v in vals.items() if k != optname and k in it.param_names(init) and _required(init, k)}) if False else None
                    ddef = _default_of(it, init, optname)
                    report.add("R4-tags", cons, okt and ddef == dflt, f"{lab}: tag of '{pname}' comes from constructor option {optname} (default {dflt!r})", f"{fmt(tag)} default={ddef!r}", f"opt:{optname} default={dflt!r}")
                else:
                    report.add("R4-tags", cons, tag == want, f"{lab}: tag of '{pname}'", fmt(tag), want)
                if cname != "RMSNorm":
                    src = b.get("data")
                    oks = src == T("attr", (T("param", (f"torch.{pname}",)), "data"))
                    report.add("R4-tags", f"{cons}::data", oks, f"{lab}: the wrapped data is the tensor torch's constructor created and initialised", fmt(src), f"self.{pname}.data", nontrivial=False)
                else:
                    src = b.get("data")
                    oks = isinstance(src, T) and src.op == "call" and src.args[0] == "torch.ones"
                    report.add("R5-init", f"{cons}::ones", oks, f"{lab}: RMSNorm gain starts at ones", fmt(src), "torch.ones(normalized_shape)")
            # ---- options whose whole effect, in torch's constructor, is a property of a parameter object
            # (`_freeze` -> weight.requires_grad): re-wrapping that parameter must carry the effect over
            for opt_, pname_ in EFFECT_ON_PARAMETER.items():
                if opt_ not in vals or opt_ in unsupported:
                    continue
                vt = TM.term_of(vals[opt_])
                pobj = selfv.attrs.get(pname_)
                rewrapped = isinstance(TM.term_of(pobj), T) and TM.term_of(pobj).op == "call" and str(TM.term_of(pobj).args[0]).endswith("parameter.Parameter")
                if not rewrapped:
                    continue
                carriers = [TM.term_of(pobj)]
                last_p = max((i_ for i_, e_ in enumerate(init_events) if e_.kind == "call" and e_["callee"].endswith("parameter.Parameter")), default=-1)
                for e_ in init_events[last_p + 1 :]:
                    if e_.kind == "callv" and "requires_grad" in fmt(e_["callee"]):
                        carriers += [TM.term_of(a_) for a_ in list(e_["args"]) + list(e_["kwargs"].values())] + [c_ for c_, _p in e_.guard]
                    if e_.kind == "setattr" and str(e_["attr"]) == "requires_grad":
                        carriers += [TM.term_of(e_["value"])] + [c_ for c_, _p in e_.guard]
                ok_ = any(vt in list(TM.walk(TM.term_of(c_))) for c_ in carriers)
                report.add("R2-options", f"{MD}::{cname}::{opt_}", ok_, f"{lab}: torch's constructor honours '{opt_}' through {pname_}.requires_grad; the module replaces {pname_} by a new Parameter(self.{pname_}.data, ...), which is trainable again, so the option is silently ignored unless it is re-applied", "lost when the parameter is re-wrapped" if not ok_ else "re-applied", "re-applied after re-wrapping")
            # ---- forward
            x = P("input", None)
            it.events = []
            extra = [P("target", None)] if cname == "CrossEntropyLoss" else []
            try:
                res = it.call_function(fwd, [selfv, x, *extra], {})
            except Unsupported as ex:
                report.add("R1-delegation", f"{MD}::{cname}.forward", None, f"{lab}: outside fragment: {ex}")
                continue
            calls = [e for e in it.events if e.kind == "call" and str(e["callee"]).startswith(FNM)]
            cons = f"{MD}::{cname}.forward"
            if len(calls) != 1 or calls[0]["callee"] != FNM + fname:
                report.add("R1-delegation", cons, False, f"{lab}: forward must make exactly one call, to U.{fname}", [e["callee"] for e in calls], [FNM + fname])
                continue
            call = calls[0]
            b = call["bound"]
            rt = TM.term_of(res)
            okr = rt == call["result"] or (isinstance(res, Gamma) and all(t == call["result"] for _g, t in TM.leaves(res)))
            report.add("R1-delegation", cons, okr, f"{lab}: forward returns the functional's result unchanged", fmt(rt)[:200], "U." + fname + "(...)")
            # tensor arguments
            inp = TM.term_of(b.get("input"))
            if cname == "Conv1d" and flags.get("padding_mode") != "zeros":
                okp = isinstance(inp, T) and inp.op == "call" and inp.args[0] == "torch.nn.functional.pad" and dict(inp.args[1]).get("input") == x.term and dict(inp.args[1]).get("mode") == flags.get("padding_mode")
                report.add("R3-padding", f"{cons}::pad", okp, f"{lab}: non-'zeros' modes pad the input explicitly with the module's padding", fmt(inp)[:160], "F.pad(input, self._reversed_padding_repeated_twice, mode=padding_mode)")
                pad_arg = b.get("padding")
                report.add("R3-padding", f"{cons}::padding", TM.expr_equal(pad_arg, 0) is True if isinstance(pad_arg, (int, sp.Basic)) else False, f"{lab}: the input was already padded, so the convolution must receive padding=0 (otherwise the module pads twice: wrong output length)", fmt(pad_arg), "0")
            else:
                report.add("R1-delegation", f"{cons}::input", inp == x.term, f"{lab}: the module input is the functional's input", fmt(inp), "input", nontrivial=False)
            for pname in ("weight", "bias"):
                if pname in fparams and pname in selfv.attrs and cname != "CrossEntropyLoss":
                    okw = TM.term_of(b.get(pname)) == TM.term_of(selfv.attrs.get(pname))
                    report.add("R1-delegation", f"{cons}::{pname}", okw, f"{lab}: the module's own {pname} is the functional's {pname}", fmt(b.get(pname))[:120], f"self.{pname}")
            # ---- R2 options
            for opt, val in vals.items():
                oc = f"{MD}::{cname}::{opt}"
                if opt in unsupported:
                    report.add("R2-options", oc, True, f"{lab}: rejected at construction via unsupported_args", nontrivial=False)
                    continue
                if opt in fparams and opt not in ("weight", "bias"):
                    got = b.get(opt)
                    if cname == "Conv1d" and opt == "padding" and flags.get("padding_mode") != "zeros":
                        continue  # checked by R3
                    ok = TM.term_of(got) == TM.term_of(val)
                    if not ok:
                        # a value derived from this option alone (e.g. int -> 1-tuple normalisation)
                        # -- in every case: a leaf that no longer contains the option replaces the user's value
                        # by something else for some inputs (e.g. `eps or 1e-5` discards eps=0)
                        others = [TM.term_of(v2) for o2, v2 in vals.items() if o2 != opt and isinstance(v2, TV)]
                        ok = True
                        for _gd, leaf in TM.leaves(got):
                            inside = list(TM.walk(TM.term_of(leaf)))
                            ok = ok and TM.term_of(val) in inside and not any(o_ in inside for o_ in others)
                    report.add("R2-options", oc, ok, f"{lab}: constructor option '{opt}' must reach U.{fname}'s parameter '{opt}' (otherwise it is silently ignored or mis-routed)", fmt(got), fmt(val))
                    continue
                # not a parameter of the functional: consumed at construction or read in forward?
                used_by_base = opt in base_bound and TM.term_of(base_bound[opt]) == TM.term_of(val) and opt in CONSUMED_BY_BASE
                used_by_param = any(TM.term_of(val) in list(TM.walk(e["result"])) for e in pcalls)
                in_forward = TM.term_of(val) in list(TM.walk(call["result"])) or any(TM.term_of(val) in list(TM.walk(TM.term_of(c))) for e in it.events for c, _p in e.guard)
                flagged = opt in flags  # enumerated flags steer construction/forward by construction
                ok = used_by_base or used_by_param or in_forward or flagged
                report.add("R2-options", oc, ok, f"{lab}: constructor option '{opt}' is neither forwarded to U.{fname}, consumed at construction, read in forward, nor rejected", "dead option" if not ok else "consumed", "honoured or rejected", nontrivial=not ok)

    report.floor("leaf module classes analysed", n_cls, 11)
    _layer_forward(report, repo)

    # ---------------------------------------------------------------- R5 reset_parameters
    it = Interp(repo, opaque=fopq)
    for cname in ("Linear", "Conv1d"):
        cls = it.get_global(MD, cname)
        rp = it.class_attr(cls, "reset_parameters")
        cons = f"{MD}::{cname}.reset_parameters"
        if not isinstance(rp, FuncV) or rp.cls is None or rp.cls.node is not cls.node and cname == "Conv1d":
            report.add("R5-init", cons, isinstance(rp, FuncV), "must override torch's kaiming initialisation", fmt(rp), "own reset_parameters")
            if not isinstance(rp, FuncV):
                continue
        for has_bias in (True, False):
            w, b_ = P("weight", None), P("bias", None)
            selfv = Obj(cname, cls=cls, attrs={"weight": w, "bias": b_ if has_bias else None}, term=T("param", ("self",)))
            it.events = []
            try:
                it.call_function(rp, [selfv], {})
            except Unsupported as ex:
                report.add("R5-init", cons, None, f"outside fragment: {ex}")
                continue
            nrm = [e for e in it.events if e.kind == "call" and e["callee"] == "torch.nn.init.normal_"]
            bn = (nrm[0]["bound"] or {}) if len(nrm) == 1 else {}
            okn = len(nrm) == 1 and bn.get("tensor") is w and TM.expr_equal(bn.get("mean", 0), 0) is True and TM.expr_equal(bn.get("std", 1), 1) is True
            report.add("R5-init", f"{cons}::weight", okn, f"bias={has_bias}: weights are drawn by nn.init.normal_(self.weight) with default mean 0 / std 1", [(fmt(e['args']), fmt(e['kwargs'])) for e in nrm], "normal_(self.weight)")
            zero = [e for e in it.events if e.kind == "inplace" and "bias" in (e.get("alias") or ())]
            okz = (len(zero) == 1 and zero[0]["op"] == "zero_") if has_bias else not zero
            report.add("R5-init", f"{cons}::bias", okz, f"bias={has_bias}: a present bias is zeroed", [e["op"] for e in zero], ["zero_"] if has_bias else [])
    # other leaf modules: torch's own initialisation carries option semantics (Embedding zeroes the
    # padding_idx row, LayerNorm ones/zeros): an override must delegate to it
    for cname in ("Embedding", "LayerNorm", "RMSNorm", "GELU", "SiLU", "Softmax", "Dropout", "CrossEntropyLoss"):
        c2 = it.get_global(MD, cname)
        own = [st for st in c2.node.body if isinstance(st, ast.FunctionDef) and st.name in ("reset_parameters", "_fill_padding_idx_with_zero")]
        for st in own:
            f2 = it.class_attr(c2, st.name)
            selfv = Obj(cname, cls=c2, attrs={"weight": P("weight", None), "bias": P("bias", None), "padding_idx": O("padding_idx")}, term=T("param", ("self",)))
            it.events = []
            okd = None
            try:
                it.call_function(f2, [selfv], {})
                sup = [e for e in it.events if e.kind == "super" and e["method"] == st.name]
                fill = [e for e in it.events if e.kind == "callv" and "_fill_padding_idx_with_zero" in fmt(e["callee"])]
                okd = bool(sup) or (cname == "Embedding" and st.name == "reset_parameters" and bool(fill))
            except Unsupported:
                okd = None
            report.add("R5-init", f"{MD}::{cname}.{st.name}", okd, f"{cname} overrides torch's {st.name}: it must delegate to the torch implementation (padding_idx row zeroed / affine parameters at ones, zeros), otherwise a constructor option is no longer honoured at initialisation", "no delegation" if okd is False else "delegates", "super()." + st.name + "()")
    # a table handed to the constructor (`_weight=` / Embedding.from_pretrained) is taken as it is: torch's
    # constructor skips reset_parameters and leaves the padding row alone, so the module may not (re-)initialise it
    c3 = it.get_global(MD, "Embedding")
    selfv = Obj("Embedding", cls=c3, term=T("param", ("self",)))
    it.events = []
    try:
        it.call_function(it.class_attr(c3, "__init__"), [selfv, dim("V"), dim("E")], {"padding_idx": 3, "_weight": P("given_table", None)})
        touch = [fmt(e["callee"]) for e in it.events if e.kind == "callv" and any(k_ in fmt(e["callee"]) for k_ in ("reset_parameters", "_fill_padding_idx_with_zero", "normal_", "zero_", "fill_", "uniform_", "copy_"))]
        report.add("R5-init", f"{MD}::Embedding.__init__::given-table", not touch, "Embedding(..., padding_idx=3, _weight=table): the given table is not re-initialised (torch leaves its padding row as supplied; the parameter shares the caller's storage)", touch, [], nontrivial=False)
    except Unsupported as ex:
        report.add("R5-init", f"{MD}::Embedding.__init__::given-table", None, f"outside fragment: {ex}")
    # LinearReadout inherits Linear's reset
    lr_cls = it.get_global(MD, "LinearReadout")
    rp = it.class_attr(lr_cls, "reset_parameters")
    report.add("R5-init", f"{MD}::LinearReadout.reset_parameters", isinstance(rp, FuncV) and rp.cls is not None and rp.cls.qualname == "Linear", "readout layers use Linear's unit-variance initialisation", fmt(rp), "Linear.reset_parameters", nontrivial=False)

    check_option_value_domains(report, repo)
    check_conv_padding_strings(report, repo)
    check_depth_containers(report, repo, "R6-depth")

    # ---------------------------------------------------------------- composite modules
    copq = lambda f: public_functional(f) or (isinstance(f, ClassV) and f.qualname in ("Linear", "MHSA", "MLP", "RMSNorm"))
    it = Interp(repo, opaque=copq)
    it.super_hook = make_super_hook("torch.nn.Module")
    # MLP
    cls = it.get_global(MD, "MLP")
    selfv = Obj("MLP", cls=cls, term=T("param", ("self",)))
    H, X = dim("H"), dim("X")
    try:
        it.events = []
        it.call_function(it.class_attr(cls, "__init__"), [selfv], {"hidden_size": H, "expansion_factor": X})
        news = {k: v for k, v in selfv.attrs.items() if isinstance(v, Obj) and v.cls is not None and v.cls.qualname == "Linear"}
        exp = {"linear_1": (H, H * X), "linear_gate": (H, H * X), "linear_2": (H * X, H)}
        for nm, (i_, o_) in exp.items():
            o = news.get(nm)
            ok = o is not None and TM.expr_equal(o.attrs.get("in_features"), i_) is True and TM.expr_equal(o.attrs.get("out_features"), o_) is True and o.attrs.get("constraint", "x") is None
            report.add("R2-options", f"{MD}::MLP.__init__::{nm}", ok, "MLP sizes its layers from hidden_size x expansion_factor (mirrored constraints: None)", fmt(getattr(o, "attrs", None))[:160], f"Linear({i_}, {o_}, constraint=None)")
    except Unsupported as ex:
        report.add("R2-options", f"{MD}::MLP.__init__", None, f"outside fragment: {ex}")
    # MHSA
    cls = it.get_global(MD, "MHSA")
    selfv = Obj("MHSA", cls=cls, term=T("param", ("self",)))
    vals = {"hidden_size": H, "heads": O("opt:heads"), "is_causal": O("opt:is_causal"), "dropout_p": O("opt:dropout_p"), "mult": O("opt:mult")}
    try:
        it.call_function(it.class_attr(cls, "__init__"), [selfv], dict(vals))
        selfv.attrs["linear_qkv"], selfv.attrs["linear_o"] = O("self.linear_qkv"), O("self.linear_o")
        # evaluation mode: F.scaled_dot_product_attention has no `training` flag, it drops whenever dropout_p > 0;
        # a module in eval() must therefore hand it 0 (as torch.nn.MultiheadAttention / nn.Dropout do)
        selfv.attrs["training"] = False
        it.events = []
        it.call_function(it.class_attr(cls, "forward"), [selfv, P("input", None)], {})
        ecalls = [e for e in it.events if e.kind == "call" and e["callee"] == FNM + "scaled_dot_product_attention"]
        if len(ecalls) == 1:
            pv = ecalls[0]["bound"].get("dropout_p")
            report.add("R2-options", f"{MD}::MHSA::dropout_p[eval]", TM.expr_equal(pv, 0) is True if isinstance(pv, (int, float, sp.Basic)) else False, "in eval() mode MHSA is deterministic: the attention call receives dropout_p == 0", fmt(pv), "0")
        selfv.attrs["training"] = True
        it.events = []
        it.call_function(it.class_attr(cls, "forward"), [selfv, P("input", None)], {})
        calls = [e for e in it.events if e.kind == "call" and e["callee"] == FNM + "scaled_dot_product_attention"]
        if len(calls) != 1:
            report.add("R2-options", f"{MD}::MHSA.forward", False, "expected one unit-scaled attention call", len(calls), 1)
        else:
            b = calls[0]["bound"]
            for opt in ("is_causal", "dropout_p", "mult"):
                report.add("R2-options", f"{MD}::MHSA::{opt}", TM.term_of(b.get(opt)) == TM.term_of(vals[opt]), f"MHSA option '{opt}' reaches the attention call", fmt(b.get(opt)), fmt(vals[opt]))
            rearr = [e for e in it.events if e.kind == "call" and e["callee"] == "einops.rearrange"]
            okh = any(TM.term_of(e["kwargs"].get("h")) == TM.term_of(vals["heads"]) for e in rearr)
            report.add("R2-options", f"{MD}::MHSA::heads", okh, "MHSA option 'heads' splits the projection", len(rearr), "rearrange(..., h=heads)")
    except Unsupported as ex:
        report.add("R2-options", f"{MD}::MHSA", None, f"outside fragment: {ex}")
    # TransformerLayer
    cls = it.get_global(MD, "TransformerLayer")
    selfv = Obj("TransformerLayer", cls=cls, term=T("param", ("self",)))
    vals = {"hidden_size": H, "heads": O("opt:heads"), "mhsa_tau": O("opt:mhsa_tau"), "mlp_tau": O("opt:mlp_tau"), "is_causal": O("opt:is_causal"), "dropout_p": O("opt:dropout_p")}
    try:
        it.events = []
        it.call_function(it.class_attr(cls, "__init__"), [selfv], dict(vals))
        mh = selfv.attrs.get("mhsa")
        ok = isinstance(mh, Obj) and all(TM.term_of(mh.attrs.get(k)) == TM.term_of(vals[k]) for k in ("heads", "is_causal", "dropout_p")) and TM.expr_equal(mh.attrs.get("hidden_size"), H) is True
        report.add("R2-options", f"{MD}::TransformerLayer.__init__::mhsa", ok, "heads / is_causal / dropout_p / hidden_size are forwarded to MHSA", fmt(getattr(mh, "attrs", None))[:200], "MHSA(hidden_size, heads, is_causal=is_causal, dropout_p=dropout_p)")
        for k in ("mhsa_tau", "mlp_tau", "dropout_p"):
            report.add("R2-options", f"{MD}::TransformerLayer.__init__::{k}", TM.term_of(selfv.attrs.get(k)) == TM.term_of(vals[k]), f"'{k}' is stored for forward (its use is checked under C07)", fmt(selfv.attrs.get(k)), fmt(vals[k]), nontrivial=False)
    except Unsupported as ex:
        report.add("R2-options", f"{MD}::TransformerLayer.__init__", None, f"outside fragment: {ex}")


def check_option_value_domains(report: Report, repo: Repo) -> None:
    """Options whose torch counterpart has a finite value domain: every value of the domain is either rejected
    by the constructor or works in forward (an option accepted at construction and refused -- or asserted
    away -- only when the module is called is neither honoured nor rejected at construction)."""
    from ..nnmodel import container_super_hook  # noqa: F401  (same abstract nn.Module conventions)

    DOMAINS = {"CrossEntropyLoss": ("reduction", ("none", "mean", "sum"))}
    for cname, (opt, values) in DOMAINS.items():
        for val in values:
            it = Interp(repo)
            cls = it.get_global(MD, cname)
            init = it.class_attr(cls, "__init__") if cls is not None else None
            fwd = it.class_attr(cls, "forward") if cls is not None else None
            cons = f"{MD}::{cname}::{opt}[{val!r}]"
            if not isinstance(init, FuncV) or not isinstance(fwd, FuncV):
                raise AnalysisError(f"anchor vanished: {MD}::{cname}")
            selfv = Obj(cname, cls=cls, term=T("param", ("self",)))
            it.events = []
            try:
                made = it.call_function(init, [selfv], {opt: val})
                ctor_raises = [e["exc"] for e in it.events if e.kind == "raise"]
                if made is BOTTOM or ctor_raises:
                    report.add("R2-options", cons, True, f"{cname}({opt}={val!r}) is rejected at construction", ctor_raises, "rejected", nontrivial=False)
                    continue
                selfv.attrs.setdefault(opt, val)  # (torch's constructor stores the option under its own name)
                selfv.attrs.setdefault("ignore_index", -100)
                selfv.attrs.setdefault("training", True)
                it.events = []
                B, V = dim("B"), dim("V")
                res = it.call_function(fwd, [selfv, P("input", (B, V)), P("target", (B,))], {})
            except Unsupported as ex:
                report.add("R2-options", cons, None, f"outside fragment: {ex}")
                continue
            fraises = [e["exc"] for e in it.events if e.kind == "raise"]
            report.add("R2-options", cons, not (res is BOTTOM or fraises), f"{cname}({opt}={val!r}) is accepted by the constructor, so forward must work (an option is honoured, or rejected at construction -- not refused or asserted away at call time)", fraises or "works", "works")


def check_conv_padding_strings(report: Report, repo: Repo) -> None:
    """torch.nn.Conv1d also takes padding="same" / "valid".  The unit-scaled module either refuses a string at
    construction, or the integer it stores reproduces torch's output length: L for "same" (stride 1), i.e.
    2 * padding == dilation * (kernel_size - 1) -- which no symmetric integer padding can give when that
    product is odd -- and L - dilation * (kernel_size - 1) for "valid"."""
    for mode in ("same", "valid"):
        for ks, dl in ((3, 1), (4, 1), (2, 3), (5, 2), (4, 3)):
            it = Interp(repo)
            cls = it.get_global(MD, "Conv1d")
            init = it.class_attr(cls, "__init__")
            cons = f"{MD}::Conv1d::padding[{mode!r}]"
            selfv = Obj("Conv1d", cls=cls, term=T("param", ("self",)))
            it.events = []
            try:
                made = it.call_function(init, [selfv, dim("Ci"), dim("Co"), ks], {"padding": mode, "dilation": dl})
            except Unsupported as ex:
                report.add("R2-options", cons, None, f"kernel {ks}, dilation {dl}: outside fragment: {ex}")
                continue
            if made is BOTTOM or any(e.kind == "raise" for e in it.events):
                report.add("R2-options", cons, True, f"kernel {ks}, dilation {dl}: string padding is rejected at construction", "rejected", "rejected", nontrivial=False)
                continue
            p_ = selfv.attrs.get("padding")
            if isinstance(p_, (tuple, list)) and len(p_) == 1:
                p_ = p_[0]
            if not isinstance(p_, (int, sp.Integer)) or isinstance(p_, bool):
                report.add("R2-options", cons, None, f"kernel {ks}, dilation {dl}: the padding the module ends up with is not a known integer ({fmt(p_)})")
                continue
            want = dl * (ks - 1) if mode == "same" else 0
            report.add("R2-options", cons, 2 * int(p_) == want, f"kernel {ks}, dilation {dl}: accepted, so the output length must be torch's ({'L' if mode == 'same' else 'L - dilation*(kernel-1)'}): total padding {want}", f"2 x {int(p_)}", want)


def check_depth_containers(report: Report, repo: Repo, rule: str) -> None:
    """Depth containers: depth tag == number of layers (len(self)), untagged parameters refused."""
    from ..nnmodel import container_super_hook

    def layer(name: str, tagged: bool = True, frozen: bool = False) -> Obj:
        p = Obj("torch.nn.Parameter", attrs=({"mup_type": "weight", "mup_scaling_depth": None} if tagged else {}), open_attrs=False)
        p.attrs.update({"requires_grad": not frozen, "grad": None, "is_leaf": True})
        return Obj("torch.nn.Module", attrs={"_params": [("weight", p)], "_modules": {}, "_p": p}, term=T("param", (name,)))

    for cname, kind in (("DepthModuleList", "ModuleList"), ("DepthSequential", "Sequential")):
        cls = Interp(repo).get_global(MD, cname)
        cons = f"{MD}::{cname}.__init__"
        shared = layer("shared")
        scen = {
            "three distinct layers": ([layer("a"), layer("b"), layer("c")], 3, None),
            "one layer": ([layer("a")], 1, None),
            "weight tying: the same layer instance four times": ([shared, shared, shared, shared], 4, None),
            "an untagged parameter": ([layer("a"), layer("plain", tagged=False)], None, "ValueError"),
            # frozen when the stack is built (fine-tuning unfreezes later): still a layer of the stack
            "a frozen layer among three": ([layer("a"), layer("b", frozen=True), layer("c")], 3, None),
            "an untagged frozen parameter": ([layer("a"), layer("plain", tagged=False, frozen=True)], None, "ValueError"),
        }
        stamped = [layer("a"), layer("b")]
        for l_ in stamped:
            l_.attrs["_p"].attrs["mup_scaling_depth"] = 4
        scen["two layers of an existing 4-layer stack wrapped again"] = (stamped, None, "keep")
        if kind == "ModuleList":
            from ..values import OneShot

            scen["a generator of three layers (one-shot iterable)"] = ([OneShot([layer("a"), layer("b"), layer("c")])], 3, None)
        if kind == "Sequential":
            scen["one OrderedDict of three named layers"] = ([{"first": layer("a"), "second": layer("b"), "third": layer("c")}], 3, None)
        for sname, (mods, want_depth, want_exc) in scen.items():
            it = Interp(repo)
            it.super_hook = container_super_hook(kind)
            init = it.class_attr(it.get_global(MD, cname), "__init__")
            selfv = Obj(cname, cls=it.get_global(MD, cname), term=T("param", ("self",)))
            it.events = []
            try:
                gen = kind == "ModuleList" and len(mods) == 1 and not isinstance(mods[0], Obj)
                it.call_function(init, [selfv, (mods[0] if gen else list(mods))] if kind == "ModuleList" else [selfv, *mods], {})
            except Unsupported as ex:
                report.add(rule, cons, None, f"{sname}: outside fragment: {ex}")
                continue
            raised = [e["exc"] for e in it.events if e.kind == "raise"]
            if want_exc == "keep":
                # layers that already belong to a deeper stack (e.g. a slice `stack[:2]` re-wraps them): the depth
                # recorded for that stack must survive -- the container refuses them or leaves the depth alone
                depths_ = [m.attrs["_p"].attrs.get("mup_scaling_depth") for m in mods]
                # (keeping the old depth silently is no better than overwriting it: one of the two containers then
                # holds parameters whose recorded depth is not its own length)
                report.add(rule, f"{cons}::restamp", bool(raised), f"{sname}: parameters that already carry a depth (4) are refused by a second container of another length (whichever depth were kept, one container's parameters would record a depth that is not its length)", {"raised": raised, "depths": depths_}, "raises")
                continue
            if want_exc:
                report.add(rule, f"{cons}::untagged", raised == [want_exc], f"{sname}: an untagged parameter inside a depth container is refused with ValueError", raised, [want_exc])
                continue
            flat = [m for x in mods for m in (x.values() if isinstance(x, dict) else (list(x) if isinstance(x, tuple) else [x]))]
            if isinstance(selfv.attrs.get("_modules"), dict) and len(selfv.attrs["_modules"]) != want_depth:
                report.add(rule, f"{cons}::populated", False, f"{sname}: the container must hold all {want_depth} layers after construction", len(selfv.attrs["_modules"]), want_depth)
                continue
            depths_ = [m.attrs["_p"].attrs.get("mup_scaling_depth") for m in flat]
            okd = not raised and all(d == want_depth for d in depths_)
            report.add(rule, f"{cons}::depth", okd, f"{sname}: every parameter records depth = number of layers in the container (len(self) = {want_depth})", depths_, want_depth)



def _layer_forward(report: Report, repo: Repo) -> None:
    from .c07 import check_layer_forward

    check_layer_forward(report, repo, "R1-delegation")


def base_present(flags: Dict[str, Any], base: str, pname: str) -> Optional[bool]:
    cond = TORCH_PARAMS.get(base, {}).get(pname)
    if cond is True:
        return True
    if isinstance(cond, str):
        r = True
        for c in cond.split("&"):
            if c in flags:
                r = r and bool(flags[c])
        return r
    return None


def _required(init: FuncV, k: str) -> bool:
    return True


def _default_of(it: Interp, init: FuncV, name: str) -> Any:
    a = init.node.args
    params = [p.arg for p in a.posonlyargs + a.args]
    dparams = params[len(params) - len(a.defaults):] if a.defaults else []
    for p, d in zip(dparams, a.defaults):
        if p == name:
            try:
                return ast.literal_eval(d)
            except Exception:
                return ast.unparse(d)
    for p, d in zip([x.arg for x in a.kwonlyargs], a.kw_defaults):
        if p == name and d is not None:
            try:
                return ast.literal_eval(d)
            except Exception:
                return ast.unparse(d)
    return "<required>"
