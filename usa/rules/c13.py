"""C13 -- nearest-rounding quantisation, structural clauses: dtype typestate of the bit
reinterpretation, argument not modified, pipeline == reference pipeline with the
constants the rounding scheme needs, mode dispatch, range properties."""
from __future__ import annotations

import sympy as sp

from .. import terms as TM
from ..absint import Interp, Unsupported
from ..core import Report, Repo
from ..values import BOTTOM, Obj, T, TV, fmt
from ..schemas import P
from .fmtcommon import ABSMAX, DOWNSCALE, E, FM, M, MASK, MIN_NORMAL, canon, mkformat, ref_term, run_quantise


def common_pipeline_checks(report: Report, events, it, cons: str, label: str) -> None:
    # R1 dtype typestate: bit reinterpretation only on float32 values
    casts = [e for e in events if e.kind == "bitcast"]
    for e in casts:
        frm, to = e["from_dtype"], e["to_dtype"]
        if to == "torch.int32":
            ok = frm == "torch.float32"
            report.add("R1-dtype-typestate", f"{cons}::view(int32)", ok, f"{label}: .view(torch.int32) reinterprets bits, so its receiver must be float32 on every path (receiver dtype: {frm}); a float64/bfloat16/float16 argument would change element count", str(frm), "torch.float32", where=e.where)
        elif to == "torch.float32":
            report.add("R1-dtype-typestate", f"{cons}::view(float32)", frm == "torch.int32", f"{label}: .view(torch.float32) must reinterpret the int32 pattern", str(frm), "torch.int32", where=e.where, nontrivial=False)
    kinds = {str(e["to_dtype"]) for e in casts}
    report.add("R1-dtype-typestate", f"{cons}::bitcasts", {"torch.int32", "torch.float32"} <= kinds, f"{label}: the pipeline reinterprets to int32 and back to float32", sorted(kinds), ["torch.float32", "torch.int32"], nontrivial=False)
    # no control flow / assertion on tensor *values*: the result is a fixed elementwise pipeline for every input
    # (a reduction such as max() in a guard also raises on the empty tensors the property includes)
    dt = [e for e in events if e.kind == "data-truth"]
    report.add("R3-pipeline", f"{cons}::value-independent-control", not dt, f"{label}: no branch or assert depends on tensor values" + ("; offending: " + "; ".join(f"{fmt(e['value'])[:80]} at {e.where}" for e in dt) if dt else ""), [fmt(e["value"])[:80] for e in dt], [], nontrivial=False)
    # R2 argument not modified
    bad = [e for e in events if e.kind == "inplace" and e.get("alias")]
    report.add("R2-no-mutation", f"{cons}::inplace", not bad, f"{label}: no in-place operation on a value that may alias the argument" + ("; offending: " + ", ".join(f"{e['op']} at {e.where}" for e in bad) if bad else ""), [e["op"] for e in bad], "none")


def check_clip_bound_kind(report: Report, repo: Repo, cons: str) -> None:
    """Number-kind typestate of the saturation bound: torch.clip takes python numbers, and a python *int*
    must fit 64 bits (OverflowError otherwise).  The pipeline is evaluated concretely per format in the
    interpreter's number-kind mode (python floats stay floats, int/int and int ** negative int are floats),
    and the bounds are read off the clip / clamp node of the returned dataflow term."""
    from .. import values as V

    def bounds_of(t):
        out = []

        def walk(x):
            if isinstance(x, T):
                if x.op == "call" and isinstance(x.args[0], str) and x.args[0] in ("torch.clip", "torch.clamp", "torch.clip_", "torch.clamp_"):
                    out.extend(v for k_, v in x.args[1] if k_ in ("min", "max", "1", "2"))
                elif x.op == "method" and x.args[0] in ("clip", "clamp", "clip_", "clamp_"):
                    out.extend(list(x.args[2]) + [v for k_, v in x.args[3] if k_ in ("min", "max")])
                for a in x.args:
                    walk(a)
            elif isinstance(x, (tuple, list)):
                for a in x:
                    walk(a)

        walk(t)
        return out

    ms = (0, 1, 2, 23) if report.tier == "quick" else tuple(range(24))
    bad, undecided, n_eval = [], [], 0
    saved = V.FLOAT_KIND[0]
    V.FLOAT_KIND[0] = True
    try:
        for e_ in range(2, 9):
            for m_ in ms:
                res, _events, _it, err = run_quantise(repo, "nearest", 0, e_, m_)
                if err or res is None or res is BOTTOM:
                    undecided.append(f"E{e_}M{m_}: {err or 'no result'}")
                    continue
                bs = bounds_of(TM.term_of(res))
                if not bs:
                    undecided.append(f"E{e_}M{m_}: no clip / clamp node in the returned term")
                    continue
                for b in bs:
                    n_eval += 1
                    if isinstance(b, (int, sp.Integer)) and not isinstance(b, bool) and not (-(2**63) <= int(b) < 2**64):
                        bad.append(f"E{e_}M{m_}: bound {int(b)} is a python int that does not fit 64 bits")
                    elif not isinstance(b, (int, sp.Basic)):
                        undecided.append(f"E{e_}M{m_}: bound {fmt(b)} is not a number")
    finally:
        V.FLOAT_KIND[0] = saved
    if bad:
        report.add("R6-range", f"{cons}::clip-bound-kind", False, "for every format E in 2..8, M in 0..23 the saturation bound handed to torch.clip / clamp is a python float, or an int that fits 64 bits (signed, or unsigned when positive: torch raises OverflowError beyond)", bad[:4], [])
    elif undecided:
        report.add("R6-range", f"{cons}::clip-bound-kind", None, f"the saturation bound could not be read off the pipeline: {undecided[0]}")
    else:
        report.add("R6-range", f"{cons}::clip-bound-kind", True, "for every format E in 2..8, M in 0..23 the saturation bound handed to torch.clip / clamp is a python float, or an int that fits 64 bits (signed, or unsigned when positive: torch raises OverflowError beyond)", f"{n_eval} bounds", "floats / 64-bit ints")
    report.note("clip_bound_kind_evaluations", n_eval)


def check(report: Report, repo: Repo) -> None:
    report.rule_text = (
        "Abstractly evaluate FPFormat.quantise(x) with symbolic exponent/mantissa bits and rounding='nearest':"
        " R1 the receiver of .view(torch.int32) has dtype float32 on every path and the result is cast back to x.dtype;"
        " R2 no in-place op on a value that may alias x; R3/R4 the returned dataflow term equals the reference pipeline"
        " clip(+-max) -> /downscale -> int32 view + offset -> & ~mask -> float32 view -> *downscale -> cast, with"
        " mask=2^(23-M)-1, offset in {floor(mask/2), ceil(mask/2)}, downscale=2^(127-2^(E-1)), max=2^(2^(E-1)-1)(2-2^-M);"
        " R5 unknown rounding mode raises ValueError; R6 range properties: min_normal/downscale == 2^-126,"
        " min_subnormal == min_normal*2^-M, max property == clip bound. Per-bit-pattern results are NOT decided."
    )
    report.explanation = "term-level comparison of the quantisation pipeline with a reference pipeline; E and M symbolic (thorough: also every E in 2..8 x M in 0..23 concretely)"
    report.assumptions += [
        "add-half-then-truncate on the float32 bit pattern rounds to nearest in the format (integer-arithmetic argument, not mechanised)",
        "torch.clip returns a fresh tensor; Tensor.to may return its argument",
        "per-input neighbour/idempotence/monotonicity clauses are not decided statically",
    ]
    cons = f"{FM}::FPFormat.quantise"
    TM.FINITE_DOMAINS.update({E: range(2, 9), M: range(0, 24)})  # the property's whole format space
    grids = [(E, M)]
    if report.tier == "thorough":
        grids += [(e, m) for e in range(2, 9) for m in range(0, 24)]
    n = 0
    for e, m in grids:
        label = f"nearest E={e} M={m}"
        res, events, it, err = run_quantise(repo, "nearest", 0, e, m)
        if err:
            report.add("R3-pipeline", cons, None, f"outside fragment: {err}")
            continue
        n += 1
        if e is E:
            common_pipeline_checks(report, events, it, cons, label)
        got = canon(TM.normalize(TM.term_of(res)))
        sub = {E: e, M: m}
        mask = MASK.subs(sub)
        ok = None
        diffs = []
        for off in (sp.floor(sp.Rational(1, 2) * mask), sp.ceiling(sp.Rational(1, 2) * mask)):
            exp = canon(TM.normalize(TM.term_of(ref_term(it, "nearest", 0, off, e, m))))
            r = TM.term_equal(got, exp)
            if r is True:
                ok = True
                break
            diffs.append(TM.first_diff(got, exp))
            if r is None:
                ok = None
            elif ok is None and not diffs[:-1]:
                ok = False
        report.add("R3-pipeline", f"{cons}::return", ok, f"{label}: returned value must be the reference pipeline (either tie direction accepted); " + ("; ".join(diffs) if ok is not True else ""), fmt(got), "reference pipeline", nontrivial=e is E)
    # R1 again for a rank-0 input (the property covers ranks 0-3): two 0-d tensors of different integer
    # widths promote, so a 0-d int64 constant added to the 0-d int32 bit pattern widens it and the
    # reinterpretation back to float32 fails
    from ..values import Shape

    res0, events0, it0, err0 = run_quantise(repo, "nearest", 0, shape=Shape(()))
    if err0:
        report.add("R1-dtype-typestate", f"{cons}::rank-0", None, f"rank-0 input: outside fragment: {err0}")
    else:
        for e_ in [e_ for e_ in events0 if e_.kind == "bitcast" and e_["to_dtype"] == "torch.float32"]:
            report.add("R1-dtype-typestate", f"{cons}::view(float32)[rank-0]", e_["from_dtype"] == "torch.int32", "nearest, rank-0 input: the value reinterpreted as float32 must still be int32 (every tensor combined with the bit pattern is int32 or a python number)", str(e_["from_dtype"]), "torch.int32", where=e_.where)
    check_clip_bound_kind(report, repo, cons)
    # R5 mode dispatch
    res, events, it, err = run_quantise(repo, "no-such-mode", 0)
    raised = [e["exc"] for e in events if e.kind == "raise"]
    report.add("R5-dispatch", f"{cons}::unknown-rounding", res is BOTTOM and raised == ["ValueError"], "an unknown rounding mode must raise ValueError", f"{fmt(res)} raises={raised}", "raise ValueError")
    # R6 range properties
    it = Interp(repo)
    f = mkformat(it, "nearest", 0)
    try:
        mx = it.getattr(f, "max_absolute_value")
        mn = it.getattr(f, "min_absolute_normal")
        ms = it.getattr(f, "min_absolute_subnormal")
        report.add("R6-range", f"{FM}::FPFormat.max_absolute_value", TM.expr_equal(mx, ABSMAX), "max == 2^(2^(E-1)-1) * (2 - 2^-M) and is the clip bound of quantise (checked in R3)", fmt(mx), fmt(ABSMAX))
        report.add("R6-range", f"{FM}::FPFormat.min_absolute_normal", TM.expr_equal(sp.sympify(mn) / DOWNSCALE, sp.Integer(2) ** -126), "min normal / downscale == 2^-126 (format subnormals align with float32 subnormals)", fmt(mn), fmt(MIN_NORMAL))
        report.add("R6-range", f"{FM}::FPFormat.min_absolute_subnormal", TM.expr_equal(ms, sp.sympify(mn) * sp.Integer(2) ** (-M)), "min subnormal == min normal * 2^-M", fmt(ms), fmt(MIN_NORMAL * 2 ** (-M)))
    except Unsupported as ex:
        report.add("R6-range", f"{FM}::FPFormat", None, f"outside fragment: {ex}")
    # R7 history on one (mutable) format object: use it, re-assign a field, use it again -- everything derived from
    # the fields must describe the format the object is *now* (no value cached across the re-assignment)
    for hname, (e0, m0), (e1, m1) in (("mantissa_bits 2 -> 3", (4, 2), (4, 3)), ("exponent_bits 4 -> 3", (4, 1), (3, 1))):
        it = Interp(repo)
        fo = mkformat(it, "nearest", 0, sp.Integer(e0), sp.Integer(m0))
        q = it.class_attr(fo.cls, "quantise")
        try:
            for pn in ("max_absolute_value", "min_absolute_normal", "min_absolute_subnormal", "bits"):
                it.getattr(fo, pn)
            it.call_function(q, [fo, P("x", None)], {})
            fo.attrs["exponent_bits"], fo.attrs["mantissa_bits"] = sp.Integer(e1), sp.Integer(m1)
            sub = {E: e1, M: m1}
            mx = it.getattr(fo, "max_absolute_value")
            ms = it.getattr(fo, "min_absolute_subnormal")
            report.add("R7-history", f"{FM}::FPFormat.max_absolute_value", TM.expr_equal(mx, ABSMAX.subs(sub)), f"after re-assigning {hname} on a used format object, max_absolute_value describes the new format", fmt(mx), fmt(ABSMAX.subs(sub)))
            report.add("R7-history", f"{FM}::FPFormat.min_absolute_subnormal", TM.expr_equal(ms, (MIN_NORMAL * 2 ** (-M)).subs(sub)), f"after re-assigning {hname}, min_absolute_subnormal describes the new format", fmt(ms), fmt((MIN_NORMAL * 2 ** (-M)).subs(sub)))
            res = it.call_function(q, [fo, P("x", None)], {})
            got = canon(TM.normalize(TM.term_of(res)))
            mask = MASK.subs(sub)
            oks = [TM.term_equal(got, canon(TM.normalize(TM.term_of(ref_term(it, "nearest", 0, off, e1, m1))))) for off in (sp.floor(sp.Rational(1, 2) * mask), sp.ceiling(sp.Rational(1, 2) * mask))]
            report.add("R7-history", f"{cons}::return", True if True in oks else (None if None in oks else False), f"after re-assigning {hname}, quantise is the reference pipeline of the new format", fmt(got)[:300], "reference pipeline of the new format")
        except Unsupported as ex:
            report.add("R7-history", cons, None, f"{hname}: outside fragment: {ex}")
    from .c15 import check_per_format

    check_per_format(report, repo, "R7-history")
    report.floor("quantise evaluations", n, 1 if report.tier == "quick" else 150)
