"""C04 -- only the exact clause: the cross-entropy logit-gradient scale is V/sqrt(V-1)
(RMS exactly 1 for uniform logits).  The tolerance bands are not decided statically."""
from __future__ import annotations

import sympy as sp

from .. import schemas as SC
from .. import terms as TM
from ..core import Report, Repo
from ..optable import FUNCTIONAL, summarise
from ..values import fmt
from .common import need_cases


def check(report: Report, repo: Repo) -> None:
    report.rule_text = (
        "R1: under schemas logits (V) and (N,V), reduction in {mean,sum}, the backward scale on the logits"
        " extracted from functional.cross_entropy == V/sqrt(V-1) (reference gradient softmax-onehot has RMS"
        " sqrt(V-1)/V for uniform logits) and carries no other backward factor; the forward temperature `mult`"
        " is forward-only.  Tolerance-band clauses of C04 are NOT decided (not applicable to static analysis)."
    )
    report.explanation = "one exact clause of C04 decided by symbolic extraction; V symbolic so it holds for every vocabulary size"
    report.assumptions += [
        "uniform logits: d/dx CE = softmax - onehot with one entry 1/V-1 and V-1 entries 1/V",
        "the tolerance bands of C04 are not checked by this family",
    ]
    n = 0
    for sch in SC.cross_entropy_schemas(report.tier):
        summ = summarise(repo, "cross_entropy", sch)
        if not need_cases(report, "R1-ce-grad-scale", summ):
            continue
        V = sch.args["input"].shape[-1]
        exp = V / sp.sqrt(V - 1)
        for case in summ.cases:
            occ = case.operands.get("input", [])
            base = f"{FUNCTIONAL}::cross_entropy::scale_bwd(input)"
            if not occ:
                report.add("R1-ce-grad-scale", base, False, f"logits do not reach the loss ({sch.name})")
                continue
            for f, b, ops in occ:
                n += 1
                report.add("R1-ce-grad-scale", base, TM.expr_equal(b, exp), f"logit-gradient scale under {sch.name}", fmt(b), fmt(exp))
            report.add("R1-ce-grad-scale", f"{FUNCTIONAL}::cross_entropy::output-bwd", TM.expr_equal(case.out_bwd, 1), f"no backward factor on the loss ({sch.name})", fmt(case.out_bwd), "1", nontrivial=False)
    report.floor("logit scale sites", n, 4)
