"""C09 -- u-muP tags survive any history: induction over the producers of tagged
parameter objects in parameter.py (each must re-establish tags AND both instance hooks),
writer/reader agreement of the pickling protocol, transforms copy via deepcopy."""
from __future__ import annotations

import ast
from typing import Any, Dict, List, Set

from .. import terms as TM
from ..absint import Interp, Unsupported
from ..core import AnalysisError, Report, Repo
from ..schemas import O, P
from ..values import Bound, FuncV, Obj, T, TV, fmt

PA = "unit_scaling/parameter.py"
TU = "unit_scaling/transforms/utils.py"
HOOKS: Dict[str, Any] = {"__deepcopy__": None, "__reduce_ex__": None}  # hook name -> library function (discovered)
TAGS = ("mup_type", "mup_scaling_depth")


def hook_ok(v: Any, obj: Obj, fn: Any) -> bool:
    return isinstance(v, Bound) and isinstance(v.func, FuncV) and isinstance(fn, FuncV) and v.func.node is fn.node and v.self_val is obj


def discover(it: Interp) -> Dict[str, Any]:
    """The private helpers are found through the public constructor, not by name: the functions
    Parameter() installs as instance __deepcopy__ / __reduce_ex__, and the rebuild function the
    reduce hook names."""
    f = it.get_global(PA, "Parameter")
    p = it.call_function(f, [P("data", None), "weight"], {})
    out: Dict[str, Any] = {}
    if isinstance(p, Obj):
        for h in HOOKS:
            v = p.attrs.get(h)
            out[h] = v.func if isinstance(v, Bound) and isinstance(v.func, FuncV) else None
    red = out.get("__reduce_ex__")
    out["rebuild"] = None
    if isinstance(red, FuncV):
        probe = Obj("torch.nn.Parameter", term=T("param", ("probe",)))
        probe.attrs.update({"mup_type": "weight", "mup_scaling_depth": None})
        try:
            r = it.call_function(red, [probe, O("protocol")], {})
            if isinstance(r, tuple) and r and isinstance(r[0], FuncV):
                out["rebuild"] = r[0]
        except Unsupported:
            pass
    return out


def check(report: Report, repo: Repo) -> None:
    report.rule_text = (
        "Invariant Tagged(p): p.mup_type, p.mup_scaling_depth, instance __deepcopy__ = _parameter_deepcopy bound to p,"
        " instance __reduce_ex__ = _parameter_reduce_ex bound to p. R1 (induction step): every function of parameter.py that"
        " returns a parameter object it obtained from a torch constructor/copier (Parameter, _parameter_deepcopy,"
        " _rebuild_parameter_with_state) establishes the whole invariant on the returned object (tags may come from the"
        " pickled state for the rebuild path). R2: the names filtered out of the pickled state == the hook names, the tags"
        " are not filtered, the reduce tuple rebuilds through the library's rebuild function with (data, requires_grad,"
        " hooks, state). R3: the copy carries the source's tag values. R4: apply_transform obtains its working module only"
        " via copy.deepcopy; torch_nn_modules_to_user_modules moves state with __getstate__/__setstate__."
    )
    report.explanation = "abstract interpretation of the four functions of parameter.py; histories are covered by induction over producers"
    report.assumptions += [
        "nn.Parameter.__deepcopy__ / torch._utils._rebuild_parameter_with_state return a parameter whose __dict__ holds only the shipped state",
        "copy.deepcopy and pickle look __deepcopy__/__reduce_ex__ up on the instance first",
        ".to/.half/requires_grad_/load_state_dict keep parameter object identity (torch default)",
    ]
    it = Interp(repo)
    mi = it.modinfo(PA)
    for need in ("Parameter", "has_parameter_data"):
        if not mi.has(need):
            raise AnalysisError(f"anchor vanished: {PA}::{need}")
    found = discover(it)
    HOOKS.update({h: found.get(h) for h in HOOKS})
    F_DEEPCOPY, F_REDUCE, F_REBUILD = found.get("__deepcopy__"), found.get("__reduce_ex__"), found.get("rebuild")
    for label, fn_ in (("instance __deepcopy__ hook", F_DEEPCOPY), ("instance __reduce_ex__ hook", F_REDUCE), ("rebuild function named by the reduce hook", F_REBUILD)):
        report.add("R1-producer", f"{PA}::Parameter::{label}", isinstance(fn_, FuncV), f"Parameter() must install a library function as {label}" if "hook" in label else "the reduce hook must name a library rebuild function", fmt(fn_), "a function of parameter.py", nontrivial=False)
    if not all(isinstance(x, FuncV) for x in (F_DEEPCOPY, F_REDUCE, F_REBUILD)):
        return
    N_DEEPCOPY, N_REDUCE, N_REBUILD = (f"{PA}::{x.qualname}" for x in (F_DEEPCOPY, F_REDUCE, F_REBUILD))

    def check_obj(cons: str, obj: Any, want_tags: Dict[str, Any], tags_required: bool) -> None:
        if not isinstance(obj, Obj) or obj.cls_name != "torch.nn.Parameter":
            report.add("R1-producer", cons, False, "does not return a parameter object", fmt(obj), "nn.Parameter")
            return
        for h, fn_ in HOOKS.items():
            report.add("R1-producer", f"{cons}::hooks", hook_ok(obj.attrs.get(h), obj, fn_), f"returned parameter must carry instance {h} = {fn_.qualname} bound to itself (otherwise the next copy/pickle drops the tags)", fmt(obj.attrs.get(h, "<not set>")), f"{fn_.qualname}.__get__(p)")
        if tags_required:
            for tname, want in want_tags.items():
                got = obj.attrs.get(tname, "<not set>")
                ok = got is want or (TM.term_of(got) == TM.term_of(want) and not isinstance(got, str) or got == want)
                report.add("R3-tags", f"{cons}::{tname}", bool(ok), f"returned parameter carries {tname} of its source", fmt(got), fmt(want))

    # ---- producer 1: Parameter()
    f = it.get_global(PA, "Parameter")
    mt, dp = O("mup_type"), O("mup_scaling_depth")
    try:
        p = it.call_function(f, [P("data", None), mt, dp], {})
        check_obj(f"{PA}::Parameter", p, {"mup_type": mt, "mup_scaling_depth": dp}, True)
        p2 = it.call_function(f, [P("data", None), "weight"], {})
        report.add("R3-tags", f"{PA}::Parameter::depth-default", isinstance(p2, Obj) and p2.attrs.get("mup_scaling_depth", 0) is None, "depth defaults to None", fmt(getattr(p2, "attrs", {}).get("mup_scaling_depth", "<unset>")), "None", nontrivial=False)
    except Unsupported as ex:
        report.add("R1-producer", f"{PA}::Parameter", None, f"outside fragment: {ex}")
    # ---- producer 2: _parameter_deepcopy
    f = F_DEEPCOPY
    src = Obj("torch.nn.Parameter", attrs={"mup_type": O("src_type"), "mup_scaling_depth": O("src_depth")}, term=T("param", ("self",)))
    try:
        r = it.call_function(f, [src, O("memo")], {})
        check_obj(N_DEEPCOPY, r, {k: src.attrs[k] for k in TAGS}, True)
        report.add("R1-producer", f"{N_DEEPCOPY}::fresh", r is not src, "the copy is a new object", "same" if r is src else "new", "new", nontrivial=False)
    except Unsupported as ex:
        report.add("R1-producer", N_DEEPCOPY, None, f"outside fragment: {ex}")
    # ---- producer 3: _rebuild_parameter_with_state
    f = F_REBUILD
    try:
        it.events = []
        r = it.call_function(f, [P("data", None), O("requires_grad"), {}, {"mup_type": "weight", "mup_scaling_depth": None}], {})
        check_obj(N_REBUILD, r, {}, False)
        calls = [e for e in it.events if e.kind == "call" and "torch._utils._rebuild_parameter_with_state" in str(e["callee"])]
        okc = len(calls) == 1 and len(calls[0]["args"]) == 4
        report.add("R2-pickle-protocol", f"{N_REBUILD}::delegate", okc, "all arguments (incl. the state dict that carries the tags) are handed to torch's rebuild function", len(calls[0]["args"]) if calls else 0, 4)
    except Unsupported as ex:
        report.add("R1-producer", N_REBUILD, None, f"outside fragment: {ex}")
    # ---- R2: reduce_ex
    f = F_REDUCE
    cons = N_REDUCE
    # symbolic tag values, then concrete ones of every kind the tags can take (None included)
    for sc_name, tagv, depthv, userv in (("symbolic", "norm", O("depth"), O("user")), ("depth None", "weight", None, "label"), ("depth 7", "output", 7, 2.5), ("depth 1", "bias", 1, None)):
        selfp = Obj("torch.nn.Parameter", term=T("param", ("self",)))
        selfp.attrs.update({"mup_type": tagv, "mup_scaling_depth": depthv, "user_attr": userv})
        for h, fn_ in HOOKS.items():
            selfp.attrs[h] = Bound(fn_, selfp)
        lab = f"[{sc_name}] "
        try:
            before_keys = dict(selfp.attrs)
            r = it.call_function(f, [selfp, O("protocol")], {})
            unchanged = set(selfp.attrs) == set(before_keys) and all(selfp.attrs[k] is before_keys[k] for k in before_keys)
            report.add("R2-pickle-protocol", f"{cons}::source-untouched", unchanged, lab + "pickling must not modify the parameter being saved (its instance __dict__ is live: removing the hooks from it untags every later copy of the *source*)", sorted(set(before_keys) - set(selfp.attrs)), [])
            ok = isinstance(r, tuple) and len(r) == 2 and isinstance(r[0], FuncV) and r[0].node is F_REBUILD.node and r[0].module.rel == PA and isinstance(r[1], tuple) and len(r[1]) == 4
            report.add("R2-pickle-protocol", f"{cons}::rebuild", ok, lab + "reduce must return (library rebuild function, (data, requires_grad, hooks, state))", fmt(r), "(_rebuild_parameter_with_state, (data, requires_grad, OrderedDict(), state))")
            if ok:
                data, rg, hooks, state = r[1]
                report.add("R2-pickle-protocol", f"{cons}::payload", TM.term_of(data) == T("attr", (selfp.term, "data")) and TM.term_of(rg) == T("attr", (selfp.term, "requires_grad")), lab + "values and trainability are shipped", fmt((data, rg)), "(self.data, self.requires_grad)")
                if isinstance(state, dict):
                    dropped = set(selfp.attrs) - set(state)
                    if sc_name == "symbolic":
                        report.add("R2-pickle-protocol", f"{cons}::filter", dropped == set(HOOKS), lab + "exactly the two instance hooks are filtered out of the pickled state (they are re-installed by the rebuild function); tags and other attributes are kept", sorted(dropped), sorted(HOOKS))
                    else:
                        report.add("R2-pickle-protocol", f"{cons}::filter", set(HOOKS) <= dropped, lab + "the two instance hooks are filtered out of the pickled state", sorted(dropped), sorted(HOOKS), nontrivial=False)
                    for tname in TAGS:
                        report.add("R2-pickle-protocol", f"{cons}::state[{tname}]", tname in state and state[tname] is selfp.attrs[tname], lab + f"{tname} travels in the pickled state", fmt(state.get(tname, "<dropped>")), fmt(selfp.attrs[tname]))
                else:
                    report.add("R2-pickle-protocol", f"{cons}::filter", None, lab + f"state is not statically known: {fmt(state)}")
        except Unsupported as ex:
            # the symbolic scenario may leave the fragment (e.g. a type test on an unknown value); the concrete ones decide
            report.add("R2-pickle-protocol", cons, None if sc_name != "symbolic" else True, lab + f"outside fragment: {ex}", nontrivial=False)

    # ---- has_parameter_data reads only the two tags
    hp = it.get_global(PA, "has_parameter_data")
    try:
        tagged = Obj("torch.nn.Parameter", attrs={"mup_type": "weight", "mup_scaling_depth": None}, open_attrs=False)
        untag = Obj("torch.nn.Parameter", attrs={}, open_attrs=False)
        badt = Obj("torch.nn.Parameter", attrs={"mup_type": "foo", "mup_scaling_depth": None}, open_attrs=False)
        res = [it.call_function(hp, [o], {}) for o in (tagged, untag, badt)]
        report.add("R1-producer", f"{PA}::has_parameter_data", res == [True, False, False], "acceptance test reads only the two tags: tagged -> True, untagged / unknown tag -> False", res, [True, False, False])
    except Unsupported as ex:
        report.add("R1-producer", f"{PA}::has_parameter_data", None, f"outside fragment: {ex}")

    # ---- R4 transforms: the working module of every library transform is obtained through copy.deepcopy
    # (so parameters pass through the instance hook); decided by abstract execution, see C17-R1
    from .c17 import mkmodule

    it_t = Interp(repo)
    at = it_t.get_global(TU, "apply_transform")
    m = mkmodule("m")
    try:
        it_t.events = []
        res = it_t.call_function(at, [m, O("backend")], {})
        dc = [e for e in it_t.events if e.kind == "call" and e["callee"] == "copy.deepcopy"]
        okd = isinstance(res, Obj) and res is not m and len(dc) == 1 and dc[0]["args"][0] is m
        report.add("R4-transforms", f"{TU}::apply_transform::deepcopy", okd, "the transformed module is a copy.deepcopy of the argument (parameters are copied through their instance hook, never re-created)", f"deepcopy calls: {len(dc)}", "module = copy.deepcopy(module)")
    except Unsupported as ex:
        report.add("R4-transforms", f"{TU}::apply_transform::deepcopy", None, f"outside fragment: {ex}")
    # unit_scale (copy, then re-initialise Linear / Embedding weights in place) on a module whose layers hold
    # tagged parameters: the copy's parameters keep the tags and the hooks
    US = "unit_scaling/transforms/_unit_scale.py"
    it_u = Interp(repo)
    us = it_u.get_global(US, "unit_scale")

    def tagged(nm: str, tagv: str, depthv: Any) -> Obj:
        p_ = Obj("torch.nn.Parameter", term=T("param", (nm,)))
        # (the embedding table is frozen -- a pretrained table -- when the transform is applied)
        p_.attrs.update({"mup_type": tagv, "mup_scaling_depth": depthv, "requires_grad": not nm.startswith("emb")})
        for h, fn_ in HOOKS.items():
            p_.attrs[h] = Bound(fn_, p_)
        return p_

    def layer(cls_name: str, nm: str, tagv: str, depthv: Any) -> Obj:
        w_, b_ = tagged(f"{nm}.w", tagv, depthv), tagged(f"{nm}.b", "bias", depthv)
        return Obj(cls_name, attrs={"weight": w_, "bias": b_, "_params": [("weight", w_), ("bias", b_)], "_children": [], "__module__": "user_code.layers"}, term=None)

    layers = [("lin", layer("torch.nn.Linear", "lin", "weight", 3)), ("emb", layer("torch.nn.Embedding", "emb", "weight", None)), ("ln", layer("torch.nn.LayerNorm", "ln", "norm", None))]
    mod = Obj("torch.nn.Module", term=None)
    mod.attrs.update({"forward": O("m.forward"), "_children": list(layers), "_params": [], "__module__": "user_code.models"})
    cons = f"{US}::unit_scale::parameters"
    try:
        res = it_u.call_function(us, [mod], {})
        ch = dict(res.attrs.get("_children", [])) if isinstance(res, Obj) else {}
        n_par = 0
        for nm, src in layers:
            c = ch.get(nm)
            for pn in ("weight", "bias"):
                sp_, cp_ = src.attrs[pn], (c.attrs.get(pn) if isinstance(c, Obj) else None)
                n_par += 1
                ok = isinstance(cp_, Obj) and cp_ is not sp_ and all(cp_.attrs.get(t_, "<lost>") == sp_.attrs[t_] for t_ in TAGS)
                report.add("R4-transforms", f"{cons}[{nm}.{pn}]", ok, "after unit_scale the copy's parameter is a distinct object that still carries the source's u-muP tags", fmt({t_: cp_.attrs.get(t_, "<lost>") for t_ in TAGS}) if isinstance(cp_, Obj) else fmt(cp_), fmt({t_: sp_.attrs[t_] for t_ in TAGS}))
                if ok:
                    okh = all(isinstance(cp_.attrs.get(h), Bound) and getattr(cp_.attrs[h].func, "node", None) is HOOKS[h].node and cp_.attrs[h].self_val is cp_ for h in HOOKS)
                    report.add("R4-transforms", f"{cons}[{nm}.{pn}]::hooks", okh, "and its copy / pickle hooks (bound to itself), so later copies keep the tags too", sorted(h for h in HOOKS if h in cp_.attrs), sorted(HOOKS))
        report.floor("parameters followed through unit_scale", n_par, 6)
        # dtype typestate: a transform that re-binds a parameter's storage must take the dtype from that
        # parameter (a tensor of the process default dtype silently undoes an earlier .half() / .double())
        rebinds = [e for e in it_u.events if e.kind == "setattr" and e["attr"] == "data" and isinstance(e["obj"], Obj) and e["obj"].cls_name == "torch.nn.Parameter"]
        bad_rb = [e for e in rebinds if isinstance(getattr(e["value"], "dtype", None), str)]
        report.add("R4-transforms", f"{US}::unit_scale::parameter-dtype", not bad_rb, "unit_scale never re-binds a parameter's .data to a tensor of a fixed / default dtype (the dtype the user converted the model to survives)", [f"{fmt(e['obj'])}.data = {fmt(e['value'])[:80]} ({e['value'].dtype}) at {e.where}" for e in bad_rb], [], nontrivial=False)
    except Unsupported as ex:
        report.add("R4-transforms", cons, None, f"outside fragment: {ex}")
    # no library transform converts, freezes or un-freezes the parameters of the module it returns: the only
    # methods it may call on its working copy are the ones that read it (and `apply` style visitors for unit_scale)
    MUTATORS = ("float", "half", "double", "bfloat16", "to", "type", "requires_grad_", "cuda", "cpu", "to_empty", "zero_grad", "train", "eval", "share_memory", "xpu", "ipu")
    SF_, TS_ = "unit_scaling/transforms/_simulate_format.py", "unit_scaling/transforms/_track_scales.py"
    it_m = Interp(repo)
    fcls = it_m.get_global("unit_scaling/formats.py", "FPFormat")
    f1_, f2_ = it_m.call_function(fcls, [4, 3], {}), it_m.call_function(fcls, [5, 2], {})
    entries = [
        ("unit_scale", lambda m_: it_m.call_function(it_m.get_global(US, "unit_scale"), [m_], {})),
        ("simulate_format", lambda m_: it_m.call_function(it_m.get_global(SF_, "simulate_format"), [m_, f1_, f2_], {})),
        ("simulate_fp8", lambda m_: it_m.call_function(it_m.get_global(SF_, "simulate_fp8"), [m_], {})),
        ("track_scales", lambda m_: it_m.call_function(it_m.get_global(TS_, "track_scales"), [m_], {})),
    ]
    for ename, run_ in entries:
        cons = f"transforms::{ename}::parameters-untouched"
        m_in = mkmodule("m")
        it_m.events = []
        try:
            r_ = run_(m_in)
        except Unsupported as ex:
            report.add("R4-transforms", cons, None, f"outside fragment: {ex}")
            continue
        hits = []
        for e in it_m.events:
            if e.kind != "callv":
                continue
            ct = TM.term_of(e["callee"])
            if isinstance(ct, T) and ct.op == "attr" and ct.args[1] in MUTATORS and isinstance(ct.args[0], T) and ct.args[0].op in ("obj", "copy", "call"):
                hits.append(f"{ct.args[1]}({', '.join(fmt(a_) for a_ in e['args'])})")
        report.add("R4-transforms", cons, not hits, f"{ename}() does not convert the dtype / device or change the trainability of the parameters of the module it returns", hits, [], nontrivial=False)
    report.floor("producers analysed", 3, 3)
    check_picklable_state(report, repo)


def check_picklable_state(report: Report, repo: Repo) -> None:
    """A module that keeps a *local* function (a closure, a lambda) among its attributes cannot be pickled /
    torch.save'd at all -- the tags of the parameters it holds then do not survive that history either."""
    from ..nnmodel import container_super_hook
    from ..schemas import dim
    from ..values import ClassV, FuncV

    MD = "unit_scaling/_modules.py"

    def opaque(f):
        return isinstance(f, ClassV) and f.qualname in ("TransformerLayer", "Embedding", "RMSNorm", "LinearReadout", "MHSA", "MLP", "Linear")

    scen = {
        "TransformerStack": dict(layers=2, hidden_size=dim("H"), heads=dim("h"), is_causal=True),
        "TransformerDecoder": dict(hidden_size=dim("H"), vocab_size=dim("V"), layers=2, heads=dim("h"), dropout_p=0),
    }
    for cname, kw in scen.items():
        it = Interp(repo, opaque=opaque)
        it.super_hook = container_super_hook("Sequential")
        cls = it.get_global(MD, cname)
        cons = f"{MD}::{cname}.__init__::picklable-state"
        selfv = Obj(f"unit_scaling._modules.{cname}", cls=cls)
        try:
            it.call_function(it.class_attr(cls, "__init__"), [selfv], dict(kw))
        except Unsupported as ex:
            report.add("R2-pickle-protocol", cons, None, f"outside fragment: {ex}")
            continue
        local = []

        def scan(o, path, depth=0):
            if depth > 3 or not isinstance(o, Obj):
                return
            for k_, v_ in o.attrs.items():
                if isinstance(v_, FuncV) and ("<locals>" in v_.qualname or isinstance(v_.node, __import__("ast").Lambda)):
                    local.append(f"{path}.{k_} = {v_.qualname}")
                elif isinstance(v_, Obj) and k_ != "_modules":
                    scan(v_, f"{path}.{k_}", depth + 1)
            for k_, m_ in (o.attrs.get("_modules") or {}).items() if isinstance(o.attrs.get("_modules"), dict) else []:
                scan(m_, f"{path}[{k_}]", depth + 1)

        scan(selfv, cname)
        report.add("R2-pickle-protocol", cons, not local, f"{cname}(...) with the default rule keeps no local function (closure / lambda) among its attributes: such a module cannot be pickled or torch.save'd, so no tag survives that history", local, [], nontrivial=False)
