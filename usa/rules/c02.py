"""C02 -- gradients are PyTorch's times per-input data-independent scalars: the two
primitives touch one pass each; every differentiable operand passes exactly one
backward-only scale below the reference op; nothing backward-scaled above it."""
from __future__ import annotations

from typing import Any, Dict, List

import sympy as sp

from .. import schemas as SC
from .. import terms as TM
from ..absint import Interp, Unsupported
from ..core import AnalysisError, Report, Repo
from ..optable import FUNCTIONAL, PUBLIC_FUNCTIONS, summarise
from ..schemas import O, P
from ..values import BOTTOM, ClassV, FuncV, Gamma, Obj, T, TV, Unknown, fmt
from .c01 import c01_schema_sets, fill_args, sample_positive, strip_default_constraint

SCALE = "unit_scaling/scale.py"

# tensor parameters that legitimately carry no backward scale (frozen, with reasons)
EXEMPT = {
    ("layer_norm", "input"): "normalisation output is scale-free in its input: gradient already unit-scaled",
    ("rms_norm", "input"): "as layer_norm",
    ("embedding", "input"): "integer indices: not differentiable",
    ("cross_entropy", "target"): "class indices: not differentiable",
    ("scaled_dot_product_attention", "attn_mask"): "mask: not a trained operand",
    ("add", "out"): "destination buffer",
    ("softmax", "dtype"): "not a tensor",
}
# operands that carry a documented forward-only factor below the reference op
OPERAND_FWD = {("cross_entropy", "input"): "mult"}
DIFF = {
    "gelu": ["input"], "silu": ["input"], "silu_glu": ["input", "gate"], "softmax": ["input"], "dropout": ["input"],
    "matmul": ["left", "right"], "linear": ["input", "weight", "bias"], "linear_readout": ["input", "weight", "bias"],
    "conv1d": ["input", "weight", "bias"], "layer_norm": ["weight", "bias"], "rms_norm": ["weight"],
    "add": ["input", "other"], "embedding": ["weight"], "scaled_dot_product_attention": ["query", "key", "value"],
    "cross_entropy": ["input"], "mse_loss": ["input", "target"],
}


def check_primitives(report: Report, repo: Repo) -> None:
    it = Interp(repo)
    s = sp.Symbol("s", real=True)  # any real factor: negative and zero included
    x = P("x", None)
    for name, efwd, ebwd in (("scale_fwd", s, 1), ("scale_bwd", 1, s)):
        f = it.get_global(SCALE, name)
        it.events = []
        cons = f"{SCALE}::{name}"
        try:
            res = it.call_function(f, [x, s], {})
        except Unsupported as e:
            report.add("R1-primitives", cons, None, f"outside fragment: {e}")
            continue
        evs = [e for e in it.events if e.kind == "scale"]
        ok = len(evs) == 1 and TM.expr_equal(evs[0]["fwd"], efwd) is True and TM.expr_equal(evs[0]["bwd"], ebwd) is True and TM.term_of(evs[0]["x"]) == x.term and isinstance(res, TV) and res.term == evs[0]["result"].term
        got = [(fmt(e["fwd"]), fmt(e["bwd"])) for e in evs]
        report.add("R1-primitives", cons, ok, f"{name}(x, s) must apply the custom function once to x with (forward, backward) factors ({efwd}, {ebwd}) and return its result", str(got), f"[({efwd}, {ebwd})]")
    cls = it.get_global(SCALE, "_ScaledGrad")
    if not isinstance(cls, ClassV):
        raise AnalysisError("anchor vanished: scale.py::_ScaledGrad")
    fwd = it.class_attr(cls, "forward")
    bwd = it.class_attr(cls, "backward")
    fs, bs = sp.Symbol("fwd_scale", real=True), sp.Symbol("bwd_scale", real=True)
    proxy = lambda n: Obj("torch.fx.proxy.Proxy", term=T("param", (n,)))
    variants = {
        "eager": (P("X", None), bs),
        "proxy-scale": (P("X", None), proxy("bwd_scale")),
        "proxy-tensor": (proxy("X"), bs),
    }
    saved_sources = {}
    for vname, (X, B) in variants.items():
        ctx = Obj("torch.autograd.function.FunctionCtx", term=T("param", ("ctx",)))
        it.events = []
        cons = f"{SCALE}::_ScaledGrad.forward[{vname}]"
        try:
            res = it.call_function(fwd, [ctx, X, fs, B], {})
        except Unsupported as e:
            report.add("R1-primitives", cons, None, f"outside fragment: {e}")
            continue
        exp = T("mul", (fs, TM.term_of(X)))
        ok = all(TM.term_equal(TM.term_of(leaf), exp) is True for _g, leaf in TM.leaves(res)) if res is not None else False
        report.add("R1-primitives", cons + "::return", ok, "forward must return exactly fwd_scale * X (no other arithmetic, no use of bwd_scale)", fmt(res), fmt(exp))
        saves = [e for e in it.events if e.kind == "callv" and "save_for_backward" in fmt(e["callee"])]
        if len(saves) != 1 or len(saves[0]["args"]) != 1:
            report.add("R2-siblings", cons + "::saved", False, f"expected one save_for_backward(<one value>), found {len(saves)}")
            continue
        a = saves[0]["args"][0]
        src = a.const if isinstance(a, TV) and a.const is not None else TM.term_of(a)
        want = bs if not isinstance(B, Obj) else TM.term_of(B)
        ok = (TM.expr_equal(src, want) is True) if not isinstance(B, Obj) else (src == want)
        report.add("R2-siblings", cons + "::saved", ok, "every branch of the tracing special-case must save exactly bwd_scale (as a tensor or proxy)", fmt(src), fmt(want))
    # history independence: the same factor used again with a tensor of another dtype (module-level
    # memoisation keyed by the factor alone would hand back the first call's constant)
    try:
        for factor in (bs, sp.Rational(1, 4)):
            seen_dt = []
            for xn in ("X1", "X2"):
                ctx = Obj("torch.autograd.function.FunctionCtx", term=T("param", ("ctx",)))
                it.events = []
                it.call_function(fwd, [ctx, P(xn, None), fs, factor], {})
                saves = [e for e in it.events if e.kind == "callv" and "save_for_backward" in fmt(e["callee"])]
                for e in saves:
                    for g_, leaf in TM.leaves(e["args"][0]):
                        seen_dt.append((xn, getattr(leaf, "dtype", None), getattr(leaf, "const", None)))
            if any(c is None for _xn, _dt, c in seen_dt):
                ok = None  # the saved value is not a tracked constant: its relation to the factor is not decided here
            else:
                ok = bool(seen_dt) and all(dt == ("same", xn) and TM.expr_equal(c, factor) is True for xn, dt, c in seen_dt)
            report.add("R2-siblings", f"{SCALE}::_ScaledGrad.forward::saved-dtype-history", ok, f"two calls with the same backward factor ({fmt(factor)}) and tensors of different dtypes: each call must save the factor in the dtype of *its own* tensor, whatever was called before", str(seen_dt)[:300], "[(X1, dtype of X1), (X2, dtype of X2)]")
    except Unsupported as e:
        report.add("R2-siblings", f"{SCALE}::_ScaledGrad.forward::saved-dtype-history", None, f"outside fragment: {e}")
    # zero and negative factors are passed through unchanged (concrete values, both primitives)
    for name in ("scale_fwd", "scale_bwd"):
        f = it.get_global(SCALE, name)
        for val in (0, -2, sp.Rational(-1, 3)):
            it.events = []
            try:
                it.call_function(f, [P("x", None), val], {})
            except Unsupported as e:
                report.add("R1-primitives", f"{SCALE}::{name}[factor={val}]", None, f"outside fragment: {e}")
                continue
            evs = [e for e in it.events if e.kind == "scale"]
            want = (val, 1) if name == "scale_fwd" else (1, val)
            ok = len(evs) == 1 and not evs[0].guard and TM.expr_equal(evs[0]["fwd"], want[0]) is True and TM.expr_equal(evs[0]["bwd"], want[1]) is True
            report.add("R1-primitives", f"{SCALE}::{name}[factor={val}]", ok, f"{name}(x, {val}): zero and negative factors are applied as given (no defaulting, abs or clamp)", [(fmt(e["fwd"]), fmt(e["bwd"])) for e in evs], [want], nontrivial=False)
    # backward
    ctx = Obj("torch.autograd.function.FunctionCtx", attrs={"saved_tensors": (P("saved", None),)}, term=T("param", ("ctx",)))
    g = P("grad_Y", None)
    cons = f"{SCALE}::_ScaledGrad.backward"
    try:
        res = it.call_function(bwd, [ctx, g], {})
        ok = isinstance(res, tuple) and len(res) == 3 and res[1] is None and res[2] is None and TM.term_equal(TM.term_of(res[0]), T("mul", (T("param", ("saved",)), g.term))) is True
        report.add("R1-primitives", cons, ok, "backward must return (saved * grad_Y, None, None)", fmt(res), "(saved*grad_Y, None, None)")
        if ok:
            cut = getattr(res[0], "nograd", False)
            report.add("R1-primitives", cons + "::grad-mode", not cut, "the gradient handed back is not produced inside a no_grad / inference_mode region (under create_graph=True the scaled gradient stays differentiable, as PyTorch's is)", "produced under no_grad" if cut else "caller's grad mode", "caller's grad mode", nontrivial=False)
    except Unsupported as e:
        report.add("R1-primitives", cons, None, f"outside fragment: {e}")


def check(report: Report, repo: Repo) -> None:
    report.rule_text = (
        "R1: scale_fwd/scale_bwd apply _ScaledGrad once with (s,1)/(1,s); forward returns fwd_scale*X, backward"
        " (saved*grad, None, None), for any real s; R2: the three sibling branches of the tracing special case all save"
        " bwd_scale; R3: in every public function x schema each differentiable tensor operand reaches the reference op"
        " through exactly one backward-only scale (exemption table with reasons), whose factor is a positive closed-form"
        " expression of shapes/hyper-parameters; R4: backward-only scales sit below the reference op, forward-only"
        " scales above it (documented temperature on cross-entropy logits excepted), no backward factor on the output."
    )
    report.explanation = "term-level operand coverage on the abstract-interpretation summaries of functional.py plus evaluation of scale.py's autograd function"
    report.assumptions += ["autograd of the reference op is PyTorch's", "a scale node multiplies the incoming gradient by its backward factor (checked on scale.py in R1)"]
    check_primitives(report, repo)
    it = Interp(repo)
    n = 0
    for label, sset in c01_schema_sets(report.tier):
        sset = strip_default_constraint(sset)
        for func, diff in DIFF.items():
            f = it.get_global(FUNCTIONAL, func)
            if label != "default-constraint" and not any("constraint" in s.args for s in sset[func]):
                continue
            for sch in sset[func]:
                args = fill_args(it, f, sch.args)
                full = SC.Schema(sch.name + f" [{label}]", args, sch.note, sch.dims_ge2)
                summ = summarise(repo, func, full, interp=it)
                base = f"{FUNCTIONAL}::{func}"
                if summ.error is not None:
                    report.add("R3-operands", f"{base}::{sch.name}", None, f"outside the analysable fragment: {summ.error}")
                    continue
                for case in summ.cases:
                    gs = full.name + (" | " + TM.guard_str(case.guard) if case.guard else "")
                    report.add("R4-order", f"{base}::output", TM.expr_equal(case.out_bwd, 1), f"{gs}: no backward factor above the reference op", fmt(case.out_bwd), "1", nontrivial=False)
                    for p, occ in case.operands.items():
                        a = args.get(p)
                        is_tensor = isinstance(a, TV) and a.kind == "tensor"
                        if not is_tensor:
                            continue
                        n += 1
                        kinds = [tuple(o for o in ops if o.startswith("scale:")) for _f, _b, ops in occ]
                        if (func, p) in EXEMPT:
                            ok = all(len(ks) == 0 for ks in kinds)
                            report.add("R3-operands", f"{base}::{p}", ok, f"{gs}: exempt operand ({EXEMPT[(func, p)]}) must pass unscaled", str(kinds), "no scale", nontrivial=False)
                            continue
                        if p not in diff:
                            continue
                        allowed_f = 1 if (func, p) in OPERAND_FWD else 0
                        for (fv, bv, ops), ks in zip(occ, kinds):
                            nb = sum(1 for k in ks if k == "scale:b")
                            nf = sum(1 for k in ks if k == "scale:f")
                            ok = nb == 1 and nf == allowed_f and not any(k == "scale:fb" for k in ks)
                            report.add("R3-operands", f"{base}::scale_bwd({p})", ok, f"{gs}: operand '{p}' must pass exactly one backward-only scale before the reference op", str(ks), "('scale:b',)" if not allowed_f else "('scale:f','scale:b') in any order")
                            # the scale must sit directly on the operand (below the reference op)
                            first_scale = next((i for i, o in enumerate(ops) if o == "scale:b"), None)
                            below = first_scale is not None and all(o.startswith("scale:") for o in ops[first_scale:])
                            if nb == 1:
                                report.add("R4-order", f"{base}::scale_bwd({p})", below, f"{gs}: the backward scale must be applied to the operand itself, before any other op", str(ops), "… reference op, scale", nontrivial=False)
                            if isinstance(bv, (sp.Basic, int)):
                                ds = set(sp.sympify(bv).free_symbols) & set(it.data_syms)
                                report.add("R3-operands", f"{base}::scale_bwd({p})::data", not ds, f"{gs}: backward factor must not depend on tensor values", fmt(bv), "shape/hyper-parameter expression", nontrivial=False)
                                if not ds:
                                    report.add("R3-operands", f"{base}::scale_bwd({p})::positive", sample_positive(bv), f"{gs}: backward factor must be positive", fmt(bv), "> 0", nontrivial=False)
                                pw = args.get("scale_power")
                                if isinstance(pw, tuple) and len(pw) == 3 and all(isinstance(x_, sp.Symbol) for x_ in pw) and label == "constraint=None":
                                    # documented routing of the three powers: (output, grad(input), grad(weight|bias))
                                    own = pw[1] if p == "input" else pw[2]
                                    fs = set(sp.sympify(bv).free_symbols) & set(pw)
                                    report.add("R3-operands", f"{base}::scale_bwd({p})::power", fs == {own}, f"{gs}: the backward factor of '{p}' is governed by its own entry of scale_power and no other", sorted(map(str, fs)), str(own))
                            else:
                                report.add("R3-operands", f"{base}::scale_bwd({p})::data", False if isinstance(bv, T) else None, f"{gs}: backward factor is not a closed-form scalar", fmt(bv), "shape/hyper-parameter expression")
                    for p in diff:
                        a = args.get(p)
                        if isinstance(a, TV) and a.kind == "tensor" and p not in case.operands:
                            report.add("R3-operands", f"{base}::scale_bwd({p})", False, f"{gs}: differentiable operand '{p}' does not reach the result", "absent", "one backward-only scale")
    report.floor("tensor operand occurrences checked", n, 150)
