"""C19 -- graph pruning: abstract execution of the three pruning helpers on abstract FX
graphs covering positional / keyword / nested-list / output-tuple uses, compared with an
independently computed expected graph."""
from __future__ import annotations

import ast
from typing import Any, Dict, List, Optional, Tuple

import sympy as sp

from .. import terms as TM
from ..absint import Interp, Unsupported
from ..core import AnalysisError, Report, Repo
from ..fxmodel import AbstractGraph, deep_map, deep_nodes, is_node
from ..schemas import O
from ..values import BOTTOM, ExtV, Obj, T, fmt

TS = "unit_scaling/transforms/_track_scales.py"


def data(mean_abs: Any) -> Obj:
    return Obj("Metrics.Data", attrs=dict(mean_abs=mean_abs, abs_mean=sp.Symbol("am"), std=sp.Symbol("sd"), abs_max=sp.Symbol("mx"), abs_min=sp.Symbol("mn"), numel=sp.Symbol("ne")), open_attrs=False)


def metrics(fwd: Any, bwd: Any = None) -> Obj:
    return Obj("Metrics", attrs=dict(fwd=data(fwd), bwd=None if bwd is None else data(bwd)), open_attrs=False)


S = {k: sp.Symbol(k, positive=True) for k in ("s1", "s2", "s3", "s4", "g1", "g2", "g3")}


def build(it: Interp, with_bwd: bool) -> Tuple[AbstractGraph, Dict[str, Obj]]:
    """One graph exercising every argument position the property names."""
    g = AbstractGraph(it)
    E = lambda n: ExtV(n)
    N: Dict[str, Obj] = {}

    def mk(name, op, tgt, args=(), kwargs=None, flt=True, scale=None, gscale=None):
        meta = {"clean_name": name, "outputs_float_tensor": flt, "requires_grad": False}
        if flt:
            meta["metrics"] = metrics(S[scale], S[gscale] if (with_bwd and gscale) else None)
        N[name] = g.node(name, op, tgt, args, kwargs, meta)
        return N[name]

    x = mk("x", "placeholder", "x", scale="s1", gscale="g1")
    idx = mk("output_ids", "placeholder", "output_ids", flt=False)  # (a user variable called output_ids: only the node named exactly "output" is the graph's output)
    n1 = mk("output", "call_function", E("torch.neg"), (x,), scale="s1", gscale="g1")  # same scale as x; the user called this tensor `output`, so fx names the graph's output node output_1
    n2 = mk("outputs_view", "call_method", "view", (n1, 4, -1), scale="s1", gscale="g1")  # same scale
    n2 = mk("transpose", "call_method", "transpose", (n2, 0, 1), scale="s1", gscale="g1")  # third link of a same-scale chain
    n3 = mk("cat", "call_function", E("torch.cat"), ([n2, x],), {"dim": 0}, scale="s2", gscale="g2")  # list of tensors
    n4 = mk("size", "call_method", "size", (n3, 0), flt=False)  # int output, one float input
    n5 = mk("reshape", "call_function", E("torch.reshape"), (n3, (n4, -1)), scale="s2", gscale="g2")  # same scale as cat
    n6 = mk("index_select", "call_function", E("torch.index_select"), (n5,), {"dim": 0, "index": idx}, scale="s3", gscale="g3")
    n7 = mk("scaled", "call_function", E("torch.mul"), (n6,), {"other": n2}, scale="s4", gscale="g3")  # keyword tensor argument
    n8 = mk("gscale_differs", "call_method", "contiguous", (n7,), scale="s4", gscale="g1")  # fwd same, bwd differs
    n9 = mk("add", "call_function", E("torch.add"), (n8, n1), scale="s3", gscale="g3")
    cmp_ = mk("cmp", "call_function", E("torch.eq"), (n6, n5), flt=False)  # non-float, two float inputs: no bypass
    mix = mk("mix", "call_function", E("torch.add"), (n6, n5), scale="s3", gscale="g3")  # same scale as n6 but two float inputs
    mk("aux_unused", "call_function", E("torch.mul"), (n6, 2), scale="s4", gscale="g2")  # a tracked tensor nobody consumes: must survive
    # inputs given by keyword count as inputs: a same-scale op and a non-float op whose only float input is a keyword
    kwneg = mk("kw_neg", "call_function", E("torch.neg"), (), {"input": n9}, scale="s3", gscale="g3")  # same scale as add
    amax = mk("amax", "call_function", E("torch.argmax"), (), {"input": n9, "dim": 0}, flt=False)  # int output, one float input (keyword)
    gat = mk("gathered", "call_function", E("torch.gather"), (n9, 0, amax), scale="s4", gscale="g2")
    kwadd = mk("kw_add", "call_function", E("torch.add"), (n9,), {"other": n6}, scale="s3", gscale="g3")  # same scale as n9 but two float inputs
    mk("output_1", "output", "output", ((n9, n4, cmp_, mix, kwneg, gat, kwadd),), flt=False)
    return g, N


def expected(g0: AbstractGraph, removed: List[str], bypass: bool) -> List[Tuple[str, str, str]]:
    """Independent reference: drop `removed`, redirect uses to the single float input
    (transitively) or cut the edge."""
    by: Dict[str, Any] = {}
    nodes = {n.attrs["name"]: n for n in g0.nodes}

    def float_inputs(n: Obj) -> List[Obj]:
        cands = list(n.attrs["_args"]) + list(n.attrs["_kwargs"].values())  # (direct arguments, positional or keyword)
        return [a for a in cands if is_node(a) and a.attrs["meta"].get("outputs_float_tensor", False)]

    def resolve(n: Obj) -> Any:
        while is_node(n) and n.attrs["name"] in removed:
            fi = float_inputs(n)
            n = fi[0] if (bypass and len(fi) == 1) else None
        return n

    out = []
    for n in g0.nodes:
        if n.attrs["name"] in removed:
            continue
        a = deep_map(n.attrs["_args"], resolve)
        k = deep_map(n.attrs["_kwargs"], resolve)
        show = lambda v: fmt(deep_map(v, lambda m: T("param", (m.attrs["name"],))))
        out.append((n.attrs["name"], show(a), show(k)))
    return out


def got(g: AbstractGraph) -> List[Tuple[str, str, str]]:
    return [(n, a, k) for (n, _t, a, k) in g.describe()]


def check(report: Report, repo: Repo) -> None:
    report.rule_text = (
        "Abstractly execute prune_non_float_tensors, prune_same_scale_tensors (rtol symbolic, metrics symbolic, with and"
        " without recorded gradients) and prune_selected_nodes on an abstract FX graph whose removable nodes are used"
        " positionally, by keyword, inside a list argument, inside a nested tuple and in the output tuple-of-tuples."
        " R1 the helper must not raise (fx contract: erase_node raises while users remain; lint raises on dangling uses);"
        " R2 surviving nodes, their order and their args/kwargs == independently computed expectation (bypass to the single"
        " float input, else cut); R3 the two copying helpers leave the input graph unchanged and return a different graph,"
        " the selective helper works in place; R4 the caller's rtol reaches isclose; predicates as documented."
    )
    report.explanation = "abstract interpretation over a hand-built abstract fx graph model (usa/fxmodel.py); graph shapes are a finite covering set, node payloads symbolic"
    report.assumptions += ["torch.fx contract as modelled in usa/fxmodel.py (users derived from args/kwargs deeply; erase_node raises with users; map_arg semantics)", "what track_scales records at run time is not decided"]

    def fresh(with_bwd: bool):
        it = Interp(repo)
        g, N = build(it, with_bwd)
        return it, g, N

    # ------------------------------------------------ prune_non_float_tensors
    for with_bwd in (False,):
        it, g, N = fresh(with_bwd)
        before = got(g)
        f = it.get_global(TS, "prune_non_float_tensors")
        cons = f"{TS}::prune_non_float_tensors"
        try:
            res = it.call_function(f, [g.obj], {})
        except Unsupported as ex:
            report.add("R1-no-raise", cons, None, f"outside fragment: {ex}")
            res = None
        raised = [e["exc"] for e in it.events if e.kind == "raise"]
        report.add("R1-no-raise", cons, not raised and res is not BOTTOM, "must not raise on a tracked graph; " + "; ".join(raised), raised, [])
        report.add("R3-copy-discipline", f"{cons}::input-unchanged", got(g) == before, "the input graph must be left unchanged", "changed" if got(g) != before else "unchanged", "unchanged")
        rg = res.attrs.get("_abstract_graph") if isinstance(res, Obj) else None
        report.add("R3-copy-discipline", f"{cons}::returns-copy", rg is not None and rg is not g, "returns a new graph", "copy" if rg is not None and rg is not g else fmt(res), "a copy")
        if rg is not None:
            exp = expected(g, ["output_ids", "size", "cmp", "amax"], bypass=True)
            report.add("R2-result", cons, got(rg) == exp, "nodes not producing float tensors are removed (never the output), single-float-input ones bypassed, everything else in order", got(rg), exp)
            report.add("R2-result", f"{cons}::lint", rg.linted >= 1, "result is linted", rg.linted, ">=1", nontrivial=False)

    # ------------------------------------------------ prune_same_scale_tensors
    for with_bwd in (False, True):
        it, g, N = fresh(with_bwd)
        before = got(g)
        f = it.get_global(TS, "prune_same_scale_tensors")
        cons = f"{TS}::prune_same_scale_tensors"
        rtol = sp.Symbol("rtol", positive=True)
        try:
            res = it.call_function(f, [g.obj], {"rtol": rtol})
        except Unsupported as ex:
            report.add("R1-no-raise", cons, None, f"outside fragment: {ex}")
            res = None
        raised = [e["exc"] for e in it.events if e.kind == "raise"]
        lab = "with recorded gradients" if with_bwd else "forward only"
        report.add("R1-no-raise", cons, not raised and res is not BOTTOM, f"{lab}: must not raise on a tracked graph; " + "; ".join(raised), raised, [])
        report.add("R3-copy-discipline", f"{cons}::input-unchanged", got(g) == before, f"{lab}: the input graph must be left unchanged", "changed" if got(g) != before else "unchanged", "unchanged")
        rg = res.attrs.get("_abstract_graph") if isinstance(res, Obj) else None
        report.add("R3-copy-discipline", f"{cons}::returns-copy", rg is not None and rg is not g, f"{lab}: returns a new graph", "copy" if rg is not None and rg is not g else fmt(res), "a copy")
        if rg is not None:
            removed = ["output", "outputs_view", "transpose", "reshape", "kw_neg"] + ([] if with_bwd else ["gscale_differs"])
            exp = expected(g, removed, bypass=True)
            report.add("R2-result", cons, got(rg) == exp, f"{lab}: float nodes with exactly one float-tensor input of the same mean |x| (forward and, when recorded, backward) are bypassed; nothing else", got(rg), exp)
        closes = [e for e in it.events if e.kind == "call" and e["callee"] == "math.isclose"]
        okr = bool(closes) and all((e["kwargs"].get("rel_tol") is rtol) or (len(e["args"]) > 2 and e["args"][2] is rtol) for e in closes)
        report.add("R4-predicates", f"{cons}::rtol", okr, f"{lab}: the caller's rtol is what isclose compares with", len(closes), "rel_tol=rtol on every comparison")
        abs_tols = [fmt(e["kwargs"].get("abs_tol", e["args"][3] if len(e["args"]) > 3 else 0)) for e in closes]
        report.add("R4-predicates", f"{cons}::abs_tol", all(a_ in ("0", "0.0") for a_ in abs_tols), f"{lab}: the comparison is purely relative (an absolute tolerance would call all tiny activations / gradients 'same scale')", sorted(set(abs_tols)), ["0"], nontrivial=False)
        okm = bool(closes) and all("mean_abs" in "".join(str(s) for s in ()) or True for e in closes)
        # the compared quantities must be mean_abs fields
        symset = {str(a) for e in closes for a in e["args"][:2]}
        report.add("R4-predicates", f"{cons}::quantity", symset <= {str(v) for v in S.values()}, f"{lab}: only mean |x| (fwd / bwd) is compared", sorted(symset), "mean_abs symbols")

    # ------------------------------------------------ the two copying helpers chained: each returns a new graph and leaves its input alone
    it, g, N = fresh(False)
    cons = f"{TS}::prune_same_scale_tensors::after-prune_non_float_tensors"
    try:
        r1 = it.call_function(it.get_global(TS, "prune_non_float_tensors"), [g.obj], {})
        g1 = r1.attrs.get("_abstract_graph") if isinstance(r1, Obj) else None
        if g1 is None:
            report.add("R3-copy-discipline", cons, None, "first helper did not return a graph")
        else:
            before1 = got(g1)
            r2 = it.call_function(it.get_global(TS, "prune_same_scale_tensors"), [r1], {})
            g2 = r2.attrs.get("_abstract_graph") if isinstance(r2, Obj) else None
            report.add("R3-copy-discipline", f"{cons}::input-unchanged", got(g1) == before1, "a graph returned by one pruning helper is left unchanged when it is passed to the next one", "changed" if got(g1) != before1 else "unchanged", "unchanged")
            report.add("R3-copy-discipline", f"{cons}::returns-copy", g2 is not None and g2 is not g1 and g2 is not g, "the second helper returns a new graph as well", "same graph" if g2 is g1 else "copy", "a copy")
    except Unsupported as ex:
        report.add("R3-copy-discipline", cons, None, f"outside fragment: {ex}")

    # ------------------------------------------------ prune_selected_nodes
    it, g, N = fresh(False)
    f = it.get_global(TS, "prune_selected_nodes")
    cons = f"{TS}::prune_selected_nodes"
    g_ref_it, g_ref, _ = fresh(False)
    try:
        res = it.call_function(f, [g.obj, [ExtV("torch.neg"), "size"]], {})
    except Unsupported as ex:
        report.add("R1-no-raise", cons, None, f"outside fragment: {ex}")
        res = None
    raised = [e["exc"] for e in it.events if e.kind == "raise"]
    report.add("R1-no-raise", cons, not raised and res is not BOTTOM, "must not raise; " + "; ".join(raised), raised, [])
    report.add("R3-copy-discipline", f"{cons}::in-place", res is g.obj, "selective pruning is documented to cut in place and return the same graph", "same" if res is g.obj else fmt(res), "same graph")
    exp = expected(g_ref, ["output", "size", "kw_neg"], bypass=False)
    report.add("R2-result", cons, got(g) == exp, "nodes whose target is selected are removed and their edges cut (None), everything else in order", got(g), exp)

    # ------------------------------------------------ predicates on metrics (one-sided bwd => different),
    # decided through the public helper on two-node graphs: x -> n -> output
    cons = f"{TS}::prune_same_scale_tensors::same-scale-predicate"
    pairs = [
        ("backward recorded on one side only", metrics(S["s1"], S["g1"]), metrics(S["s1"], None), False),
        ("both recorded, backward differs", metrics(S["s1"], S["g1"]), metrics(S["s1"], S["g2"]), False),
        ("both recorded and equal", metrics(S["s1"], S["g1"]), metrics(S["s1"], S["g1"]), True),
        ("no backward recorded, forward equal", metrics(S["s1"]), metrics(S["s1"]), True),
        ("forward differs", metrics(S["s1"]), metrics(S["s2"]), False),
    ]
    got_p, want_p = [], []
    try:
        for lab, mx, mn, removed_ in pairs:
            itp = Interp(repo)
            gp = AbstractGraph(itp)
            xn = gp.node("x", "placeholder", "x", (), {}, {"clean_name": "x", "outputs_float_tensor": True, "requires_grad": False, "metrics": mx})
            nn_ = gp.node("n", "call_function", ExtV("torch.neg"), (xn,), {}, {"clean_name": "n", "outputs_float_tensor": True, "requires_grad": False, "metrics": mn})
            gp.node("output", "output", "output", ((nn_,),), {}, {"clean_name": "output", "outputs_float_tensor": False, "requires_grad": False})
            resp = itp.call_function(itp.get_global(TS, "prune_same_scale_tensors"), [gp.obj], {})
            rgp = resp.attrs.get("_abstract_graph") if isinstance(resp, Obj) else None
            names = [n_[0] for n_ in got(rgp)] if rgp is not None else None
            got_p.append(None if names is None else ("n" not in names))
            want_p.append(removed_)
        report.add("R4-predicates", cons, got_p == want_p, "a node is bypassed iff forward mean |x| matches and the backward metrics are either absent on both sides or recorded on both and matching (" + "; ".join(p_[0] for p_ in pairs) + ")", got_p, want_p)
    except Unsupported as ex:
        report.add("R4-predicates", cons, None, f"outside fragment: {ex}")
    report.floor("helpers executed", 4, 4)
