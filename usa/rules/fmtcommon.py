"""Shared extraction for C13/C14: abstract evaluation of FPFormat.quantise."""
from __future__ import annotations

from typing import Any, Dict, List, Optional, Tuple

import sympy as sp

from .. import terms as TM
from ..absint import Event, Interp, Unsupported
from ..core import AnalysisError, Repo
from ..oracle import oracle_function, std_globals
from ..schemas import P
from ..values import BOTTOM, ClassV, ExtV, FuncV, Obj, T, TV, fmt

FM = "unit_scaling/formats.py"
E = sp.Symbol("E", integer=True, positive=True)
M = sp.Symbol("M", integer=True, nonnegative=True)
SR = sp.Symbol("srbits", integer=True, positive=True)

ABSMAX = 2 ** (2 ** (E - 1) - 1) * (2 - 2 ** (-M))
DOWNSCALE = sp.Integer(2) ** (127 - 2 ** (E - 1))
MASK = 2 ** (23 - M) - 1
MIN_NORMAL = sp.Integer(2) ** (1 - 2 ** (E - 1))

REF = '''
def ref_quantise(x, absmax, downscale, mask_value, mode, srbits, srbitsbar, nearest_offset):
    mask = torch.tensor(mask_value)
    if mode == "stochastic":
        offset = torch.randint(0, 2**srbits, x.shape, dtype=torch.int32, device=x.device) << srbitsbar
        if srbitsbar > 0:
            offset = offset + (1 << (srbitsbar - 1))
    else:
        offset = torch.tensor(nearest_offset)
    q = x.to(torch.float32)
    q = torch.clip(q, -absmax, absmax)
    q = q / downscale
    q = ((q.view(torch.int32) + offset) & ~mask).view(torch.float32)
    q = q * downscale
    return q.to(x.dtype)
'''


def mkformat(it: Interp, rounding: Any, srbits: Any, e: Any = E, m: Any = M) -> Obj:
    cls = it.get_global(FM, "FPFormat")
    if not isinstance(cls, ClassV):
        raise AnalysisError("anchor vanished: formats.py::FPFormat")
    return Obj("unit_scaling.formats.FPFormat", attrs=dict(exponent_bits=e, mantissa_bits=m, rounding=rounding, srbits=srbits), cls=cls, open_attrs=False)


def canon(t: Any) -> Any:
    """x.float() == x.to(torch.float32); clamp == clip; randint keyword/positional."""

    def f(x: Any) -> Any:
        if isinstance(x, T) and x.op == "method":
            name, recv, args, kw = x.args
            if name == "float" and not args:
                return T("method", ("to", recv, (T("ext", ("torch.float32",)),), ()))
            if name in ("clip", "clamp"):
                kwd = dict(kw)
                lo = args[0] if len(args) > 0 else kwd.get("min")
                hi = args[1] if len(args) > 1 else kwd.get("max")
                return T("call", ("torch.clip", (("input", recv), ("max", hi), ("min", lo))))
            arith = {"div": "div", "div_": "div", "true_divide": "div", "true_divide_": "div", "mul": "mul", "mul_": "mul", "multiply": "mul", "add": "add", "add_": "add", "sub": "sub", "sub_": "sub", "bitwise_and": "and", "bitwise_and_": "and", "__and__": "and", "__iand__": "and"}
            if name in arith and len(args) == 1 and not kw:
                # method / in-place spellings of the arithmetic operators (same value)
                return T(arith[name], (recv, args[0]))
            if name in ("bitwise_not", "__invert__") and not args:
                return T("invert", (recv,))
            if name == "to":
                # keep only the dtype argument
                keep = tuple(a for a in args if isinstance(a, T) and (a.op == "ext" or (a.op == "attr" and a.args[1] == "dtype")))
                kd = tuple((k, v) for k, v in kw if k == "dtype")
                if kd and not keep:
                    keep = (kd[0][1],)
                return T("method", ("to", recv, keep, ()))
        if isinstance(x, T) and x.op == "add" and len(x.args) == 2:
            # adding the integer 0 changes neither value nor dtype (`offset += bias if unused > 0 else 0`)
            for i_ in (0, 1):
                z = x.args[i_]
                if (isinstance(z, int) and not isinstance(z, bool) and z == 0) or (isinstance(z, sp.Integer) and z == 0):
                    return x.args[1 - i_]
        if isinstance(x, T) and x.op == "call" and x.args[0] == "torch.clamp":
            return T("call", ("torch.clip", x.args[1]))
        if isinstance(x, T) and x.op == "call" and x.args[0] == "torch.randint":
            d = dict(x.args[1])
            d.pop("layout", None)
            return T("call", ("torch.randint", tuple(sorted(d.items(), key=lambda kv: str(kv[0])))))
        return x

    return TM.tmap(f, t)


def run_quantise(repo: Repo, rounding: Any, srbits: Any, e: Any = E, m: Any = M, shape: Any = None) -> Tuple[Any, List[Event], Interp, Optional[str]]:
    it = Interp(repo)
    fobj = mkformat(it, rounding, srbits, e, m)
    q = it.class_attr(fobj.cls, "quantise")
    if not isinstance(q, FuncV):
        raise AnalysisError("anchor vanished: FPFormat.quantise")
    x = P("x", shape)
    try:
        res = it.call_function(q, [fobj, x], {})
    except Unsupported as ex:
        return None, list(it.events), it, str(ex)
    return res, list(it.events), it, None


def ref_term(it: Interp, mode: str, srbits: Any, nearest_offset: Any, e: Any = E, m: Any = M, shape: Any = None) -> Any:
    ref = oracle_function(it, "ref_quantise", REF, std_globals(it))
    sub = {E: e, M: m}
    x = P("x", shape)
    sbar = 23 - m - srbits if mode == "stochastic" else 0
    return it.call_function(
        ref,
        [x],
        dict(absmax=ABSMAX.subs(sub), downscale=DOWNSCALE.subs(sub), mask_value=MASK.subs(sub), mode=mode, srbits=srbits, srbitsbar=sbar, nearest_offset=nearest_offset),
    )
