"""C06 -- residual split/add: backward-only / forward-only complementary weights whose
squares sum to one; residual_apply composes them with the same tau."""
from __future__ import annotations

import sympy as sp

from .. import schemas as SC
from .. import terms as TM
from ..core import Report, Repo
from ..optable import FUNCTIONAL, summarise
from ..values import T, fmt
from .common import need_cases

tau = SC.hyper("tau")
W_R = tau / sp.sqrt(1 + tau**2)
W_S = 1 / sp.sqrt(1 + tau**2)


def P(n):
    return T("param", (n,))


def scale(x, f, b):
    return T("scale", (x, f, b))


def check(report: Report, repo: Repo) -> None:
    check_residual(report, repo)
    # the residual functions are built from the two scale primitives: their contract (C02-R1/R2) is
    # re-checked here because an aliasing / defaulting change in scale.py breaks this property too
    from .c02 import check_primitives

    check_primitives(report, repo)
    report.floor("residual functions analysed", len([o for o in report.obls if o.rule in ("R1-split", "R1-add", "R3-apply")]), 3)
    report.rule_text = (
        "R1: residual_split returns (scale_bwd(input, w_r), scale_bwd(input, w_s)) in that order with forward"
        " factor 1; residual_add returns scale_fwd(residual, w_r) + scale_fwd(skip, w_s) with backward factor 1;"
        " R2: w_r == tau/sqrt(1+tau^2), w_s == 1/sqrt(1+tau^2), w_r^2+w_s^2 == 1 (sympy, symbolic tau>0);"
        " R3: residual_apply's term == add(split[0] -> fn -> scale_fwd w_r, split[1] -> scale_fwd w_s) with one tau."
    )
    report.explanation = "term-level comparison of the three residual functions with the closed form, symbolic tau"
    report.assumptions += ["float multiplication semantics of the scale primitives (C02-R1)", "derivative of (x+tau f(x))/sqrt(1+tau^2) follows from forward/backward weights being equal (paper step)"]


def check_residual(report: Report, repo: Repo) -> None:
    sch = SC.residual_schemas(report.tier)
    ident = sp.simplify(W_R**2 + W_S**2 - 1) == 0
    report.add("R2-weights", "oracle::w_r^2+w_s^2", ident, "oracle weights have squares summing to 1", "w_r^2+w_s^2-1", "0", nontrivial=False)

    # -- split
    summ = summarise(repo, "residual_split", sch["residual_split"][0])
    base = f"{FUNCTIONAL}::residual_split"
    if need_cases(report, "R1-split", summ):
        for case in summ.cases:
            exp = (scale(P("input"), 1, W_R), scale(P("input"), 1, W_S))
            r = TM.term_equal(case.term, exp)
            report.add("R1-split", f"{base}::return", r, "must return (residual, skip) = backward-only weights (tau/d, 1/d) of the same input; " + TM.first_diff(case.term, exp), fmt(case.term), fmt(exp))
    # -- add
    summ = summarise(repo, "residual_add", sch["residual_add"][0])
    base = f"{FUNCTIONAL}::residual_add"
    if need_cases(report, "R1-add", summ):
        for case in summ.cases:
            exp = T("add", (scale(P("residual"), W_R, 1), scale(P("skip"), W_S, 1)))
            r = TM.term_equal(case.term, exp)
            report.add("R1-add", f"{base}::return", r, "must return forward-only tau/d * residual + 1/d * skip; " + TM.first_diff(case.term, exp), fmt(case.term), fmt(exp))
    # -- apply
    summ = summarise(repo, "residual_apply", sch["residual_apply"][0])
    base = f"{FUNCTIONAL}::residual_apply"
    if need_cases(report, "R3-apply", summ):
        for case in summ.cases:
            branch = T("callv", (P("fn"), (scale(P("input"), 1, W_R),), ()))
            exp = T("add", (scale(branch, W_R, 1), scale(scale(P("input"), 1, W_S), W_S, 1)))
            r = TM.term_equal(case.term, exp)
            report.add("R3-apply", f"{base}::return", r, "must equal split -> fn(first) -> add(fn result, second) with one tau; " + TM.first_diff(case.term, exp), fmt(case.term), fmt(exp))
