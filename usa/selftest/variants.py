"""Variant corpus for the checker self-validation (DESIGN.md §6).

kind 'break': a test-passing change that violates the property -> the check must exit 1.
kind 'keep' : a behaviour-preserving rewrite -> the check must stay silent (exit 0)."""

FN = "unit_scaling/functional.py"
CF = "unit_scaling/core/functional.py"
VARIANTS = []


def V(id, kind, props, *edits, expect=None):
    VARIANTS.append(dict(id=id, kind=kind, props=list(props), edits=list(edits), expect=expect))


# ---------------------------------------------------------------- C03
V("c03-linear-batch-shape0", "break", ["C03"], (FN, "batch_size = input.numel() // fan_in", "batch_size = input.shape[0]"), expect="linear::scale_bwd(weight)")
V("c03-linear-fanin-shape0", "break", ["C03"], (FN, "    fan_out, fan_in = weight.shape\n    batch_size", "    fan_in, fan_out = weight.shape\n    batch_size"))
V("c03-matmul-left-inner", "break", ["C03"], (FN, "left_grad_scale = right_size**-0.5", "left_grad_scale = inner_size**-0.5"), expect="matmul::scale_bwd(left)")
V("c03-conv-fanin-nokernel", "break", ["C03"], (FN, "output_scale = 1 / (fan_in * kernel_size) ** scale_power[0]", "output_scale = 1 / fan_in ** scale_power[0]"))
V("c03-keep-conv-batch-shape0", "keep", ["C03", "C01", "C02"], (FN, "batch_size *= input.shape[:-2].numel()", "batch_size *= input.shape[0]"), )
V("c03-add-exponent", "break", ["C03"], (FN, "output_scale = 2**-0.5 if not scalar_input else 1.0", "output_scale = 2**-0.45 if not scalar_input else 1.0"))
V("c03-broadcast-shape0", "break", ["C03"], (FN, "return tuple(output_numel // a.shape.numel() for a in args)", "return tuple(output_numel // (a.shape[0] if len(a.shape) else 1) for a in args)"))
V("c03-embedding-batch", "break", ["C03"], (FN, "batch_size = prod(input.shape)", "batch_size = input.shape[-1] if len(input.shape) else 1"))
V("c03-mse-grad", "break", ["C03"], (FN, "grad_scale = 8**-0.5", "grad_scale = 4**-0.5"))
V("c03-layernorm-swap", "break", ["C03"], (FN, "    grad_weight_scale = grad_bias_scale = (\n        prod(normalized_shape) / input.numel()\n    ) ** 0.5", "    grad_weight_scale = grad_bias_scale = (\n        normalized_shape[-1] / input.numel()\n    ) ** 0.5"))
V("c03-dropout", "break", ["C03"], (FN, "output_scale = grad_input_scale = (1 - p) ** 0.5", "output_scale = grad_input_scale = (1 - p) ** 1.0"))
V("c03-keep-sqrt", "keep", ["C03", "C01", "C02", "C05", "C12"], (FN, "    output_scale = inner_size**-0.5\n", "    output_scale = 1 / inner_size**0.5\n"))
V("c03-keep-unpack", "keep", ["C03", "C01", "C02", "C05", "C12"], (FN, "    fan_out, fan_in = weight.shape\n    batch_size", "    fan_out = weight.shape[0]\n    fan_in = weight.shape[-1]\n    batch_size"))
V("c03-keep-prod", "keep", ["C03", "C01", "C02"], (FN, "batch_size = prod(input.shape)", "batch_size = input.numel()"))
V("c03-keep-rename", "keep", ["C03", "C01", "C02", "C05"], (FN, "    left_size = left.shape[-2]\n    inner_size = left.shape[-1]\n    right_size = right.shape[-1]\n\n    output_scale = inner_size**-0.5\n    left_grad_scale = right_size**-0.5\n    right_grad_scale = left_size**-0.5", "    m = left.shape[-2]\n    kk = left.shape[-1]\n    nn_ = right.shape[-1]\n\n    output_scale = kk**-0.5\n    left_grad_scale = nn_**-0.5\n    right_grad_scale = m**-0.5"))

# ---------------------------------------------------------------- C04
V("c04-ce-sqrtV", "break", ["C04"], (FN, "input = scale_bwd(input, vocab_size / (vocab_size - 1) ** 0.5)", "input = scale_bwd(input, vocab_size**0.5)"), expect="cross_entropy::scale_bwd(input)")
V("c04-keep-form", "keep", ["C04", "C01", "C02"], (FN, "input = scale_bwd(input, vocab_size / (vocab_size - 1) ** 0.5)", "input = scale_bwd(input, vocab_size * (vocab_size - 1) ** -0.5)"))

# ---------------------------------------------------------------- C06
V("c06-add-swap", "break", ["C06"], (FN, "    residual = scale_fwd(residual, tau / denom)\n    skip = scale_fwd(skip, 1 / denom)", "    residual = scale_fwd(residual, 1 / denom)\n    skip = scale_fwd(skip, tau / denom)"), expect="residual_add")
V("c06-split-fwd", "break", ["C06"], (FN, "    residual = scale_bwd(input, tau / denom)", "    residual = scale_fwd(input, tau / denom)"), expect="residual_split")
V("c06-denom", "break", ["C06"], (FN, "    denom = (1 + tau**2) ** 0.5\n    residual = scale_fwd", "    denom = 1 + tau**2\n    residual = scale_fwd"))
V("c06-apply-skip-to-fn", "break", ["C06"], (FN, "    residual = fn(residual)\n", "    residual = fn(skip)\n"), expect="residual_apply")
V("c06-apply-tau", "break", ["C06"], (FN, "    return residual_add(residual, skip, tau=tau)", "    return residual_add(residual, skip)"))
V("c06-split-order", "break", ["C06"], (FN, "    return residual, skip\n", "    return skip, residual\n"))
V("c06-keep-sqrt", "keep", ["C06"], (FN, "    denom = (1 + tau**2) ** 0.5\n    residual = scale_fwd", "    from math import sqrt\n    denom = sqrt(1 + tau * tau)\n    residual = scale_fwd"))

# ---------------------------------------------------------------- C07
MD = "unit_scaling/_modules.py"
V("c07-nattn", "break", ["C07"], (CF, "n_attn = (index + 1) // 2", "n_attn = index // 2"), expect="_tau")
V("c07-layers", "break", ["C07"], (CF, "layers / 2 + n_attn", "layers + n_attn"))
V("c07-parity", "break", ["C07"], (CF, "(alpha_attn if (index % 2) == 0 else alpha_mlp)", "(alpha_attn if (index % 2) == 1 else alpha_mlp)"))
V("c07-alpha", "break", ["C07"], (CF, "alpha_mlp = residual_mult * (2 / (1 + residual_attn_ratio**2)) ** 0.5", "alpha_mlp = residual_mult * (1 / (1 + residual_attn_ratio**2)) ** 0.5"))
V("c07-default", "break", ["C07"], (CF, "residual_mult: float = 1.0, residual_attn_ratio: float = 1.0\n) -> ResidualScalingFn:", "residual_mult: float = 1.0, residual_attn_ratio: float = 2.0\n) -> ResidualScalingFn:"))
V("c07-stack-swap", "break", ["C07"], (MD, "mhsa_tau=residual_scaling(2 * i, 2 * layers),\n                    mlp_tau=residual_scaling(2 * i + 1, 2 * layers),", "mhsa_tau=residual_scaling(2 * i + 1, 2 * layers),\n                    mlp_tau=residual_scaling(2 * i, 2 * layers),"), expect="TransformerStack")
V("c07-stack-total", "break", ["C07"], (MD, "mlp_tau=residual_scaling(2 * i + 1, 2 * layers),", "mlp_tau=residual_scaling(2 * i + 1, layers),"))
V("c07-stack-reversed", "break", ["C07"], (MD, "                for i in range(layers)\n", "                for i in reversed(range(layers))\n"))
V("c07-layer-tau", "break", ["C07"], (MD, "        return U.residual_add(input, skip, tau=self.mlp_tau)", "        return U.residual_add(input, skip, tau=self.mhsa_tau)"), expect="TransformerLayer.forward")
V("c07-layer-split-tau", "break", ["C07"], (MD, "        input, skip = U.residual_split(input, tau=self.mlp_tau)", "        input, skip = U.residual_split(input, tau=self.mhsa_tau)"))
V("c07-decoder-drop", "break", ["C07"], (MD, "            dropout_p=dropout_p,\n            residual_scaling=residual_scaling,\n        )", "            dropout_p=dropout_p,\n        )"))
V("c07-keep-form", "keep", ["C07"], (CF, "        n_attn = (index + 1) // 2\n        n_mlp = index // 2", "        n_mlp = index // 2\n        n_attn = index - n_mlp"))
V("c07-keep-layer-names", "keep", ["C07"], (MD, "        input, skip = U.residual_split(input, tau=self.mlp_tau)\n        input = self.mlp_norm(input)\n        input = self.mlp(input)\n        input = U.dropout(input, self.dropout_p, self.training)\n        return U.residual_add(input, skip, tau=self.mlp_tau)", "        branch, skip2 = U.residual_split(input, self.mlp_tau)\n        branch = self.mlp(self.mlp_norm(branch))\n        branch = U.dropout(branch, p=self.dropout_p, training=self.training)\n        return U.residual_add(branch, skip2, self.mlp_tau)"))

# ---------------------------------------------------------------- C05
CO = "unit_scaling/constraints.py"
V("c05-linear-wrong-pair", "break", ["C05"], (FN, "    output_scale, grad_input_scale = apply_constraint(\n        constraint, output_scale, grad_input_scale\n    )\n\n    input = scale_bwd(input, grad_input_scale)\n    weight = scale_bwd(weight, grad_weight_scale)\n    bias = scale_bwd(bias, grad_bias_scale) if bias is not None else None\n    output = F.linear", "    output_scale, grad_weight_scale = apply_constraint(\n        constraint, output_scale, grad_weight_scale\n    )\n\n    input = scale_bwd(input, grad_input_scale)\n    weight = scale_bwd(weight, grad_weight_scale)\n    bias = scale_bwd(bias, grad_bias_scale) if bias is not None else None\n    output = F.linear"), expect="linear")
V("c05-matmul-fwd-only", "break", ["C05"], (FN, "    output_scale, left_grad_scale, right_grad_scale = apply_constraint(\n        constraint, output_scale, left_grad_scale, right_grad_scale\n    )", "    output_scale, _l, _r = apply_constraint(\n        constraint, output_scale, left_grad_scale, right_grad_scale\n    )"), expect="matmul")
V("c05-matmul-order", "break", ["C05"], (FN, "        constraint, output_scale, left_grad_scale, right_grad_scale\n    )", "        constraint, output_scale, right_grad_scale, left_grad_scale\n    )"))
V("c05-unknown-returns", "break", ["C05"], (CO, "    if constraint is None:\n        raise ValueError(\n            f\"Constraint: {constraint_name} is not a valid constraint (see\"\n            \" unit_scaling.constraints for available options).\"\n        )", "    if constraint is None:\n        return scales"), expect="unknown-name")
V("c05-hmean", "break", ["C05"], (CO, "    return 1 / (sum(1 / s for s in scales) / len(scales))", "    return 1 / (sum(s for s in scales) / len(scales))"), expect="hmean")
V("c05-gmean", "break", ["C05"], (CO, "    return pow(prod(scales), (1 / len(scales)))", "    return pow(prod(scales), 0.5)"))
V("c05-per-scale", "break", ["C05"], (CO, "    scale = constraint(*scales)\n    return tuple(scale for _ in scales)", "    return tuple(constraint(s, s) for s in scales)"))
V("c05-selector", "break", ["C05"], (CO, "    return left_grad_scale\n", "    return right_grad_scale\n"))
V("c05-elementwise", "break", ["C05"], (CF, "    output_scale, grad_input_scale = apply_constraint(\n        constraint, output_scale, grad_input_scale\n    )\n\n    def scaled_f", "    output_scale, _ = apply_constraint(\n        constraint, output_scale, grad_input_scale\n    )\n\n    def scaled_f"))
V("c05-new-leak", "break", ["C05"], (CO, "from math import pow, prod", "from math import pow, prod, log"), expect="lookup-domain[log]")
V("c05-add-ignore", "break", ["C05"], (FN, "    output_scale, input_grad_scale, other_grad_scale = apply_constraint(\n        constraint, output_scale", "    output_scale, input_grad_scale, other_grad_scale = apply_constraint(\n        None, output_scale"))
V("c05-keep-amean", "keep", ["C05"], (CO, "    return sum(scales) / len(scales)", "    n = len(scales)\n    return sum(s / n for s in scales)"))
V("c05-keep-tuple", "keep", ["C05"], (CO, "    return tuple(scale for _ in scales)", "    return (scale,) * len(scales)"))

# ---------------------------------------------------------------- C10
OP = "unit_scaling/optim.py"
V("c10-fanin-2d-shape0", "break", ["C10"], (OP, "    if len(param.shape) == 2:\n        return param.shape[1]", "    if len(param.shape) == 2:\n        return param.shape[0]"), expect="lr_scale_func_adam[weight,ndim=2]")
V("c10-conv-nokernel", "break", ["C10"], (OP, "        return param.shape[1] * param.shape[2]", "        return param.shape[1]"))
V("c10-exponent-sign", "break", ["C10"], (OP, "        return scale * _get_fan_in(param) ** -0.5", "        return scale * _get_fan_in(param) ** 0.5"))
V("c10-depth-exp", "break", ["C10"], (OP, "    return param.mup_scaling_depth**-0.5", "    return param.mup_scaling_depth**-1"))
V("c10-sgd-ignore-rc", "break", ["C10"], (OP, "            lr_scale_func_sgd(readout_constraint),", "            lr_scale_func_sgd(None),"), expect="SGD.__init__::lr_scale_func")
V("c10-adamw-sgd", "break", ["C10"], (OP, "class AdamW(torch.optim.AdamW):\n    def __init__(\n        self,\n        params: ParamsT,\n        lr: Union[float, Tensor] = 1e-3,\n        *args: Any,\n        weight_decay: float = 0,\n        independent_weight_decay: bool = True,\n        allow_non_unit_scaling_params: bool = False,\n        **kwargs: Any,\n    ) -> None:\n        params = scaled_parameters(\n            params,\n            lr_scale_func_adam,", "class AdamW(torch.optim.AdamW):\n    def __init__(\n        self,\n        params: ParamsT,\n        lr: Union[float, Tensor] = 1e-3,\n        *args: Any,\n        weight_decay: float = 0,\n        independent_weight_decay: bool = True,\n        allow_non_unit_scaling_params: bool = False,\n        **kwargs: Any,\n    ) -> None:\n        params = scaled_parameters(\n            params,\n            lr_scale_func_sgd(\"to_output_scale\"),"))
V("c10-sgd-norm", "break", ["C10"], (OP, "            if param.mup_type in (\"bias\", \"norm\"):\n                return scale * param.shape[0]", "            if param.mup_type in (\"bias\",):\n                return scale * param.shape[0]\n            if param.mup_type == \"norm\":\n                return scale"))
V("c10-output-scaled", "break", ["C10"], (OP, "    if param.mup_type == \"output\":\n        return scale\n    assert False, f\"Unexpected mup_type {param.mup_type}\"\n\n\ndef scaled_parameters", "    if param.mup_type == \"output\":\n        return scale * _get_fan_in(param) ** -0.5\n    assert False, f\"Unexpected mup_type {param.mup_type}\"\n\n\ndef scaled_parameters"))
V("c10-4d-silent", "break", ["C10"], (OP, "    raise ValueError(\n        f\"Cannot get fan_in of `ndim >= 4` param, shape={tuple(param.shape)}\"\n    )", "    return param.shape[1] * param.shape[2] * param.shape[3]"))
V("c10-group-lr-ignored", "break", ["C10"], (OP, "            param_lr = group[\"lr\"]\n", "            param_lr = lr if lr is not None else group[\"lr\"]\n"))
V("c10-adam-drops-allow", "break", ["C10"], (OP, "class Adam(torch.optim.Adam):\n    def __init__(\n        self,\n        params: ParamsT,\n        lr: Union[float, Tensor] = 1e-3,\n        *args: Any,\n        weight_decay: float = 0,\n        independent_weight_decay: bool = True,\n        allow_non_unit_scaling_params: bool = False,\n        **kwargs: Any,\n    ) -> None:\n        params = scaled_parameters(\n            params,\n            lr_scale_func_adam,\n            lr=lr,\n            weight_decay=weight_decay,\n            independent_weight_decay=independent_weight_decay,\n            allow_non_unit_scaling_params=allow_non_unit_scaling_params,", "class Adam(torch.optim.Adam):\n    def __init__(\n        self,\n        params: ParamsT,\n        lr: Union[float, Tensor] = 1e-3,\n        *args: Any,\n        weight_decay: float = 0,\n        independent_weight_decay: bool = True,\n        allow_non_unit_scaling_params: bool = False,\n        **kwargs: Any,\n    ) -> None:\n        params = scaled_parameters(\n            params,\n            lr_scale_func_adam,\n            lr=lr,\n            weight_decay=weight_decay,\n            independent_weight_decay=independent_weight_decay,"))
V("c10-keep-sqrt", "keep", ["C10", "C12"], (OP, "        return scale * _get_fan_in(param) ** -0.5", "        return scale / _get_fan_in(param) ** 0.5"))
V("c10-keep-ndim", "keep", ["C10", "C12"], (OP, "    if len(param.shape) == 2:\n        return param.shape[1]", "    if len(param.shape) == 2:\n        return param.shape[-1]"))

# ---------------------------------------------------------------- C12
V("c12-readout-power", "break", ["C12"], (FN, "        input, weight, bias, constraint=constraint, scale_power=(1.0, 0.5, 0.5)", "        input, weight, bias, constraint=constraint, scale_power=(0.5, 0.5, 0.5)"), expect="LinearReadout")
V("c12-weight-lr-exp", "break", ["C12"], (OP, "        return scale * _get_fan_in(param) ** -0.5", "        return scale * _get_fan_in(param) ** -1.0"))
V("c12-readout-tag", "break", ["C12"], (MD, "        weight_mup_type: MupType = \"output\",", "        weight_mup_type: MupType = \"weight\","), expect="LinearReadout")
V("c12-conv-tag", "break", ["C12"], (MD, "        constraint: Optional[str] = \"to_output_scale\",\n        weight_mup_type: MupType = \"weight\",\n    ) -> None:\n        super().__init__(\n            in_channels,", "        constraint: Optional[str] = \"to_output_scale\",\n        weight_mup_type: MupType = \"output\",\n    ) -> None:\n        super().__init__(\n            in_channels,"))
V("c12-depth", "break", ["C12"], (OP, "    return param.mup_scaling_depth**-0.5", "    return param.mup_scaling_depth**-0.25"))
V("c12-readout-default-constraint", "break", ["C12"], (MD, "        constraint: Optional[str] = None,\n        weight_mup_type: MupType = \"output\",", "        constraint: Optional[str] = \"gmean\",\n        weight_mup_type: MupType = \"output\","))

# ---------------------------------------------------------------- C01
DOCS = "unit_scaling/docs.py"
V("c01-data-scale-std", "break", ["C01", "C02"], (FN, "    output_scale = inner_size**-0.5\n", "    output_scale = 1 / float(left.std())\n"), expect="matmul")
V("c01-data-batch", "break", ["C01", "C02"], (FN, "    if len(input.shape) == 2:\n        batch_size, vocab_size = input.shape\n", "    if len(input.shape) == 2:\n        batch_size, vocab_size = input.shape\n        vocab_size = int(target.max()) + 1\n"))
V("c01-keep-inplace-on-fresh", "keep", ["C01", "C02"], (FN, "    return F.gelu(x * mult, approximate=approximate) / mult", "    x *= mult\n    return F.gelu(x, approximate=approximate) / mult"))
V("c01-inplace-input", "break", ["C01"], (FN, "    output = input / rms(input, dims=dims, keepdim=True, eps=eps)", "    input /= rms(input, dims=dims, keepdim=True, eps=eps)\n    output = input"))
V("c01-drop-alpha-unsupported", "break", ["C01"], (FN, "    unsupported_args=[\"alpha\"],", "    unsupported_args=[],"), expect="add")
V("c01-conv-stride-as-padding", "break", ["C01"], (FN, "    output = F.conv1d(input, weight, bias, stride, padding, dilation, groups)", "    output = F.conv1d(input, weight, bias, stride, stride, dilation, groups)"), expect="conv1d::result")
V("c01-cast", "break", ["C01"], (FN, "    output = F.linear(input, weight, bias)\n    return scale_fwd(output, output_scale)", "    output = F.linear(input, weight, bias)\n    return scale_fwd(output, output_scale).float()"), expect="linear::result")
V("c01-layernorm-eps", "break", ["C01"], (FN, "    return F.layer_norm(input, normalized_shape, weight, bias, eps)", "    return F.layer_norm(input, normalized_shape, weight, bias)"), expect="layer_norm::result")
V("c01-layernorm-scaled", "break", ["C01"], (FN, "    return F.layer_norm(input, normalized_shape, weight, bias, eps)", "    return scale_fwd(F.layer_norm(input, normalized_shape, weight, bias, eps), 1.01)"), expect="R3-exact-one")
V("c01-mse-mean", "break", ["C01"], (FN, "        return scale_fwd(loss, 1 / input.nelement())", "        return scale_fwd(loss, 1 / input.shape[0])"), expect="mse_loss")
V("c01-softmax-dtype-dropped", "break", ["C01"], (FN, "    return F.softmax(x * mult, dim=dim, dtype=dtype)", "    return F.softmax(x * mult, dim=dim)"))
V("c01-softmax-dim", "break", ["C01"], (FN, "    return F.softmax(x * mult, dim=dim, dtype=dtype)", "    return F.softmax(x * mult, dim=-1, dtype=dtype)"))
V("c01-sdpa-mask-dropped", "break", ["C01"], (FN, "        attn_mask=attn_mask,\n", ""))
V("c01-sdpa-scale", "break", ["C01"], (FN, "        scale=mult / d_head,", "        scale=mult / d_head**0.5,"))
V("c01-embedding-padding", "break", ["C01"], (FN, "        input, weight, padding_idx, max_norm, norm_type, scale_grad_by_freq, sparse\n    )", "        input, weight, None, max_norm, norm_type, scale_grad_by_freq, sparse\n    )"))
V("c01-ce-clamp", "break", ["C01"], (FN, "    input = scale_fwd(input, mult)\n    loss = F.cross_entropy(", "    input = scale_fwd(input, mult).clamp(-30, 30)\n    loss = F.cross_entropy("))
V("c01-guard-positional", "break", ["C01"], (DOCS, "        arg_values = dict(zip(argspec.args, args))\n", "        arg_values = dict()\n"), expect="_validate")
V("c01-guard-noraise", "break", ["C01"], (DOCS, "                if arg_value != arg_default_value:\n                    raise ValueError(", "                if arg_value != arg_default_value and False:\n                    raise ValueError("))
V("c01-decorator-drops-guard", "break", ["C01"], (DOCS, "        return _validate(source, unsupported_args)\n", "        return source\n"))
V("c01-negative-scale", "break", ["C01"], (FN, "    return scale_fwd(output, output_scale)\n\n\n@docstring_from(\n    F.linear,\n    short_description=\"Applies a **unit-scaled** linear transformation,\"", "    return scale_fwd(output, -output_scale)\n\n\n@docstring_from(\n    F.linear,\n    short_description=\"Applies a **unit-scaled** linear transformation,\""), expect="R7-positive")
V("c01-dropout-training", "break", ["C01"], (FN, "    return scaled_dropout(input, p, training, inplace)", "    return scaled_dropout(input, p, True, inplace)"))
V("c01-add-out", "break", ["C01"], (FN, "    out = torch.add(input, other, out=out)\n", "    out = torch.add(input, other)\n"))
V("c01-keep-kwargs", "keep", ["C01", "C02", "C03"], (FN, "    output = F.conv1d(input, weight, bias, stride, padding, dilation, groups)", "    output = F.conv1d(input, weight, bias=bias, stride=stride, padding=padding, dilation=dilation, groups=groups)"))
V("c01-keep-gelu-nospecial", "keep", ["C01", "C02", "C05"], (FN, "    if mult == 1:\n        return F.gelu(x, approximate=approximate)\n    return F.gelu(x * mult, approximate=approximate) / mult", "    return F.gelu(mult * x, approximate=approximate) / mult"))
V("c01-keep-silu-form", "keep", ["C01", "C02"], (FN, "    return x * F.sigmoid(x * mult)", "    return F.silu(x * mult) / mult"))
V("c01-keep-helper", "keep", ["C01", "C02", "C03", "C05", "C12"], (FN, "    output_scale = 1 / fan_in ** scale_power[0]\n    grad_input_scale = 1 / fan_out ** scale_power[1]", "    def _inv_pow(n, e):\n        return 1 / n**e\n\n    output_scale = _inv_pow(fan_in, scale_power[0])\n    grad_input_scale = _inv_pow(fan_out, scale_power[1])"))
V("c01-keep-mse-numel", "keep", ["C01", "C02", "C03"], (FN, "        return scale_fwd(loss, 1 / input.nelement())", "        return scale_fwd(loss, 1 / input.numel())"))

# ---------------------------------------------------------------- C02
SCALE = "unit_scaling/scale.py"
V("c02-fwd-leaks-bwd", "break", ["C02"], (SCALE, "    return _scale(input, fwd_scale=scale)", "    return _scale(input, fwd_scale=scale, bwd_scale=scale)"), expect="scale_fwd")
V("c02-bwd-abs", "break", ["C02"], (SCALE, "        return bwd_scale * grad_Y, None, None", "        return bwd_scale.abs() * grad_Y, None, None"), expect="backward")
V("c02-proxy-saves-fwd", "break", ["C02"], (SCALE, "            ctx.save_for_backward(bwd_scale)  # type: ignore", "            ctx.save_for_backward(fwd_scale)  # type: ignore"), expect="proxy-scale")
V("c02-proxy-tensor-const", "break", ["C02"], (SCALE, "            ctx.save_for_backward(torch.tensor(bwd_scale))\n", "            ctx.save_for_backward(torch.tensor(1.0))\n"), expect="proxy-tensor")
V("c02-forward-uses-bwd", "break", ["C02"], (SCALE, "        return fwd_scale * X", "        return fwd_scale * bwd_scale * X"))
V("c02-wrong-operand", "break", ["C02"], (FN, "    weight = scale_bwd(weight, grad_weight_scale)\n    bias = scale_bwd(bias, grad_bias_scale) if bias is not None else None\n    output = F.linear", "    weight = scale_bwd(input, grad_weight_scale)\n    bias = scale_bwd(bias, grad_bias_scale) if bias is not None else None\n    output = F.linear"))
V("c02-drop-bias-scale", "break", ["C02"], (FN, "    bias = scale_bwd(bias, grad_bias_scale) if bias is not None else None\n    output = F.linear", "    output = F.linear"), expect="linear::scale_bwd(bias)")
V("c02-double-scale", "break", ["C02"], (FN, "    left = scale_bwd(left, left_grad_scale)\n", "    left = scale_bwd(scale_bwd(left, left_grad_scale), left_grad_scale)\n"), expect="matmul::scale_bwd(left)")
V("c02-bwd-after-op", "break", ["C02"], (FN, "    output = torch.matmul(left, right)\n    return scale_fwd(output, output_scale)", "    output = torch.matmul(left, right)\n    return scale_bwd(scale_fwd(output, output_scale), 0.5)"))
V("c02-mse-target-unscaled", "break", ["C02"], (FN, "    target = scale_bwd(target, grad_scale)\n", ""))
V("c02-sdpa-value-only", "break", ["C02"], (FN, "    query, key, value = (scale_bwd(t, scale) for t in (query, key, value))", "    value = scale_bwd(value, scale)"))
V("c02-embedding-unscaled", "break", ["C02", "C03"], (FN, "    weight = scale_bwd(weight, (weight.shape[0] / batch_size) ** 0.5)\n", ""))
V("c02-elementwise-bwd-fwd", "break", ["C02"], (CF, "        input = scale_bwd(input, grad_input_scale)\n", "        input = scale_fwd(input, grad_input_scale)\n"))
V("c02-keep-genexpr", "keep", ["C02", "C01"], (FN, "    query, key, value = (scale_bwd(t, scale) for t in (query, key, value))", "    query = scale_bwd(query, scale)\n    key = scale_bwd(key, scale)\n    value = scale_bwd(value, scale)"))
V("c02-keep-dtype-cast", "keep", ["C02"], (SCALE, "            ctx.save_for_backward(torch.tensor(bwd_scale, dtype=X.dtype))", "            saved = torch.tensor(bwd_scale, dtype=X.dtype)\n            ctx.save_for_backward(saved)"))

# ---------------------------------------------------------------- C13 / C14
FM = "unit_scaling/formats.py"
V("c13-dead-cast", "break", ["C13", "C14"], (FM, "        q = torch.clip(q, -absmax, absmax)", "        q = torch.clip(x, -absmax, absmax)"), expect="view(int32)")
V("c13-no-clip", "break", ["C13", "C14"], (FM, "        q = torch.clip(q, -absmax, absmax)\n", ""))
V("c13-mask", "break", ["C13", "C14"], (FM, "& ~mask).view(torch.float32)", "& mask).view(torch.float32)"))
V("c13-no-rescale", "break", ["C13", "C14"], (FM, "        q *= downscale\n", ""))
V("c13-downscale-exp", "break", ["C13", "C14"], (FM, "downscale = 2.0 ** (127 - 2 ** (self.exponent_bits - 1))", "downscale = 2.0 ** (126 - 2 ** (self.exponent_bits - 1))"))
V("c13-offset-mask", "break", ["C13"], (FM, "            offset = mask // 2\n", "            offset = mask\n"))
V("c13-no-castback", "break", ["C13", "C14"], (FM, "        return q.to(x.dtype)", "        return q"))
V("c13-inplace-arg", "break", ["C13", "C14"], (FM, "        q = torch.clip(q, -absmax, absmax)\n        q /= downscale", "        q.clip_(-absmax, absmax)\n        q /= downscale"), expect="R2-no-mutation")
V("c13-maskbits", "break", ["C13", "C14"], (FM, "mask = torch.tensor(2 ** (23 - self.mantissa_bits) - 1, device=x.device)", "mask = torch.tensor(2 ** (22 - self.mantissa_bits) - 1, device=x.device)"))
V("c13-max", "break", ["C13"], (FM, "        return cast(float, 2**max_exponent * (2 - 2**-self.mantissa_bits))", "        return cast(float, 2**max_exponent * (2 - 2**-(self.mantissa_bits + 1)))"))
V("c13-minsub", "break", ["C13"], (FM, "        return self.min_absolute_normal * 2.0**-self.mantissa_bits", "        return self.min_absolute_normal * 2.0**-(self.mantissa_bits + 1)"))
V("c13-mode-fallthrough", "break", ["C13"], (FM, "        else:  # pragma: no cover\n            raise ValueError(\n                f'Unexpected FPFormat(rounding=\"{self.rounding}\"),'\n                ' expected \"stochastic\" or \"nearest\"'\n            )", "        else:  # pragma: no cover\n            offset = mask // 2"))
V("c13-keep-tie-up", "keep", ["C13"], (FM, "            offset = mask // 2\n", "            offset = (mask + 1) // 2\n"))
V("c13-keep-outofplace", "keep", ["C13", "C14"], (FM, "        q /= downscale\n", "        q = q / downscale\n"))
V("c13-keep-float", "keep", ["C13", "C14"], (FM, "        q = x.to(torch.float32)\n        q = torch.clip(q, -absmax, absmax)", "        q = torch.clamp(x.float(), min=-absmax, max=absmax)"))
V("c14-one-draw", "break", ["C14"], (FM, "                    0, 2**self.srbits, x.shape, dtype=torch.int32, device=x.device", "                    0, 2**self.srbits, (1,), dtype=torch.int32, device=x.device"), expect="randint.size")
V("c14-high", "break", ["C14"], (FM, "                    0, 2**self.srbits, x.shape", "                    0, 2**self.srbits - 1, x.shape"), expect="randint.high")
V("c14-no-shift", "break", ["C14"], (FM, "                )\n                << srbitsbar\n            )", "                )\n            )"))
V("c14-bias-always", "break", ["C14"], (FM, "            if srbitsbar > 0:\n                offset += 1 << (srbitsbar - 1)", "            if True:\n                offset += 1 << max(srbitsbar - 1, 0)"))
V("c14-bias-missing", "break", ["C14"], (FM, "            if srbitsbar > 0:\n                offset += 1 << (srbitsbar - 1)\n", ""))
V("c14-default-srbits", "break", ["C14"], (FM, "            self.srbits = 23 - self.mantissa_bits", "            self.srbits = 22 - self.mantissa_bits"))
V("c14-srbitsbar", "break", ["C14"], (FM, "            srbitsbar = 23 - self.mantissa_bits - self.srbits", "            srbitsbar = 24 - self.mantissa_bits - self.srbits"))
V("c14-keep-ge1", "keep", ["C14"], (FM, "            if srbitsbar > 0:", "            if srbitsbar >= 1:"))

# ---------------------------------------------------------------- C15
SF = "unit_scaling/transforms/_simulate_format.py"
V("c15-quantise-bias", "break", ["C15"], (SF, "    input = fwd_format.quantise_fwd(input)\n    weight = fwd_format.quantise_fwd(weight)\n    output = F.linear(input, weight, bias)", "    input = fwd_format.quantise_fwd(input)\n    weight = fwd_format.quantise_fwd(weight)\n    bias = fwd_format.quantise_fwd(bias) if bias is not None else None\n    output = F.linear(input, weight, bias)"), expect="_quantised_linear")
V("c15-bwd-uses-fwd-format", "break", ["C15"], (SF, "    output = F.linear(input, weight, bias)\n    return bwd_format.quantise_bwd(output)", "    output = F.linear(input, weight, bias)\n    return fwd_format.quantise_bwd(output)"))
V("c15-bwd-quantise-fwd", "break", ["C15"], (SF, "    output = U.linear(input, weight, bias, constraint)\n    return bwd_format.quantise_bwd(output)", "    output = U.linear(input, weight, bias, constraint)\n    return bwd_format.quantise_fwd(output)"))
V("c15-drop-constraint", "break", ["C15"], (SF, "    output = U.linear(input, weight, bias, constraint)", "    output = U.linear(input, weight, bias)"))
V("c15-weight-unquantised", "break", ["C15"], (SF, "    input, weight = (fwd_format.quantise_fwd(t) for t in (input, weight))", "    input, weight = fwd_format.quantise_fwd(input), weight"))
V("c15-wrong-op", "break", ["C15"], (SF, "    output = U.scaled_dot_product_attention(query, key, value, *args, **kwargs)", "    output = F.scaled_dot_product_attention(query, key, value, *args, **kwargs)"))
V("c15-formats-swapped-in-wrapper", "break", ["C15"], (SF, "    fwd_format = tuple_to_format(fwd_format_tuple)\n    bwd_format = tuple_to_format(bwd_format_tuple)\n    input = fwd_format.quantise_fwd(input)", "    fwd_format = tuple_to_format(bwd_format_tuple)\n    bwd_format = tuple_to_format(fwd_format_tuple)\n    input = fwd_format.quantise_fwd(input)"))
V("c15-ste-bwd-quantises", "break", ["C15"], (FM, "            ) -> Tensor:\n                return grad_y\n", "            ) -> Tensor:\n                return self.quantise(grad_y)\n"), expect="quantise_fwd::backward")
V("c15-ste-fwd-identity", "break", ["C15"], (FM, "            def forward(ctx: torch.autograd.function.FunctionCtx, x: Tensor) -> Tensor:\n                return self.quantise(x)", "            def forward(ctx: torch.autograd.function.FunctionCtx, x: Tensor) -> Tensor:\n                return x"))
V("c15-qbwd-fwd-quantises", "break", ["C15"], (FM, "            def forward(ctx: torch.autograd.function.FunctionCtx, x: Tensor) -> Tensor:\n                return x\n", "            def forward(ctx: torch.autograd.function.FunctionCtx, x: Tensor) -> Tensor:\n                return self.quantise(x)\n"))
V("c15-fp8-swapped", "break", ["C15"], (SF, "fwd_format=FPFormat(4, 3), bwd_format=FPFormat(5, 2)", "fwd_format=FPFormat(5, 2), bwd_format=FPFormat(4, 3)"), expect="simulate_fp8")
V("c15-simulate-swapped", "break", ["C15"], (SF, "        module, _quantisation_backend(fwd_format, bwd_format)\n", "        module, _quantisation_backend(bwd_format, fwd_format)\n"))
V("c15-backend-callmethod", "break", ["C15"], (SF, "            if node.op == \"call_function\" and node.target in _replacement_map:", "            if node.target in _replacement_map:"))
V("c15-backend-skips-u", "break", ["C15"], (SF, "            if node.op == \"call_function\" and node.target in _replacement_map:", "            if node.op == \"call_function\" and node.target in (F.linear, F.scaled_dot_product_attention):"))
V("c15-tuple-drops-rounding", "break", ["C15"], (FM, "        format.rounding,\n        format.srbits,\n    )", "    )"), expect="format_to_tuple")
V("c15-splice-kwargs-blind", "break", ["C15"], (SF, "    for name in list(signature(quantised_fn).parameters)[len(args) : 3]:\n        args.append(kwargs.pop(name, None))", "    if len(args) == 2:\n        args.append(None)"), expect="_replace_with_quantised[F.linear]")
V("c15-attn-no-varargs", "break", ["C15"], (SF, "    bwd_format_tuple: Tuple[int, int],\n    *args: Any,\n    **kwargs: Any,\n) -> Tensor:\n    fwd_format = tuple_to_format(fwd_format_tuple)\n    bwd_format = tuple_to_format(bwd_format_tuple)\n    query, key, value = (fwd_format.quantise_fwd(t) for t in (query, key, value))\n    output = F.scaled_dot_product_attention(query, key, value, *args, **kwargs)", "    bwd_format_tuple: Tuple[int, int],\n    **kwargs: Any,\n) -> Tensor:\n    fwd_format = tuple_to_format(fwd_format_tuple)\n    bwd_format = tuple_to_format(bwd_format_tuple)\n    query, key, value = (fwd_format.quantise_fwd(t) for t in (query, key, value))\n    output = F.scaled_dot_product_attention(query, key, value, **kwargs)"), expect="F.scaled_dot_product_attention")
V("c15-splice-position", "break", ["C15"], (SF, "        args[:3] + [format_to_tuple(fwd_format), format_to_tuple(bwd_format)] + args[3:]", "        args[:3] + [format_to_tuple(bwd_format), format_to_tuple(fwd_format)] + args[3:]"))
V("c15-keep-genexpr", "keep", ["C15"], (SF, "    input = fwd_format.quantise_fwd(input)\n    weight = fwd_format.quantise_fwd(weight)\n    output = F.linear(input, weight, bias)", "    input, weight = (fwd_format.quantise_fwd(t) for t in (input, weight))\n    output = F.linear(input, weight, bias=bias)"))

# ---------------------------------------------------------------- C18
TS = "unit_scaling/transforms/_track_scales.py"
UT = "unit_scaling/utils.py"
V("c18-fwd-mul", "break", ["C18"], (TS, "        ctx.node_meta = node_meta  # type: ignore\n        return t.clone()", "        ctx.node_meta = node_meta  # type: ignore\n        return t * 1.0"), expect="ScaleTrackingAutogradFunction.forward")
V("c18-fwd-detach", "break", ["C18"], (TS, "        ctx.node_meta = node_meta  # type: ignore\n        return t.clone()", "        ctx.node_meta = node_meta  # type: ignore\n        return t.detach().clone()"))
V("c18-bwd-scaled", "break", ["C18"], (TS, "        return t.clone(), None, None", "        return t.clone() * 2, None, None"))
V("c18-utils-fwd", "break", ["C18"], (UT, "        ctx.scale_tracker = scale_tracker  # type: ignore\n        return t\n", "        ctx.scale_tracker = scale_tracker  # type: ignore\n        return t.float()\n"))
V("c18-var", "break", ["C18"], (TS, "            std=t.std().item(),", "            std=t.var().item(),"), expect="from_tensor::std")
V("c18-swap", "break", ["C18"], (TS, "            mean_abs=abs_t.mean().item(),\n            abs_mean=t.mean().abs().item(),", "            mean_abs=t.mean().abs().item(),\n            abs_mean=abs_t.mean().item(),"))
V("c18-absmin", "break", ["C18"], (TS, "            abs_min=abs_t.min().item(),", "            abs_min=t.min().abs().item(),"))
V("c18-int-instrumented", "break", ["C18"], (TS, "        if n.meta[\"outputs_float_tensor\"]:\n            logger.info(\"adding tracking to node: %s\", n)", "        if isinstance(out, Tensor):\n            logger.info(\"adding tracking to node: %s\", n)"), expect="predicate")
V("c18-bwd-metrics-from-fwd", "break", ["C18"], (TS, "        ctx.node_meta[\"metrics\"].set_bwd(bwd_tensor=t)  # type: ignore", "        ctx.node_meta[\"metrics\"].set_bwd(bwd_tensor=t.abs())  # type: ignore"))
V("c18-bwd-init", "break", ["C18"], (TS, "        self.bwd: Optional[Metrics.Data] = None", "        self.bwd: Optional[Metrics.Data] = self.fwd"))
V("c18-shim-detach", "break", ["C18"], (TS, "        return old_forward(*args, **kwargs)", "        return old_forward(*[a.detach() if _is_float_tensor(a) else a for a in args], **kwargs)"))
V("c18-utils-wrap-wrong", "break", ["C18"], (UT, "            out = ScaleTracker.track(out, scale_pair)\n", "            ScaleTracker.track(out, scale_pair)\n"))
V("c18-keep-noclone", "keep", ["C18"], (TS, "        ctx.node_meta = node_meta  # type: ignore\n        return t.clone()", "        ctx.node_meta = node_meta  # type: ignore\n        return t"))
V("c18-keep-abs-inline", "keep", ["C18"], (TS, "            abs_max=abs_t.max().item(),", "            abs_max=t.abs().max().item(),"))

# ---------------------------------------------------------------- C09
PA = "unit_scaling/parameter.py"
V("c09-deepcopy-no-hooks", "break", ["C09"], (PA, "    result.__deepcopy__ = _parameter_deepcopy.__get__(result)\n    result.__reduce_ex__ = _parameter_reduce_ex.__get__(result)\n", ""), expect="_parameter_deepcopy::hooks")
V("c09-deepcopy-hook-bound-to-self", "break", ["C09"], (PA, "    result.__deepcopy__ = _parameter_deepcopy.__get__(result)", "    result.__deepcopy__ = _parameter_deepcopy.__get__(self)"))
V("c09-rebuild-no-reduce", "break", ["C09"], (PA, "    p.__deepcopy__ = _parameter_deepcopy.__get__(p)\n    p.__reduce_ex__ = _parameter_reduce_ex.__get__(p)\n    return p\n\n\ndef _parameter_reduce_ex", "    p.__deepcopy__ = _parameter_deepcopy.__get__(p)\n    return p\n\n\ndef _parameter_reduce_ex"), expect="_rebuild_parameter_with_state")
V("c09-filter-type", "break", ["C09"], (PA, "        if k not in [\"__deepcopy__\", \"__reduce_ex__\"]", "        if k not in [\"__deepcopy__\", \"__reduce_ex__\", \"mup_type\"]"), expect="_parameter_reduce_ex")
V("c09-filter-missing", "break", ["C09"], (PA, "        if k not in [\"__deepcopy__\", \"__reduce_ex__\"]", "        if k not in [\"__deepcopy__\"]"))
V("c09-deepcopy-direct", "break", ["C09"], (PA, "    result: nn.Parameter = nn.Parameter.__deepcopy__(self, memo)\n    result.mup_type = self.mup_type\n    result.mup_scaling_depth = self.mup_scaling_depth\n", "    result: nn.Parameter = nn.Parameter.__deepcopy__(self, memo)\n    result.mup_type = self.mup_type\n"))
V("c09-depth-reset", "break", ["C09"], (PA, "    result.mup_scaling_depth = self.mup_scaling_depth\n", "    result.mup_scaling_depth = None\n"))
V("c09-param-no-reduce", "break", ["C09"], (PA, "    p.__reduce_ex__ = _parameter_reduce_ex.__get__(p)\n    # Note", "    # Note"))
V("c09-reduce-default-rebuild", "break", ["C09"], (PA, "        _rebuild_parameter_with_state,\n        (self.data", "        torch._utils._rebuild_parameter_with_state,\n        (self.data"))
V("c09-transform-no-deepcopy", "break", ["C09", "C17"], ("unit_scaling/transforms/utils.py", "    module = copy.deepcopy(module)\n", "    module = copy.copy(module)\n"))
V("c09-keep-setattr", "keep", ["C09"], (PA, "    result.mup_type = self.mup_type\n    result.mup_scaling_depth = self.mup_scaling_depth\n", "    for _k in (\"mup_type\", \"mup_scaling_depth\"):\n        setattr(result, _k, getattr(self, _k))\n"))

# ---------------------------------------------------------------- C11
V("c11-unscaled-lr-decay", "break", ["C11"], (OP, "                param_weight_decay /= float(param_lr)  # type: ignore", "                param_weight_decay /= float(group[\"lr\"])  # type: ignore"), expect="independent-decay")
V("c11-no-clone", "break", ["C11"], (OP, "                if isinstance(param_lr, Tensor):\n                    param_lr = param_lr.clone()\n", ""), expect="tensor-lr")
V("c11-no-copy", "break", ["C11"], (OP, "        group = dict(params=[entry]) if isinstance(entry, Tensor) else entry.copy()", "        group = dict(params=[entry]) if isinstance(entry, Tensor) else entry"), expect="caller-groups")
V("c11-append-tagged-only", "break", ["C11"], (OP, "            param_weight_decay = group[\"weight_decay\"]\n            if independent_weight_decay:\n                # Note: only independent of peak LR, not of schedule\n                param_weight_decay /= float(param_lr)  # type: ignore\n\n            result.append(", "            else:\n                continue\n            param_weight_decay = group[\"weight_decay\"]\n            if independent_weight_decay:\n                # Note: only independent of peak LR, not of schedule\n                param_weight_decay /= float(param_lr)  # type: ignore\n\n            result.append("))
V("c11-extra-key-dropped", "break", ["C11"], (OP, "                        if k not in (\"params\", \"lr\", \"weight_decay\")", "                        if k not in (\"params\", \"lr\", \"weight_decay\", \"eps\")"), expect="extra-keys")
V("c11-decay-always", "break", ["C11"], (OP, "            if independent_weight_decay:\n", "            if True:\n"))
V("c11-group-decay-ignored", "break", ["C11"], (OP, "            param_weight_decay = group[\"weight_decay\"]\n", "            param_weight_decay = weight_decay\n"))
V("c11-reversed", "break", ["C11"], (OP, "        for param in group[\"params\"]:\n", "        for param in reversed(group[\"params\"]):\n"))
V("c11-insert-front", "break", ["C11"], (OP, "            result.append(\n                dict(", "            result.insert(\n                0, dict("))
V("c11-decay-mult", "break", ["C11"], (OP, "                param_weight_decay /= float(param_lr)  # type: ignore", "                param_weight_decay *= float(param_lr)  # type: ignore"))
V("c11-keep-comprehension", "keep", ["C11", "C10"], (OP, "                    **{\n                        k: v\n                        for k, v in group.items()\n                        if k not in (\"params\", \"lr\", \"weight_decay\")\n                    },", "                    **{k: group[k] for k in group if k not in {\"params\", \"lr\", \"weight_decay\"}},"))
V("c11-keep-outofplace", "keep", ["C11", "C10"], (OP, "                param_weight_decay /= float(param_lr)  # type: ignore", "                param_weight_decay = param_weight_decay / float(param_lr)"))

# ---------------------------------------------------------------- C19
V("c19-flat-rewrite", "break", ["C19"], (TS, "        user.args = map_arg(user.args, replace)\n", "        user.args = tuple(replace(a) if isinstance(a, Node) else a for a in user.args)\n"), expect="Tried to erase")
V("c19-kwargs-missed", "break", ["C19"], (TS, "        user.kwargs = map_arg(user.kwargs, replace)\n", ""))
V("c19-no-deepcopy-nonfloat", "break", ["C19"], (TS, "    graph = deepcopy(graph)\n    for n in graph.nodes:\n        if n.name == \"output\":\n            continue\n", "    for n in graph.nodes:\n        if n.name == \"output\":\n            continue\n"), expect="input-unchanged")
V("c19-no-deepcopy-samescale", "break", ["C19"], (TS, "    graph = deepcopy(graph)\n    for n in graph.nodes:\n        if n.name == \"output\" or not", "    for n in graph.nodes:\n        if n.name == \"output\" or not"))
V("c19-abs-mean", "break", ["C19"], (TS, "    return isclose(a.mean_abs, b.mean_abs, rel_tol=rtol)", "    return isclose(a.abs_mean, b.abs_mean, rel_tol=rtol)"), expect="quantity")
V("c19-ignore-bwd", "break", ["C19"], (TS, "    return _directions_same_scale(a.fwd, b.fwd, rtol) and _directions_same_scale(\n        a.bwd, b.bwd, rtol\n    )", "    return _directions_same_scale(a.fwd, b.fwd, rtol)"))
V("c19-rtol-dropped", "break", ["C19"], (TS, "            if _metrics_same_scale(n_metrics, a_metrics, rtol):", "            if _metrics_same_scale(n_metrics, a_metrics):"), expect="rtol")
V("c19-bypass-two-inputs", "break", ["C19"], (TS, "            a = float_tensor_args[0] if len(float_tensor_args) == 1 else None", "            a = float_tensor_args[0] if len(float_tensor_args) >= 1 else None"))
V("c19-samescale-multi", "break", ["C19"], (TS, "        if len(float_tensor_args) == 1:\n            a = float_tensor_args[0]\n            a_metrics", "        if len(float_tensor_args) >= 1:\n            a = float_tensor_args[0]\n            a_metrics"))
V("c19-erase-first", "break", ["C19"], (TS, "        user.kwargs = map_arg(user.kwargs, replace)\n    graph.erase_node(node)", "        user.kwargs = map_arg(user.kwargs, replace)\n        graph.erase_node(node)"))
V("c19-output-pruned", "break", ["C19"], (TS, "        if n.name == \"output\":\n            continue\n\n        if not n.meta.get", "        if not n.meta.get"))
V("c19-selected-copy", "break", ["C19"], (TS, "    for n in graph.nodes:\n        if n.target in targets:", "    graph = deepcopy(graph)\n    for n in graph.nodes:\n        if n.target in targets:"))
V("c19-selected-bypass", "break", ["C19"], (TS, "            logger.info(\"pruning node: %s\", n)\n            _prune(graph, n)", "            logger.info(\"pruning node: %s\", n)\n            _prune(graph, n, n.args[0] if n.args else None)"))
V("c19-one-sided-bwd-same", "break", ["C19"], (TS, "    if a.bwd is None or b.bwd is None:  # pragma: no cover\n        return False", "    if a.bwd is None or b.bwd is None:  # pragma: no cover\n        return _directions_same_scale(a.fwd, b.fwd, rtol)"))
V("c19-keep-helper-style", "keep", ["C19"], (TS, "    def replace(n: Node) -> Optional[Node]:\n        return replacement_arg if n == node else n\n", "    def replace(n: Node) -> Optional[Node]:\n        if n is node:\n            return replacement_arg\n        return n\n"))
