#!/venv/bin/python
"""Self-validation of the checkers on scratch copies of the *current* tree.

Each variant = one textual edit (old -> new, must match exactly once) applied to a
copy of /repo/unit_scaling under a temp dir; the named checks are run with
USA_REPO_ROOT pointing at the copy.  kind='break' must give exit 1 naming the rule,
kind='keep' (behaviour-preserving rewrite) must give exit 0.

usage: run.py [--only C03,C06] [--jobs 16] [--ids id1,id2] [--list]
"""
from __future__ import annotations

import argparse
import os
import shutil
import subprocess
import sys
import tempfile
from concurrent.futures import ThreadPoolExecutor
from pathlib import Path

HERE = Path(__file__).resolve().parent
VERIF = HERE.parent.parent
sys.path.insert(0, str(VERIF))
from usa.selftest.variants import VARIANTS  # noqa: E402

REPO = Path(os.environ.get("USA_REPO_ROOT", "/repo"))


def run_variant(v, only):
    props = [p for p in v["props"] if not only or p in only]
    if not props:
        return None
    tmp = Path(tempfile.mkdtemp(prefix="usa-selftest-"))
    try:
        shutil.copytree(REPO / "unit_scaling", tmp / "unit_scaling", ignore=shutil.ignore_patterns("__pycache__", "tests"))
        for rel, old, new in v["edits"]:
            if rel == "*" and old == "ast-roundtrip":
                import ast as _ast

                for f in (tmp / "unit_scaling").rglob("*.py"):
                    f.write_text(_ast.unparse(_ast.parse(f.read_text())) + "\n")
                continue
            p = tmp / rel
            s = p.read_text()
            if s.count(old) != 1:
                return (v["id"], "STALE", f"edit anchor matches {s.count(old)} times in {rel}", props)
            p.write_text(s.replace(old, new))
            try:
                compile(p.read_text(), str(p), "exec")
            except SyntaxError as e:
                return (v["id"], "STALE", f"variant does not compile: {e}", props)
        results = {}
        for prop in props:
            env = dict(os.environ, USA_REPO_ROOT=str(tmp), USA_EVIDENCE_DIR=str(tmp / "evidence"))
            r = subprocess.run(["/venv/bin/python", str(VERIF / "usa" / "check.py"), prop, "--tier", "quick"], capture_output=True, text=True, env=env, cwd=str(VERIF))
            results[prop] = (r.returncode, r.stdout + r.stderr)
        want = 1 if v["kind"] == "break" else 0
        bad = {p: rc for p, (rc, _) in results.items() if rc != want}
        status = "ok" if not bad else "FAIL"
        detail = ""
        if bad:
            p0 = next(iter(bad))
            detail = f"{p0} exit {bad[p0]} (want {want}): " + " | ".join(l for l in results[p0][1].splitlines() if l.startswith(("  violated", "ANALYSIS", "OK", "VIOLATION")))[:400]
        elif v["kind"] == "break" and v.get("expect"):
            for p, (rc, out) in results.items():
                if v["expect"] not in out:
                    status, detail = "FAIL", f"{p}: report does not name '{v['expect']}'"
        return (v["id"], status, detail, props)
    finally:
        shutil.rmtree(tmp, ignore_errors=True)


def run_all(only=None, ids=None, jobs: int = 16):
    vs = [v for v in VARIANTS if not ids or v["id"] in ids]
    with ThreadPoolExecutor(jobs) as ex:
        return [r for r in ex.map(lambda v: run_variant(v, only or set()), vs) if r]


def main() -> int:
    ap = argparse.ArgumentParser()
    ap.add_argument("--only", default="")
    ap.add_argument("--ids", default="")
    ap.add_argument("--jobs", type=int, default=16)
    ap.add_argument("--list", action="store_true")
    ns = ap.parse_args()
    only = set(filter(None, ns.only.split(",")))
    ids = set(filter(None, ns.ids.split(",")))
    vs = [v for v in VARIANTS if not ids or v["id"] in ids]
    if ns.list:
        for v in vs:
            print(v["id"], v["kind"], v["props"])
        return 0
    with ThreadPoolExecutor(ns.jobs) as ex:
        res = [r for r in ex.map(lambda v: run_variant(v, only), vs) if r]
    fails = [r for r in res if r[1] != "ok"]
    for r in res:
        if r[1] != "ok":
            print(f"{r[1]:5} {r[0]} {r[3]} {r[2]}")
    print(f"selftest: {len(res)} variants, {len(res) - len(fails)} ok, {len(fails)} not ok")
    return 0 if not fails else 2


if __name__ == "__main__":
    sys.exit(main())
