"""Names bound in the torch and torch.nn.functional namespaces, read from the installed
sources with ast (never imported): the static counterpart of dir(torch) / dir(F) that
functional._gen_torch_function_map sweeps."""
from __future__ import annotations

import ast
import sys
from functools import lru_cache
from pathlib import Path
from typing import Optional, Set

FALLBACK_F = {
    "gelu", "silu", "sigmoid", "softmax", "dropout", "linear", "conv1d", "layer_norm", "rms_norm", "embedding",
    "scaled_dot_product_attention", "cross_entropy", "mse_loss", "pad", "relu", "tanh",
}
FALLBACK_TORCH = {"add", "matmul", "softmax", "dropout", "conv1d", "layer_norm", "embedding", "sigmoid", "tanh", "relu", "rms_norm", "cat", "neg", "mul"}


def _site() -> Optional[Path]:
    for p in sys.path:
        if (Path(p) / "torch" / "__init__.py").exists():
            return Path(p) / "torch"
    return None


def _literal_all(path: Path) -> Optional[Set[str]]:
    """The module's __all__ when it is a literal list of strings (what `import *` exports)."""
    try:
        tree = ast.parse(path.read_text())
    except Exception:
        return None
    for st in tree.body:
        if isinstance(st, ast.Assign) and any(isinstance(t, ast.Name) and t.id == "__all__" for t in st.targets):
            try:
                v = ast.literal_eval(st.value)
            except Exception:
                return None
            return {x for x in v if isinstance(x, str)}
    return None


def _toplevel_names(path: Path, imports: bool = True) -> Set[str]:
    out: Set[str] = set()
    try:
        tree = ast.parse(path.read_text())
    except Exception:
        return out

    def scan(body):
        for st in body:
            if isinstance(st, (ast.FunctionDef, ast.AsyncFunctionDef, ast.ClassDef)):
                out.add(st.name)
            elif isinstance(st, (ast.Import, ast.ImportFrom)) and not imports:
                continue
            elif isinstance(st, ast.Import):
                for a in st.names:
                    out.add((a.asname or a.name).split(".")[0])
            elif isinstance(st, ast.ImportFrom):
                for a in st.names:
                    if a.name != "*":
                        out.add(a.asname or a.name)
            elif isinstance(st, ast.Assign):
                for t in st.targets:
                    for n in ast.walk(t):
                        if isinstance(n, ast.Name):
                            out.add(n.id)
            elif isinstance(st, ast.AnnAssign) and isinstance(st.target, ast.Name):
                out.add(st.target.id)
            elif isinstance(st, (ast.If, ast.Try)):
                scan(st.body)
                scan(getattr(st, "orelse", []) or [])
                for h in getattr(st, "handlers", []) or []:
                    scan(h.body)

    scan(tree.body)
    return out


@lru_cache(None)
def f_names() -> frozenset:
    s = _site()
    names = set(FALLBACK_F)
    if s is not None:
        names |= _toplevel_names(s / "nn" / "functional.py")
    return frozenset(names)


@lru_cache(None)
def torch_names() -> frozenset:
    s = _site()
    names = set(FALLBACK_TORCH)
    if s is not None:
        names |= _toplevel_names(s / "__init__.py")
        for stub in (s / "_C" / "_VariableFunctions.pyi",):
            if stub.exists():
                names |= _toplevel_names(stub, imports=False)  # the C functions copied into torch's namespace
        # `from .functional import *` style re-exports: torch/functional.py __all__
        fp = s / "functional.py"
        if fp.exists():
            exported = _literal_all(fp)
            names |= exported if exported is not None else {n for n in _toplevel_names(fp, imports=False) if not n.startswith("_")}
    return frozenset(names)
