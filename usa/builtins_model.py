"""Abstract semantics of the Python builtins the repository uses."""
from __future__ import annotations

from typing import Any, Dict, List

import sympy as sp

from .values import BOTTOM, Bound, ClassV, ExtV, FuncV, Gamma, ModV, Obj, Shape, T, TV, Unknown, num


def _mk():
    from . import absint as A

    B = A._Builtin
    Unsupported = A.Unsupported

    def seq_of(it, v):
        s = it.concrete_iter(v)
        if s is None:
            raise Unsupported("builtin over non-concrete iterable")
        return s

    def b_len(it, a, k, n):
        v = a[0]
        if isinstance(v, (tuple, list, dict, str, Shape, range, set, frozenset)):
            return len(v)
        if isinstance(v, A._DictItems):
            return len(v.items)
        if isinstance(v, TV):
            if v.shape is not None and len(v.shape) > 0 and v.kind == "tensor":
                return v.shape[0]
            return TV(T("len", (v.term,)), kind="opaque")
        if isinstance(v, Obj) and isinstance(v.attrs.get("_modules"), dict):
            return len(v.attrs["_modules"])  # nn container: number of entries
        m_len = it.dunder(v, "__len__")
        if m_len is not None:
            return it.call_function(m_len, [], {}, n)
        if isinstance(v, Obj):
            return TV(T("len", (A._term(v),)), kind="opaque")
        if isinstance(v, Unknown):
            return v
        raise Unsupported(f"len of {type(v).__name__}")

    def fold(it, seq, name, start):
        r = start
        for x in seq:
            r = it.lift(lambda p, q: it.binop(_OPS[name], p, q, None), r, x)
        return r

    import ast as _ast

    _OPS = {"add": _ast.Add(), "mul": _ast.Mult()}

    def b_sum(it, a, k, n):
        return fold(it, seq_of(it, a[0]), "add", a[1] if len(a) > 1 else 0)

    def b_prod(it, a, k, n):
        return fold(it, seq_of(it, a[0]), "mul", k.get("start", 1))

    def b_minmax(which):
        def f(it, a, k, n):
            seq = seq_of(it, a[0]) if len(a) == 1 else list(a)
            if not seq and "default" in k:
                return k["default"]
            if k.get("key") is not None or any(isinstance(x, (tuple, list, str)) for x in seq):
                key = k.get("key")
                try:
                    return (min if which == "min" else max)(seq, key=(lambda x: A._sort_key(it.call_function(key, [x], {}, n))) if key is not None else A._sort_key)
                except TypeError:
                    raise Unsupported("min/max of abstract values with a key")
            if any(isinstance(x, Unknown) for x in seq):
                return Unknown("min/max")
            if all(isinstance(x, int) and not isinstance(x, bool) for x in seq):
                return (min if which == "min" else max)(seq)
            vals = [A._sym(x) for x in seq]
            return num((sp.Min if which == "min" else sp.Max)(*vals))

        return f

    def b_abs(it, a, k, n):
        v = a[0]
        if isinstance(v, TV):
            return TV(T("method", ("abs", v.term, (), ())), shape=v.shape, dtype=v.dtype)
        if isinstance(v, Unknown):
            return v
        return num(sp.Abs(A._sym(v)))

    def b_pow(it, a, k, n):
        return it.lift(lambda x, y: it.binop(_ast.Pow(), x, y, n), a[0], a[1])

    def data_scalar(it, v, how, n):
        s = sp.Symbol(f"data{len(it.data_syms)}", real=True)
        it.data_syms[s] = (how, v)
        it.log("data-extract", n, how=how, value=v)
        return s

    def b_float(it, a, k, n):
        v = a[0] if a else 0
        if isinstance(v, TV):
            if v.const is not None:
                return v.const
            if v.kind == "tensor":
                return data_scalar(it, v, "float()", n)
            return TV(T("float", (v.term,)), kind="opaque")
        if isinstance(v, str):
            if v.strip().lower() in ("inf", "+inf", "infinity"):
                return sp.oo
            if v.strip().lower() in ("-inf", "-infinity"):
                return -sp.oo
            if v.strip().lower() == "nan":
                return Unknown("float('nan')")
            try:
                return num(sp.Rational(v.strip()))
            except Exception:
                it.log("raise", n, exc="ValueError")
                return BOTTOM
        if isinstance(v, (Unknown, Obj)):
            return v if isinstance(v, Unknown) else TV(T("float", (A._term(v),)), kind="opaque")
        if isinstance(v, Gamma):
            return it.lift(lambda x: b_float(it, [x], k, n), v)
        from . import values as _V

        if _V.FLOAT_KIND[0]:
            try:
                return sp.Float(A._sym(v), 30)  # number-kind mode: float() makes a float
            except Exception:
                pass
        return num(A._sym(v))

    def b_int(it, a, k, n):
        v = a[0] if a else 0
        if isinstance(v, TV):
            if v.kind == "tensor":
                return data_scalar(it, v, "int()", n)
            return TV(T("int", (v.term,)), kind="opaque")
        if isinstance(v, (Unknown,)):
            return v
        if isinstance(v, Gamma):
            return it.lift(lambda x: b_int(it, [x], k, n), v)
        if isinstance(v, str):
            try:
                return int(v, *[b_ for b_ in a[1:] if isinstance(b_, int)])
            except ValueError:
                it.log("raise", n, exc="ValueError")
                return BOTTOM
        x = A._sym(v)
        if x.is_integer:
            return num(x)
        if x.is_number:
            return int(x)
        return num(sp.sign(x) * sp.floor(sp.Abs(x))) if not x.is_positive else num(sp.floor(x))

    def b_bool(it, a, k, n):
        t = it.truth(a[0] if a else False, n)
        return t

    def b_tuple(it, a, k, n):
        if not a:
            return ()
        v = a[0]
        if isinstance(v, Shape):
            return tuple(v)
        s = it.concrete_iter(v)
        if s is None:
            if isinstance(v, (TV, Obj, ExtV)):
                return TV(T("tuple", (A._term(v),)), kind="opaque")
            raise Unsupported("tuple() of non-concrete")
        return tuple(s)

    def b_list(it, a, k, n):
        if not a:
            return []
        v = a[0]
        s = it.concrete_iter(v)
        if s is None:
            if isinstance(v, (TV, Obj, ExtV)):
                return TV(T("list", (A._term(v),)), kind="opaque")
            if isinstance(v, Unknown):
                return v
            raise Unsupported("list() of non-concrete")
        return list(s)

    def b_set(it, a, k, n):
        if not a:
            return set()
        s_ = it.concrete_iter(a[0])
        if s_ is None:
            raise Unsupported("set() of non-concrete iterable")
        return A.make_set(s_)

    def b_dir(it, a, k, n):
        v = a[0]
        if isinstance(v, ModV):
            return sorted(v.info.names())
        if isinstance(v, ExtV):
            from . import torchnames

            if v.name == "torch":
                return sorted(torchnames.torch_names())
            if v.name == "torch.nn.functional":
                return sorted(torchnames.f_names())
        return Unknown("dir() of an unmodelled object")

    def b_dict(it, a, k, n):
        d: Dict[Any, Any] = {}
        if a:
            if isinstance(a[0], dict):
                d.update(a[0])
            else:
                for kv in seq_of(it, a[0]):
                    d[kv[0]] = kv[1]
        d.update(k)
        return d

    def b_range(it, a, k, n):
        if all(isinstance(x, int) for x in a):
            return range(*a)
        raise Unsupported("range with symbolic bound")

    def classify(it, v, cls) -> Any:
        """isinstance(v, cls) for one class value; True/False/None (unknown)."""
        name = None
        if isinstance(cls, ExtV):
            name = cls.name
        elif isinstance(cls, B):
            name = cls.name
        elif isinstance(cls, ClassV):
            if isinstance(v, (Obj, A.NTuple)):
                c = v.cls
                while isinstance(c, ClassV):
                    if c.node is cls.node:
                        return True
                    nxt = [b for b in it.class_bases(c) if isinstance(b, ClassV)]
                    c = nxt[0] if nxt else None
                return False
            return False
        elif isinstance(cls, TV) and cls.term.op == "callv":
            # type(None)
            t = cls.term
            return None
        if name is None:
            return None
        short = name.split(".")[-1]
        if isinstance(v, TV):
            if v.kind == "tensor":
                return short == "Tensor" or (short == "Parameter" and None)
            return None
        if isinstance(v, Obj):
            cn = v.cls_name
            if cn == name or cn.split(".")[-1] == short:
                return True
            if short == "Tensor" and cn.split(".")[-1] in ("Parameter",):
                return True
            if short in ("Module",) and v.cls is not None and it.is_subclass_of_ext(v.cls, "Module"):
                return True
            if v.term is not None and v.term.op in ("attr", "param") and v.open_attrs:
                return None
            return False
        if isinstance(v, bool):
            return short in ("bool", "int")
        if isinstance(v, int):
            return short == "int"
        if isinstance(v, sp.Basic):
            if short == "int":
                return True if v.is_integer else (False if v.is_integer is False else None)
            if short == "float":
                return False if v.is_integer else (True if v.is_integer is False else None)
            if short in ("Number", "Real"):
                return True
            return False
        if isinstance(v, str):
            return short == "str"
        if isinstance(v, Shape):
            return short in ("tuple", "Size", "Iterable", "Sequence")
        if isinstance(v, tuple):
            return short in ("tuple", "Iterable", "Sequence")
        if isinstance(v, list):
            return short in ("list", "Iterable", "Sequence")
        if isinstance(v, dict):
            return short in ("dict", "Mapping")
        if v is None:
            return short == "NoneType"
        if isinstance(v, (FuncV,)):
            return short in ("FunctionType", "Callable")
        if isinstance(v, ExtV):
            from .extlib import is_builtin_ext

            if short == "BuiltinFunctionType":
                return is_builtin_ext(v.name)
            if short == "FunctionType":
                last = v.name.rsplit(".", 1)[-1]
                if last[:1].isupper() or v.name in ("torch", "torch.nn.functional", "sys", "math"):
                    return False  # classes / modules / typing constructs
                return not is_builtin_ext(v.name)
            return None
        if isinstance(v, Unknown):
            return None
        return False

    def b_isinstance(it, a, k, n):
        v, c = a[0], a[1]
        if isinstance(v, Gamma):
            return it.lift(lambda x: b_isinstance(it, [x, c], k, n), v)
        classes = list(c) if isinstance(c, (tuple, list)) else [c]
        unknown = False
        for cl in classes:
            if isinstance(cl, ExtV) and cl.name == "builtins.object":
                return True  # everything is an object
            r = classify(it, v, cl)
            if r is True:
                return True
            if r is None:
                unknown = True
        if unknown and isinstance(v, sp.Expr):
            shorts = {getattr(cl, "name", "").split(".")[-1] for cl in classes}
            if {"int", "float"} <= shorts:
                return True  # a python number is an int or a float
        if unknown:
            return T("isinstance", (A._term(v), A._term(c)))
        return False

    def b_getattr(it, a, k, n):
        v, name = a[0], a[1]
        if not isinstance(name, str):
            if isinstance(name, (int, sp.Basic)) and not isinstance(name, bool):
                it.log("raise", n, exc="TypeError")  # attribute name must be string
                return BOTTOM
            return Unknown("getattr with non-literal name")
        if isinstance(v, Obj) and name not in v.attrs and len(a) > 2:
            if v.cls is not None and it.class_attr(v.cls, name) is not None:
                return it.getattr(v, name, n)
            if v.open_attrs and v.term is not None:
                return TV(T("getattr", (A._term(v), name, A._term(a[2]))), kind="opaque")
            return a[2]
        if isinstance(v, ModV):
            it.log("module-getattr", n, module=v.info.name, name=name)
        r = it.getattr(v, name, n)
        if isinstance(r, Unknown) and len(a) > 2:
            return a[2]
        return r

    def b_hasattr(it, a, k, n):
        v, name = a[0], a[1]
        if isinstance(v, Obj) and isinstance(name, str):
            if name in v.attrs:
                return True
            if v.cls is not None and it.class_attr(v.cls, name) is not None:
                return True
            if not v.open_attrs or v.term is None:
                return False
        if isinstance(v, (ExtV, FuncV, ClassV)) and name in ("__module__", "__name__", "__qualname__", "__doc__"):
            return True  # every function / class object has these
        return T("hasattr", (A._term(v), A._term(name)))

    def b_setattr(it, a, k, n):
        v, name, val = a
        if isinstance(name, str):
            it.setattr_value(v, name, val, n)
        else:
            it.log("setattr", n, obj=v, attr=name, value=val)
        return None

    def b_reversed(it, a, k, n):
        return list(reversed(seq_of(it, a[0])))

    def seqs_of(it, srcs):
        """Concrete element lists of the arguments of zip()/map(); endless repeat() adapts."""
        from .values import Repeat

        fin = [None if isinstance(s, Repeat) else seq_of(it, s) for s in srcs]
        if srcs and all(x is None for x in fin):
            raise Unsupported("zip/map over endless iterables only")
        n_ = min((len(x) for x in fin if x is not None), default=0)
        return [[s.value] * n_ if x is None else x for s, x in zip(srcs, fin)]

    def b_zip(it, a, k, n):
        from .values import GenV, LiveIter, OneShot, Repeat

        shared = [s for s in a if isinstance(s, (OneShot, GenV, LiveIter)) and sum(1 for t in a if t is s) > 1]
        if not shared:
            return [tuple(x) for x in zip(*seqs_of(it, a))]
        # the same iterator object in several positions (the grouper idiom zip(*[iter(xs)] * k)): every
        # position draws from the one stream in turn, and the row in progress is lost when it runs dry
        pools: Dict[int, Any] = {}
        for s in a:
            if id(s) not in pools:
                pools[id(s)] = None if isinstance(s, Repeat) else list(seq_of(it, s))
        pos = [0] * len(a)
        cursor = {id(s): 0 for s in shared}
        rows = []
        while True:
            row = []
            for i_, s in enumerate(a):
                pool = pools[id(s)]
                if pool is None:
                    row.append(s.value)
                    continue
                if id(s) in cursor:
                    j_ = cursor[id(s)]
                    cursor[id(s)] = j_ + 1
                else:
                    j_ = pos[i_]
                    pos[i_] = j_ + 1
                if j_ >= len(pool):
                    return rows
                row.append(pool[j_])
            rows.append(tuple(row))
            if len(rows) > 20000:
                raise Unsupported("zip over endless iterables only")

    def b_staticmethod(kind):
        def f(it, a, k, n):
            import copy as _copy

            fn = a[0]
            if isinstance(fn, FuncV):
                fn = _copy.copy(fn)
                fn.kind = kind
            return fn

        return f

    def b_issubclass(it, a, k, n):
        c, bases = a[0], (list(a[1]) if isinstance(a[1], (tuple, list)) else [a[1]])
        if not isinstance(c, ClassV):
            return Unknown("issubclass of a non-repository class")
        for b in bases:
            x = c
            seen = 0
            while isinstance(x, ClassV) and seen < 20:
                if isinstance(b, ClassV) and x.node is b.node:
                    return True
                if isinstance(b, ExtV) and it.is_subclass_of_ext(x, b.name.split(".")[-1]):
                    return True
                nxt = [y for y in it.class_bases(x) if isinstance(y, ClassV)]
                x = nxt[0] if nxt else None
                seen += 1
        return False

    def b_vars(it, a, k, n):
        v = a[0] if a else None
        if isinstance(v, ModV):
            out_ = {}
            for nm in v.info.names():
                try:
                    out_[nm] = v.info.get(nm)
                except Exception:
                    out_[nm] = Unknown("member")
            return out_
        if isinstance(v, Obj):
            return v.attrs
        raise Unsupported("vars() of this value")

    def b_format(it, a, k, n):
        return A.format_value(a[0])

    def b_divmod(it, a, k, n):
        x, y = a
        return (it.binop(_ast.FloorDiv(), x, y, n), it.binop(_ast.Mod(), x, y, n))

    def b_next(it, a, k, n):
        from .values import Maybe, OneShot

        from .values import GenV, LiveIter

        src = a[0]
        if isinstance(src, GenV):
            kind_, v_ = it.gen_next(src)
            if kind_ == "yield":
                return v_
            if kind_ == "raise":
                return BOTTOM
            if len(a) > 1:
                return a[1]
            it.log("raise", n, exc="StopIteration")
            return BOTTOM
        if isinstance(src, LiveIter):
            if not src.done:
                nxt = src.live.after(src.cur) if src.started else src.live.first()
                src.started = True
                if nxt is not None:
                    src.cur = nxt
                    return nxt
                src.done = True
            if len(a) > 1:
                return a[1]
            it.log("raise", n, exc="StopIteration")
            return BOTTOM
        if not isinstance(src, OneShot):
            raise Unsupported("next() on a non-generator")
        rest = [] if src.consumed else list(src)[src.pos :]

        def from_(i):
            if i >= len(rest):
                if len(a) > 1:
                    return a[1]
                it.log("raise", n, exc="StopIteration")
                return BOTTOM
            el = rest[i]
            if isinstance(el, Maybe):
                # membership decided at run time: this element if its filter holds, else the next one
                return it.mkgamma(el.cond, el.value, it._guarded(el.cond, False, lambda: from_(i + 1)))
            return el

        if any(isinstance(el, Maybe) for el in rest):
            src.consumed = True  # position afterwards is not representable: treat as exhausted
        else:
            src.pos += 1 if rest else 0
        return from_(0)

    def b_enumerate(it, a, k, n):
        start = a[1] if len(a) > 1 else k.get("start", 0)
        return [(i + start, x) for i, x in enumerate(seq_of(it, a[0]))]

    def b_sorted(it, a, k, n):
        s_ = list(seq_of(it, a[0]))
        key = k.get("key")
        try:
            return sorted(s_, key=(lambda x: A._sort_key(it.call_function(key, [x], {}, n))) if key is not None else A._sort_key, reverse=bool(k.get("reverse", False)))
        except TypeError:
            try:
                if key is None:
                    return sorted(s_, reverse=bool(k.get("reverse", False)))
            except Exception:
                pass
            raise Unsupported("sorted of abstract values")

    def b_str(it, a, k, n):
        v = a[0] if a else ""
        if isinstance(v, str):
            return v
        if isinstance(v, Obj) and v.cls is not None:
            m = it.class_attr(v.cls, "__str__")
            if isinstance(m, FuncV):
                r = it.call_function(m, [v], {}, n)
                if isinstance(r, str):
                    return r
        from .values import fmt as _fmt

        return "{" + _fmt(A._term(v)) + "}"

    def b_type(it, a, k, n):
        if len(a) == 3 and isinstance(a[2], dict):
            return it.dynamic_class(a[0], a[1], a[2], it.cur_mod)
        v = a[0]
        if v is None:
            return ExtV("builtins.NoneType")
        if type(v).__name__ in ("NTuple", "ClassDictV") and getattr(v, "cls", None) is not None:
            return v.cls
        if isinstance(v, Obj) and isinstance(v.attrs.get("__class__"), Obj):
            return v.attrs["__class__"]  # a scenario object that models its class explicitly
        if isinstance(v, Obj):
            return v.cls if v.cls is not None else ExtV(v.cls_name)
        if isinstance(v, TV) and v.kind == "tensor":
            return ExtV("torch.Tensor")
        if isinstance(v, (ExtV, ClassV)):
            # the metaclass of a class: calling it with (name, bases, namespace) creates a class, as type() does
            return ExtV("builtins.type") if isinstance(v, ClassV) else ExtV(f"metaclass-of:{v.name}")
        return TV(T("type", (A._term(v),)), kind="opaque")

    def b_callable(it, a, k, n):
        v = a[0]
        if isinstance(v, (FuncV, ClassV, ExtV, Bound, B)):
            return True
        if isinstance(v, Obj) and v.attrs.get("_callable"):
            return True
        if isinstance(v, (TV, Obj, Unknown)):
            return T("callable", (A._term(v),))
        return False

    def b_print(it, a, k, n):
        return None

    def b_any(it, a, k, n):
        pend = []
        for x in seq_of(it, a[0]):
            t = it.truth(x, n)
            if t is True:
                return True
            if t is not False:
                pend.append(t)
        return A._boolcomb(False, pend) if pend else False

    def b_all(it, a, k, n):
        pend = []
        for x in seq_of(it, a[0]):
            t = it.truth(x, n)
            if t is False:
                return False
            if t is not True:
                pend.append(t)
        return A._boolcomb(True, pend) if pend else True

    def b_round(it, a, k, n):
        v = a[0]
        nd = a[1] if len(a) > 1 else k.get("ndigits")
        if isinstance(v, (int, sp.Basic)) and not isinstance(v, bool) and A._sym(v).is_number and (nd is None or isinstance(nd, int)):
            x = A._sym(v)
            scale = sp.Integer(10) ** (nd or 0)
            y = x * scale
            fl = sp.floor(y)
            diff = y - fl
            r = fl + 1 if diff > sp.Rational(1, 2) else (fl if diff < sp.Rational(1, 2) else (fl if fl % 2 == 0 else fl + 1))  # banker's rounding
            return num(r / scale) if nd is not None else int(r)
        return Unknown("round()")

    def b_id(it, a, k, n):
        v = a[0]
        if isinstance(v, (TV, Obj, list, dict, FuncV, Bound)):
            from .values import IdInt

            r_ = IdInt(id(v))  # identity of the abstract object stands for the identity of the run-time object
            r_.of = v
            return r_
        return T("id", (A._term(v),))

    def b_map(it, a, k, n):
        from .values import OneShot

        f = a[0]
        out_ = []
        for xs in zip(*seqs_of(it, a[1:])):
            r_ = it.call_function(f, list(xs), {}, n)
            if r_ is BOTTOM:
                return BOTTOM  # the exception surfaces when the map object is consumed
            out_.append(r_)
        return OneShot(out_)

    def b_iter(it, a, k, n):
        from .values import OneShot

        from .values import LiveIter

        v = a[0]
        from .values import GenV

        if isinstance(v, (OneShot, LiveIter, GenV)):
            return v  # an iterator is its own iterator
        if hasattr(v, "first") and hasattr(v, "after"):
            return LiveIter(v)
        m_it = it.dunder(v, "__iter__") if isinstance(v, Obj) else None
        if m_it is not None:
            return b_iter(it, [it.call_function(m_it, [], {}, n)], k, n)
        if isinstance(v, (list, tuple, dict, set, frozenset, range, Shape)) or isinstance(v, A._DictItems):
            return OneShot(it.concrete_iter(v))  # a fresh one-shot iterator over the current elements
        if isinstance(v, Obj) and isinstance(v.attrs.get("_modules"), dict):
            return OneShot(list(v.attrs["_modules"].values()))  # an nn container iterates its entries
        return v

    def b_filter(it, a, k, n):
        from .values import OneShot

        fn_, seq = a[0], seq_of(it, a[1])
        out = []
        for x in seq:
            t = it.truth(x if fn_ is None else it.call_function(fn_, [x], {}, n), n)
            if t is True:
                out.append(x)
            elif t is not False:
                from .values import Maybe

                if isinstance(t, Gamma) or not A._is_cond(t):
                    raise Unsupported("filter() with an undecidable predicate")
                out.append(Maybe(t, x))  # kept only when the predicate holds at run time
        return OneShot(out)

    def b_slice(it, a, k, n):
        if all(x is None or isinstance(x, int) for x in a):
            return slice(*a)
        return T("slice", tuple(A._term(x) for x in a))

    table = {
        "len": b_len, "sum": b_sum, "prod": b_prod, "min": b_minmax("min"), "max": b_minmax("max"),
        "abs": b_abs, "pow": b_pow, "float": b_float, "int": b_int, "bool": b_bool,
        "tuple": b_tuple, "list": b_list, "dict": b_dict, "range": b_range, "set": b_set, "dir": b_dir,
        "frozenset": b_tuple, "isinstance": b_isinstance, "getattr": b_getattr, "hasattr": b_hasattr,
        "setattr": b_setattr, "reversed": b_reversed, "zip": b_zip, "enumerate": b_enumerate,
        "sorted": b_sorted, "str": b_str, "repr": b_str, "type": b_type, "callable": b_callable,
        "print": b_print, "any": b_any, "all": b_all, "round": b_round, "id": b_id, "map": b_map,
        "iter": b_iter, "slice": b_slice, "filter": b_filter, "divmod": b_divmod, "next": b_next, "format": b_format, "vars": b_vars,
        "staticmethod": b_staticmethod("staticmethod"), "classmethod": b_staticmethod("classmethod"),
        "property": b_staticmethod("property"), "issubclass": b_issubclass,
    }
    out = {k: B(k, v) for k, v in table.items()}
    for exc in ("ValueError", "TypeError", "RuntimeError", "AssertionError", "KeyError", "IndexError",
                "NotImplementedError", "AttributeError", "Exception", "StopIteration"):
        out[exc] = ExtV("builtins." + exc)
    out["object"] = ExtV("builtins.object")
    out["Ellipsis"] = Ellipsis
    out["NotImplemented"] = ExtV("builtins.NotImplemented")
    return out, data_scalar


BUILTINS, data_scalar = _mk()
