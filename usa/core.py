"""Shared infrastructure of the unit-scaling static analyser (usa).

* locating and parsing /repo's *current* working tree (never imported, never run);
* the three-valued obligation report (holds / violated / undecided);
* evidence files, replay files, known findings, exit codes.

Exit codes: 0 = every obligation holds (or is a listed known finding),
            1 = some obligation violated and not listed  (prints VIOLATION ...),
            2 = ANALYSIS-ERROR (anchor vanished, fragment left, floor not met, crash).
"""
from __future__ import annotations

import ast
import json
import os
import sys
import time
import traceback
from dataclasses import dataclass, field
from pathlib import Path
from typing import Any, Callable, Dict, List, Optional, Tuple

VERIF_ROOT = Path(__file__).resolve().parent.parent
REPO_ROOT = Path(os.environ.get("USA_REPO_ROOT", "/repo"))
PKG = "unit_scaling"


class AnalysisError(Exception):
    """The analysis cannot produce a verdict (never a property violation)."""


# --------------------------------------------------------------------------- loading


class Module:
    """One parsed source file of the repository."""

    def __init__(self, root: Path, rel: str):
        self.rel = rel  # e.g. "unit_scaling/functional.py"
        self.path = root / rel
        if not self.path.exists():
            raise AnalysisError(f"anchor file vanished: {rel}")
        self.src = self.path.read_text()
        try:
            self.tree = ast.parse(self.src, filename=str(self.path))
        except SyntaxError as e:  # pragma: no cover
            raise AnalysisError(f"{rel} does not parse: {e}")
        for parent in ast.walk(self.tree):
            for child in ast.iter_child_nodes(parent):
                child._parent = parent  # type: ignore[attr-defined]
        # dotted module name
        name = rel[:-3].replace("/", ".")
        if name.endswith(".__init__"):
            name = name[: -len(".__init__")]
        self.name = name
        self.is_pkg = rel.endswith("__init__.py")

    # -- lookup of definitions by dotted qualname: "linear", "Linear.forward",
    #    "transformer_residual_scaling_rule._tau"
    def find(self, qualname: str) -> Optional[ast.AST]:
        node: ast.AST = self.tree
        for part in qualname.split("."):
            found = None
            body = getattr(node, "body", [])
            for st in _walk_defs(body):
                if (
                    isinstance(st, (ast.FunctionDef, ast.AsyncFunctionDef, ast.ClassDef))
                    and st.name == part
                ):
                    found = st  # last definition wins, like Python
            if found is None:
                return None
            node = found
        return node

    def need(self, qualname: str) -> ast.AST:
        n = self.find(qualname)
        if n is None:
            raise AnalysisError(f"anchor vanished: {self.rel}::{qualname}")
        return n

    def seg(self, node: ast.AST) -> str:
        try:
            return ast.get_source_segment(self.src, node) or ast.unparse(node)
        except Exception:  # pragma: no cover
            return ast.unparse(node)


def _walk_defs(body: List[ast.stmt]):
    """Definitions directly in a body, looking through if/try/with at the same scope."""
    for st in body:
        yield st
        if isinstance(st, (ast.If, ast.Try, ast.With, ast.For, ast.While)):
            for fld in ("body", "orelse", "finalbody"):
                yield from _walk_defs(getattr(st, fld, []) or [])
            for h in getattr(st, "handlers", []) or []:
                yield from _walk_defs(h.body)


class Repo:
    def __init__(self, root: Optional[Path] = None):
        self.root = Path(root) if root else REPO_ROOT
        self._mods: Dict[str, Module] = {}

    def module(self, rel: str) -> Module:
        if rel not in self._mods:
            self._mods[rel] = Module(self.root, rel)
        return self._mods[rel]

    def module_by_name(self, dotted: str) -> Optional[Module]:
        rel = dotted.replace(".", "/")
        for cand in (rel + ".py", rel + "/__init__.py"):
            if (self.root / cand).exists():
                return self.module(cand)
        return None

    def all_package_files(self, include_tests: bool = False) -> List[str]:
        out = []
        for p in sorted((self.root / PKG).rglob("*.py")):
            rel = str(p.relative_to(self.root))
            if not include_tests and "/tests/" in rel:
                continue
            out.append(rel)
        return out


# --------------------------------------------------------------------------- reporting

HOLDS, VIOLATED, UNDECIDED = "holds", "violated", "undecided"


@dataclass
class Obligation:
    rule: str  # e.g. "R1-taint"
    construct: str  # e.g. "unit_scaling/functional.py::linear::scale_bwd(weight)"
    verdict: str
    detail: str = ""
    extracted: str = ""
    expected: str = ""
    where: str = ""  # file:line
    nontrivial: bool = True

    def key(self) -> Tuple[str, str]:
        return (self.rule, self.construct)


class Report:
    """Collects obligations for one property check."""

    def __init__(self, prop: str, tier: str):
        self.prop = prop
        self.tier = tier
        self.obls: List[Obligation] = []
        self.analysed: Dict[str, Any] = {}
        self.assumptions: List[str] = []
        self.floors: List[Tuple[str, int, int]] = []  # (what, got, floor)
        self.rule_text: str = ""
        self.explanation: str = ""
        self.t0 = time.time()

    def add(
        self,
        rule: str,
        construct: str,
        ok: Optional[bool],
        detail: str = "",
        extracted: Any = "",
        expected: Any = "",
        where: str = "",
        nontrivial: bool = True,
    ) -> bool:
        verdict = HOLDS if ok is True else VIOLATED if ok is False else UNDECIDED
        ex_s = _s(extracted)
        if verdict == VIOLATED and (ex_s.startswith(("('unsupported'", "unsupported")) or "outside fragment" in ex_s[:40]):
            # the evaluation left the fragment the interpreter represents: no verdict, never a violation
            verdict = UNDECIDED
            detail = "(the abstract evaluation is outside the modelled fragment) " + detail
        self.obls.append(
            Obligation(
                rule,
                construct,
                verdict,
                detail,
                _s(extracted),
                _s(expected),
                where,
                nontrivial,
            )
        )
        return ok is True

    def floor(self, what: str, got: int, floor: int) -> None:
        """Vacuity guard: the rule must have matched at least `floor` instances."""
        self.floors.append((what, got, floor))

    def note(self, key: str, value: Any) -> None:
        self.analysed[key] = value


def _s(x: Any) -> str:
    s = x if isinstance(x, str) else repr(x)
    return s if len(s) < 600 else s[:600] + "…"


def load_known_findings() -> Dict[str, Any]:
    p = VERIF_ROOT / "known_findings.json"
    if not p.exists():
        return {"known": [], "fixed": []}
    return json.loads(p.read_text())


def finish(report: Report, seed: int = 0) -> int:
    """Write evidence, print verdict lines, return exit code."""
    prop = report.prop
    kf = load_known_findings()
    known = {
        (k["rule"], k["construct"]): k
        for k in kf.get("known", [])
        if k["property"] == prop
    }
    # analysis gaps: if the analysed source uses library idioms the interpreter does not model, a
    # negative verdict may be an artefact of the model; it is reported as undecided, never as a violation
    try:
        from .absint import Interp

        gaps = list(Interp.GAPS)
    except Exception:
        gaps = []
    if gaps:
        for o in report.obls:
            if o.verdict == VIOLATED and o.key() not in known:
                o.verdict = UNDECIDED
                o.detail = "(undecided because of unmodelled constructs: " + "; ".join(gaps[:4]) + ") " + o.detail
        report.analysed["analysis_gaps"] = gaps
    viol = [o for o in report.obls if o.verdict == VIOLATED]
    und = [o for o in report.obls if o.verdict == UNDECIDED]
    new_viol_all = [o for o in viol if o.key() not in known]
    new_viol, _seen = [], {}
    for o in new_viol_all:  # one report per (rule, construct); count the instances
        if o.key() in _seen:
            _seen[o.key()].detail += ""
            _seen[o.key()]._n = getattr(_seen[o.key()], "_n", 1) + 1  # type: ignore[attr-defined]
            continue
        _seen[o.key()] = o
        new_viol.append(o)
    listed = [o for o in viol if o.key() in known]
    floor_fail = [(w, g, f) for (w, g, f) in report.floors if g < f]

    evdir = Path(os.environ.get("USA_EVIDENCE_DIR", str(VERIF_ROOT / "evidence")))
    (evdir / "replay").mkdir(parents=True, exist_ok=True)
    for old in (evdir / "replay").glob(f"{prop}-*.json"):
        old.unlink()

    replay_paths = []
    for i, o in enumerate(new_viol):
        rp = evdir / "replay" / f"{prop}-{i}.json"
        rp.write_text(
            json.dumps(
                {
                    "property": prop,
                    "rule": o.rule,
                    "construct": o.construct,
                    "where": o.where,
                    "detail": o.detail,
                    "instances": getattr(o, "_n", 1),
                    "extracted": o.extracted,
                    "expected": o.expected,
                    "repo_root": str(REPO_ROOT),
                },
                indent=1,
            )
        )
        replay_paths.append(rp)

    distinct_nt = len(
        {(o.rule, o.construct, o.extracted) for o in report.obls if o.nontrivial}
    )
    samples = []
    seen_rules = set()
    for o in report.obls:
        if o.rule in seen_rules and len(samples) >= 6:
            continue
        if o.rule in seen_rules and o.verdict == HOLDS:
            continue
        seen_rules.add(o.rule)
        samples.append(
            {
                "rule": o.rule,
                "construct": o.construct,
                "verdict": o.verdict,
                "extracted": o.extracted,
                "expected": o.expected,
                "detail": o.detail,
            }
        )
        if len(samples) >= 14:
            break
    evidence = {
        "property_id": prop,
        "tier": report.tier,
        "seed": seed,
        "level": "other",
        "coverage": {
            "explanation": report.explanation
            or "static analysis of /repo's current source; see rule",
            "rule": report.rule_text,
            "obligations": len(report.obls),
            "discharged": len([o for o in report.obls if o.verdict == HOLDS]),
            "evaluations": max(1, len(report.obls)),
            "distinct_nontrivial": distinct_nt,
            "samples": samples or [{"note": "no obligations"}],
            "analysed": report.analysed,
            "instance_floors": [
                {"what": w, "matched": g, "floor": f} for (w, g, f) in report.floors
            ],
            "undecided": [
                {"rule": o.rule, "construct": o.construct, "detail": o.detail}
                for o in und
            ],
            "known_findings_matched": [
                {"rule": o.rule, "construct": o.construct} for o in listed
            ],
            "violations_new": [
                {"rule": o.rule, "construct": o.construct, "detail": o.detail}
                for o in new_viol
            ],
            "repo_root": str(REPO_ROOT),
            "exhaustive": False,
        },
        "assumptions": report.assumptions,
        "wall_s": round(time.time() - report.t0, 3),
        "violations": len(new_viol),
    }
    (evdir / f"{prop}.json").write_text(json.dumps(evidence, indent=1, default=str))

    _printed = set()
    for o in listed:
        if o.key() in _printed:
            continue
        _printed.add(o.key())
        k = known[o.key()]
        print(f"KNOWN-FINDING: property={prop} {o.construct}: {k.get('what', o.detail)}")
    for o, rp in zip(new_viol, replay_paths):
        print(f"  violated {o.rule} at {o.construct} ({o.where}): {o.detail}")
        if o.extracted or o.expected:
            print(f"    extracted: {o.extracted}\n    expected : {o.expected}")
        print(f"VIOLATION property={prop} replay={rp}")
    if new_viol:
        return 1
    if und or floor_fail:
        for o in und:
            print(
                f"ANALYSIS-ERROR property={prop} undecided {o.rule} at {o.construct}: {o.detail}"
            )
        for w, g, f in floor_fail:
            print(
                f"ANALYSIS-ERROR property={prop} vacuity guard: {w}: matched {g} < floor {f}"
            )
        return 2
    n = len(report.obls)
    print(
        f"OK property={prop} tier={report.tier} obligations={n} discharged={n - len(listed)}"
        f" known_findings={len(listed)} wall_s={evidence['wall_s']}"
    )
    return 0


def run_check(prop: str, fn: Callable[[Report, Repo], None], tier: str, seed: int) -> int:
    report = Report(prop, tier)
    try:
        repo = Repo()
        fn(report, repo)
        return finish(report, seed)
    except AnalysisError as e:
        print(f"ANALYSIS-ERROR property={prop} {e}")
        _write_error_evidence(report, seed, str(e))
        return 2
    except Exception as e:  # crash of the analyser: never a violation, never a pass
        traceback.print_exc()
        print(f"ANALYSIS-ERROR property={prop} internal error: {type(e).__name__}: {e}")
        _write_error_evidence(report, seed, f"{type(e).__name__}: {e}")
        return 2


def _write_error_evidence(report: Report, seed: int, msg: str) -> None:
    evdir = Path(os.environ.get("USA_EVIDENCE_DIR", str(VERIF_ROOT / "evidence")))
    evdir.mkdir(parents=True, exist_ok=True)
    ev = {
        "property_id": report.prop,
        "tier": report.tier,
        "seed": seed,
        "level": "other",
        "coverage": {
            "explanation": "ANALYSIS-ERROR: " + msg,
            "evaluations": max(1, len(report.obls)),
            "distinct_nontrivial": 0,
            "samples": [{"error": msg}],
        },
        "assumptions": [],
        "wall_s": round(time.time() - report.t0, 3),
        "violations": 0,
    }
    (evdir / f"{report.prop}.json").write_text(json.dumps(ev, indent=1))


def where(mod: Module, node: ast.AST) -> str:
    return f"{mod.rel}:{getattr(node, 'lineno', '?')}"
