"""Reference programs: small Python sources written in this directory and evaluated by
the *same* abstract interpreter, so that 'the code computes what the recipe says' is a
term-equality question independent of how the repository spells it."""
from __future__ import annotations

import ast
from typing import Any, Dict

from .absint import Env, Interp, ModInfo
from .core import Module
from .values import FuncV


class _FakeModule:
    def __init__(self, name: str, src: str):
        self.rel = f"<oracle:{name}>"
        self.name = f"oracle.{name}"
        self.src = src
        self.tree = ast.parse(src)
        self.is_pkg = False
        self.path = None


class OracleModule(ModInfo):
    def __init__(self, interp: Interp, name: str, src: str, globals_: Dict[str, Any]):
        self.interp = interp
        self.module = _FakeModule(name, src)  # type: ignore[assignment]
        self.name = self.module.name
        self.rel = self.module.rel
        self._thunks = {}
        self._cache = dict(globals_)
        self._busy = set()
        self._scan(self.module.tree.body)
        for k in globals_:
            self._thunks.setdefault(k, ("const",))


def oracle_function(interp: Interp, name: str, src: str, globals_: Dict[str, Any]) -> FuncV:
    om = OracleModule(interp, name, src, globals_)
    v = om.get(name)
    from .values import ClassV

    assert isinstance(v, (FuncV, ClassV)), name
    return v


def std_globals(interp: Interp) -> Dict[str, Any]:
    from .values import ExtV, ModV

    return {
        "F": ExtV("torch.nn.functional"),
        "torch": ExtV("torch"),
        "U": ModV(interp.modinfo("unit_scaling/functional.py")),
    }
