"""Abstract semantics of external names: math, typing, torch functions, tensor methods.

Everything not modelled explicitly becomes an uninterpreted term (for tensors) so that
the rules can see it on the tensor path; nothing here executes torch."""
from __future__ import annotations

import ast
from typing import Any, Dict, List, Optional

import sympy as sp

from . import torchsig
from .values import BOTTOM, Bound, ClassV, ExtV, FuncV, Gamma, Obj, Shape, T, TV, Unknown, fmt, num

EXT_CONSTS = {
    "math.pi": sp.pi,
    "math.e": sp.E,
    "math.inf": sp.oo,
    "torch.pi": sp.pi,
    "torch.inf": sp.oo,
}

DTYPES = {
    "torch.float32", "torch.float", "torch.float64", "torch.double", "torch.float16", "torch.half",
    "torch.bfloat16", "torch.int32", "torch.int", "torch.int64", "torch.long", "torch.int16",
    "torch.int8", "torch.uint8", "torch.bool",
}
DTYPE_CANON = {"torch.float": "torch.float32", "torch.double": "torch.float64", "torch.half": "torch.float16",
               "torch.int": "torch.int32", "torch.long": "torch.int64"}

ALIAS_METHODS = {
    "to", "view", "reshape", "detach", "contiguous", "float", "half", "double", "bfloat16", "squeeze",
    "unsqueeze", "flatten", "expand", "transpose", "permute", "t", "type", "cpu", "cuda", "view_as",
    "expand_as", "narrow", "select", "unflatten", "movedim", "swapaxes", "chunk", "split", "unbind",
    "requires_grad_", "type_as", "as_strided", "diagonal", "real",
}
SHAPE_KEEP_METHODS = {
    "abs", "neg", "pow", "sqrt", "rsqrt", "exp", "log", "clamp", "clip", "sigmoid", "tanh", "relu",
    "clone", "detach", "contiguous", "float", "half", "double", "bfloat16", "to", "mul", "div", "add",
    "sub", "square", "sign", "round", "floor", "ceil", "type", "cpu", "cuda", "requires_grad_",
}
SCALAR_METHODS = {"item", "tolist"}
CAST_METHODS = {"float": "torch.float32", "half": "torch.float16", "double": "torch.float64", "bfloat16": "torch.bfloat16",
                "int": "torch.int32", "long": "torch.int64", "bool": "torch.bool"}


def _A():
    from . import absint

    return absint


# standard-library namespaces whose functions carry program semantics: a call that reaches the generic
# (uninterpreted) path is an analysis gap, and negative verdicts of the run are then reported as undecided
GAP_NAMESPACES = {"functools", "operator", "_operator", "itertools", "types", "contextlib", "collections", "dataclasses", "inspect", "abc", "enum", "heapq", "bisect", "re", "string", "numbers", "weakref"}
GAP_EXEMPT = {"inspect.getfullargspec", "inspect.signature", "functools.wraps", "logging.getLogger"}

BUILTIN_EXT = {
    # C-implemented callables (types.BuiltinFunctionType) among the targets fx graphs carry
    "torch.nn.functional.linear", "torch.nn.functional.conv1d", "torch.nn.functional.gelu",
    "torch.nn.functional.scaled_dot_product_attention", "torch.matmul", "torch.add", "torch.tanh",
    "torch.relu", "torch.cat", "torch.neg", "torch.mul", "torch.reshape", "torch.sigmoid",
}


def is_builtin_ext(name: str) -> bool:
    return name.startswith(("operator.", "_operator.", "builtins.", "math.", "torch._C.")) or name in BUILTIN_EXT


def canon_dtype(v: Any) -> Any:
    """Abstract dtype of a value used as a dtype argument."""
    if isinstance(v, ExtV) and v.name in DTYPES:
        return DTYPE_CANON.get(v.name, v.name)
    if isinstance(v, TV) and v.term.op == "attr" and v.term.args[1] == "dtype":
        src = v.term.args[0]
        if isinstance(src, T) and src.op == "param":
            return ("same", src.args[0])
        return ("dtype-of", src)
    return None


# ----------------------------------------------------------------------------- attrs


def tensor_attr(it: Any, v: TV, attr: str, node: Any) -> Any:
    A = _A()
    if v.kind == "tensor":
        if attr == "shape":
            return v.shape if v.shape is not None else TV(T("attr", (v.term, "shape")), kind="opaque")
        if attr == "ndim":
            return len(v.shape) if v.shape is not None else Unknown("ndim")
        if attr in ("dtype", "device", "requires_grad", "is_leaf", "grad", "layout"):
            return TV(T("attr", (v.term, attr)), kind="opaque")
        if attr == "data":
            return TV(T("attr", (v.term, "data")), shape=v.shape, dtype=v.dtype, alias=v.alias)
        if attr in ("T", "mT", "real"):
            return TV(T("attr", (v.term, attr)), dtype=v.dtype, alias=v.alias)
    if attr.startswith("__") and attr.endswith("__") and attr not in ("__class__", "__dict__", "__name__", "__qualname__", "__get__"):
        return TV(T("attr", (v.term, attr)), kind="opaque")
    if v.kind == "opaque":
        # attribute or bound method of an opaque object: decided by how it is used
        return TV(T("attr", (v.term, attr)), kind="opaque", alias=v.alias)
    return A._Builtin(f"method.{attr}", lambda it2, a, k, nd, recv=v, at=attr: tensor_method(it2, recv, at, a, k, nd))


def obj_attr(it: Any, o: Obj, attr: str, node: Any) -> Any:
    A = _A()
    if "_modules" in o.attrs and attr in ("children", "named_children", "named_parameters", "parameters", "modules", "named_modules", "__len__"):
        from . import nnmodel

        def cfn(it2, a, k, nd, o=o, attr=attr):
            if attr == "children":
                return nnmodel.children(o)
            if attr == "named_children":
                seen, out = [], []
                for k_, m in o.attrs["_modules"].items():
                    if not any(m is x for x in seen):
                        seen.append(m)
                        out.append((k_, m))
                return out
            if attr == "named_parameters":
                return nnmodel.named_parameters(o)
            if attr == "parameters":
                return [p for _n, p in nnmodel.named_parameters(o)]
            if attr == "__len__":
                return len(o.attrs["_modules"])
            mods = [("", o)] + [(k_, m) for k_, m in o.attrs["_modules"].items()]
            return mods if attr == "named_modules" else [m for _n, m in mods]

        return A._Builtin(f"Module.{attr}", cfn)
    # abstract nn.Module: children / parameters enumerated from the object's own attributes
    if "_children" in o.attrs and attr in ("named_children", "named_modules", "children", "modules"):
        def walk_mods(m: Obj, prefix: str, deep: bool):
            out = []
            for nm, ch in m.attrs.get("_children", []):
                full = f"{prefix}.{nm}" if prefix else nm
                out.append((full, ch))
                if deep and isinstance(ch, Obj):
                    out += walk_mods(ch, full, True)
            return out

        def fn(it2, a, k, nd, o=o, attr=attr):
            deep = attr in ("named_modules", "modules")
            lst = ([("", o)] if deep else []) + walk_mods(o, "", deep)
            return lst if attr.startswith("named_") else [m for _n, m in lst]

        return A._Builtin(f"Module.{attr}", fn)
    if "_children" in o.attrs and "_params" in o.attrs and attr in ("parameters", "named_parameters"):
        # abstract nn.Module that lists its own parameters: own ones first, then the children's (de-duplicated)
        def walk_params(m: Obj, prefix: str, seen: list):
            out = []
            for nm, p_ in m.attrs.get("_params", []):
                if not any(p_ is x for x in seen):
                    seen.append(p_)
                    out.append((f"{prefix}{nm}", p_))
            for nm, ch in m.attrs.get("_children", []):
                if isinstance(ch, Obj):
                    out += walk_params(ch, f"{prefix}{nm}.", seen)
            return out

        def pfn(it2, a, k, nd, o=o, attr=attr):
            lst = walk_params(o, "", [])
            return lst if attr.startswith("named_") else [p_ for _n, p_ in lst]

        return A._Builtin(f"Module.{attr}", pfn)
    return TV(T("attr", (A._term(o), attr)), kind="opaque")


def tensor_method(it: Any, v: TV, name: str, args: List[Any], kwargs: Dict[str, Any], node: Any) -> Any:
    A = _A()
    targs = tuple(A._term(a) for a in args)
    tkw = tuple(sorted((k, A._term(x)) for k, x in kwargs.items()))
    term = T("method", (name, v.term, targs, tkw))
    if v.kind == "opaque":
        it.log("method", node, recv=v, name=name, args=args, kwargs=kwargs, result=term)
        if name.endswith("_") and not name.endswith("__"):
            it.log("inplace", node, target=v, op=name, alias=v.alias)
        return TV(term, kind="opaque")
    # ---- tensor receivers
    elems_ = getattr(v, "elems", None)
    if elems_ is not None:
        # a 1-d tensor stacked from known 0-d tensors: element-wise conversions and read-back keep the elements
        if name in CAST_METHODS or name in ("to", "clone", "detach", "cpu", "contiguous"):
            out_ = TV(term, shape=v.shape)
            out_.elems = [tensor_method(it, e_, name, args, kwargs, node) if isinstance(e_, TV) else e_ for e_ in elems_]  # type: ignore[attr-defined]
            return out_
        if name == "tolist" and not args:
            return [tensor_method(it, e_, "item", [], {}, node) if isinstance(e_, TV) else e_ for e_ in elems_]
        if name == "unbind":
            return tuple(elems_)
    if name in ("numel", "nelement"):
        if v.shape is not None:
            return num(v.shape.numel())
        return sp.Symbol(f"numel({fmt(v.term)})", positive=True, integer=True)
    if name == "dim" or name == "ndimension":
        return len(v.shape) if v.shape is not None else Unknown("dim()")
    if name == "size":
        if v.shape is None:
            return Unknown("size()")
        if args:
            return v.shape[args[0]] if isinstance(args[0], int) else Unknown("size(sym)")
        return v.shape
    if name == "is_floating_point":
        return TV(term, kind="opaque")
    if name == "stride" and v.shape is not None and not args:
        return tuple(sp.Symbol(f"stride{i}({fmt(v.term)})", integer=True, nonnegative=True) for i in range(len(v.shape)))
    if name in SCALAR_METHODS:
        from .builtins_model import data_scalar

        if v.const is not None:
            return v.const
        return data_scalar(it, v, f".{name}()", node)
    if name.endswith("_") and not name.endswith("__"):
        it.log("inplace", node, target=v, op=name, alias=v.alias)
        return TV(term, shape=v.shape, dtype=v.dtype, alias=v.alias)
    it.log("method", node, recv=v, name=name, args=args, kwargs=kwargs, result=term)
    alias = v.alias if name in ALIAS_METHODS else frozenset()
    shape = v.shape if name in SHAPE_KEEP_METHODS else None
    dtype = v.dtype
    if name == "to":
        cand = [canon_dtype(a) for a in list(args) + list(kwargs.values())]
        cand = [c for c in cand if c is not None]
        if cand:
            dtype = cand[0]
        elif any(isinstance(a, TV) and a.kind == "tensor" for a in args):
            dtype = None
    elif name in CAST_METHODS:
        dtype = CAST_METHODS[name]
    if name in CAST_METHODS or name == "to":
        # precision typestate: a value whose dtype is an input's (it may be float64) converted to a fixed
        # narrower floating dtype loses precision for that input
        NARROW = {"torch.float32": 32, "torch.float16": 16, "torch.bfloat16": 16}
        if isinstance(v.dtype, tuple) and v.dtype and v.dtype[0] == "same" and isinstance(dtype, str) and dtype in NARROW:
            it.log("narrowing-cast", node, recv=v, from_dtype=v.dtype, to_dtype=dtype, method=name)
    if name == "view" and len(args) == 1 and canon_dtype(args[0]) is not None:
        newd = canon_dtype(args[0])
        it.log("bitcast", node, recv=v, from_dtype=v.dtype, to_dtype=newd)
        dtype = newd
        shape = v.shape
    elif name in ("type",) and args:
        dtype = canon_dtype(args[0])
    elif name in ("mean", "sum", "std", "var", "max", "min", "norm", "amax", "amin", "prod", "any", "all"):
        shape = None
    return TV(term, shape=shape, dtype=dtype, alias=alias)


# ----------------------------------------------------------------------------- operators

INPLACE_FRESH = False


def tensor_binop(it: Any, name: str, a: Any, b: Any, node: Any, inplace: bool) -> Any:
    A = _A()
    ta, tb = A._term(a), A._term(b)
    opaque = (isinstance(a, TV) and a.kind == "opaque") or (isinstance(b, TV) and b.kind == "opaque") or isinstance(a, Obj) or isinstance(b, Obj)
    both_tensor = isinstance(a, TV) and isinstance(b, TV) and a.kind == "tensor" and b.kind == "tensor"
    if inplace and isinstance(a, Obj):
        # `p /= s` on an object (a parameter, a module attribute): the same object, modified in place --
        # its identity, instance attributes and hooks are kept
        it.log("inplace", node, target=a, op="i" + name, alias=frozenset(), other=b)
        a.stores.append(("<i" + name + ">", b))
        return a
    if opaque and not (isinstance(a, TV) and a.kind == "tensor") and not (isinstance(b, TV) and b.kind == "tensor"):
        return TV(T(name, (ta, tb)), kind="opaque")
    # constant folding on tensor(<scalar>) values
    ca = a.const if isinstance(a, TV) else (a if not isinstance(a, (TV, Obj)) else None)
    cb = b.const if isinstance(b, TV) else (b if not isinstance(b, (TV, Obj)) else None)
    if ca is not None and cb is not None and isinstance(a, TV) and a.const is not None and (not isinstance(b, TV) or b.const is not None) and name in ("add", "sub", "mul", "floordiv", "lshift", "rshift", "pow", "mod"):
        try:
            c = A.scalar_binop(name, ca, cb)
            return TV(T("tensor", (c,)), const=c, dtype=a.dtype, shape=Shape(()))
        except Exception:
            pass
    lead = a if isinstance(a, TV) and a.kind == "tensor" else b
    shape = None
    if both_tensor:
        if a.shape is not None and b.shape is not None:
            try:
                shape = broadcast(a.shape, b.shape)
            except Exception:
                shape = None
        elif a.const is not None or (b.shape is not None and len(b.shape) == 0):
            shape = a.shape
        elif b.const is not None:
            shape = a.shape
    else:
        shape = lead.shape
    dtype = lead.dtype
    if both_tensor and not inplace and a.dtype is not None and b.dtype is not None and a.dtype != b.dtype and a.const is None and b.const is None and not (b.shape is not None and len(b.shape) == 0) and not (a.shape is not None and len(a.shape) == 0):
        # out-of-place arithmetic of two dimensioned tensors: PyTorch type promotion (in place, the
        # receiver's dtype is kept)
        dtype = ("promote", tuple(sorted((str(a.dtype), str(b.dtype)))))
    if both_tensor and not inplace and a.dtype is not None and b.dtype is not None and a.dtype != b.dtype and a.shape is not None and b.shape is not None and len(a.shape) == 0 and len(b.shape) == 0:
        # two 0-d tensors: neither is "the scalar", so the wider dtype of the same category wins (for a
        # dimensioned receiver a 0-d operand of the same category leaves the dtype alone)
        dtype = ("promote", tuple(sorted((str(a.dtype), str(b.dtype)))))
    if name in ("lt", "le", "gt", "ge", "eq", "ne"):
        dtype = "torch.bool"
    res = TV(T(name, (ta, tb)), shape=shape, dtype=dtype)
    if inplace and isinstance(a, TV) and a.kind == "tensor":
        it.log("inplace", node, target=a, op="i" + name, alias=a.alias)
        res.alias = a.alias
        res.shape = a.shape
        res.dtype = a.dtype
    return res


def broadcast(*shapes: Shape) -> Shape:
    n = max(len(s) for s in shapes)
    out = []
    for i in range(1, n + 1):
        d: Any = 1
        for s in shapes:
            if i <= len(s):
                x = s[-i]
                if x == 1:
                    continue
                if d == 1:
                    d = x
                elif sp.simplify(sp.sympify(d) - sp.sympify(x)) != 0:
                    raise ValueError(f"cannot broadcast {d} with {x}")
        out.append(d)
    return Shape(tuple(reversed(out)))


# ----------------------------------------------------------------------------- calls


def _bind_ext(name: str, args: List[Any], kwargs: Dict[str, Any]) -> Optional[Dict[str, Any]]:
    sig = torchsig.SIGS.get(name)
    if sig is None:
        return None
    names = [n for n, _ in sig]
    if len(args) > len(names):
        return None
    bound: Dict[str, Any] = {}
    for n, v in zip(names, args):
        bound[n] = v
    for k, v in kwargs.items():
        if k in bound:
            return None
        bound[k] = v
    for n, d in sig:
        if n not in bound and d is not torchsig.REQ:
            bound[n] = num(d) if isinstance(d, (int, float)) and not isinstance(d, bool) else d
    return bound


def call_bound_ext(it: Any, f: Bound, args: List[Any], kwargs: Dict[str, Any], node: Any) -> Any:
    return call_ext(it, f.func, [f.self_val, *args], kwargs, node)


def call_ext(it: Any, f: ExtV, args: List[Any], kwargs: Dict[str, Any], node: Any) -> Any:
    A = _A()
    name = f.name
    if any(isinstance(a, Gamma) for a in args):
        return it.lift(lambda *xs: call_ext(it, f, list(xs), kwargs, node), *args)
    for k, v in kwargs.items():
        if isinstance(v, Gamma):
            return it.lift(lambda x, k=k: call_ext(it, f, args, {**kwargs, k: x}, node), v)
    short = name.split(".")[-1]
    if name in getattr(it, "ext_results", {}):
        # a process-state query whose answer the scenario fixes (e.g. torch.is_grad_enabled)
        it.log("call", node, callee=name, args=args, kwargs=kwargs, bound=None, result=it.ext_results[name])
        return it.ext_results[name]
    if (name.startswith("metaclass-of:") or name == "builtins.type") and len(args) == 3 and isinstance(args[0], str) and isinstance(args[2], dict):
        return it.dynamic_class(args[0], args[1], args[2], it.cur_mod)
    if name in ("torch.finfo", "torch.iinfo"):
        # numeric limits of a dtype: `bits` is a positive integer fixed by the dtype (symbolic when the dtype is)
        dt_ = args[0] if args else kwargs.get("type", ExtV("torch.float32"))
        known_bits = {"torch.float16": 16, "torch.half": 16, "torch.bfloat16": 16, "torch.float32": 32, "torch.float": 32, "torch.float64": 64, "torch.double": 64, "torch.int8": 8, "torch.uint8": 8, "torch.int16": 16, "torch.int32": 32, "torch.int64": 64}
        dn_ = dt_.name if isinstance(dt_, ExtV) else None
        bits_ = known_bits.get(dn_) if dn_ in known_bits else sp.Symbol(f"bits({A.fmt(A._term(dt_))})", integer=True, positive=True)
        attrs_ = {"bits": bits_, "dtype": dt_}
        fin_ = {"torch.float16": (10, 5), "torch.half": (10, 5), "torch.bfloat16": (7, 8), "torch.float32": (23, 8), "torch.float": (23, 8), "torch.float64": (52, 11), "torch.double": (52, 11)}
        if name == "torch.finfo":
            if dn_ in fin_:
                mant_, expo_ = fin_[dn_]
                emax_ = 2 ** (expo_ - 1) - 1
                attrs_.update(eps=sp.Rational(1, 2**mant_), max=num(sp.Integer(2) ** emax_ * (2 - sp.Rational(1, 2**mant_))), tiny=sp.Rational(1, 2 ** (emax_ - 1)), smallest_normal=sp.Rational(1, 2 ** (emax_ - 1)))
                attrs_["min"] = -attrs_["max"]
            else:
                tag_ = A.fmt(A._term(dt_))
                attrs_.update({k_: sp.Symbol(f"finfo_{k_}({tag_})", positive=True) for k_ in ("eps", "max", "tiny", "smallest_normal", "resolution")})
                attrs_["min"] = -attrs_["max"]
        return Obj("torch.finfo", attrs=attrs_, term=T("call", (name, (("type", A._term(dt_)),))))
    if name in ("torch.utils.checkpoint.checkpoint", "torch.utils.checkpoint.checkpoint.checkpoint") and args:
        # activation checkpointing: checkpoint(fn, *args, **kw) computes fn(*args, **kw) (recomputed in backward);
        # its own keywords are not forwarded
        own = ("use_reentrant", "preserve_rng_state", "context_fn", "determinism_check", "debug")
        return it.call_function(args[0], list(args[1:]), {k_: v_ for k_, v_ in kwargs.items() if k_ not in own}, node)
    # ---- math
    if name.startswith("math."):
        try:
            if short in ("log", "exp", "sqrt", "floor", "ceil"):
                if any(isinstance(a, Unknown) for a in args):
                    return Unknown(name)
                x = A._sym(args[0])
                if short in ("log", "sqrt") and isinstance(x, (int, sp.Basic)) and getattr(sp.sympify(x), "is_number", False) and (sp.sympify(x) < 0 or (short == "log" and sp.sympify(x) == 0)):
                    it.log("raise", node, exc="ValueError")  # math domain error
                    return BOTTOM
                if short == "log" and len(args) == 2:
                    return num(sp.log(x) / sp.log(A._sym(args[1])))
                fn = {"log": sp.log, "exp": sp.exp, "sqrt": sp.sqrt, "floor": sp.floor, "ceil": sp.ceiling}[short]
                return num(fn(x))
            if short == "log2":
                return num(sp.log(A._sym(args[0]), 2))
            if short == "pow":
                return num(sp.Pow(A._sym(args[0]), A._sym(args[1])))
            if short == "prod":
                from .builtins_model import BUILTINS

                return BUILTINS["prod"].fn(it, args, kwargs, node)
        except A.Unsupported:
            return Unknown(f"{name} of non-scalar")
    if name in ("typing.cast",):
        return args[1]
    if name in ("inspect.getfullargspec", "inspect.signature") and args and isinstance(args[0], FuncV) and name.endswith("signature"):
        args = [it.unwrap(args[0]), *args[1:]]  # inspect.signature follows __wrapped__
    if name == "inspect.unwrap" and args:
        return it.unwrap(args[0])
    if name == "inspect.getfullargspec" and args and isinstance(args[0], FuncV):
        fa = args[0].node.args
        names = [p.arg for p in fa.posonlyargs + fa.args]
        from .absint import Env

        defaults = tuple(it.eval(d, args[0].env or Env(None, {}), args[0].module) for d in fa.defaults) if fa.defaults else None
        return Obj("inspect.FullArgSpec", attrs={"args": names, "defaults": defaults, "varargs": fa.vararg.arg if fa.vararg else None, "varkw": fa.kwarg.arg if fa.kwarg else None, "kwonlyargs": [p.arg for p in fa.kwonlyargs]}, open_attrs=False)
    if name == "inspect.signature" and args and isinstance(args[0], FuncV):
        fa = args[0].node.args
        names = [p.arg for p in fa.posonlyargs + fa.args] + ([fa.vararg.arg] if fa.vararg else []) + [p.arg for p in fa.kwonlyargs] + ([fa.kwarg.arg] if fa.kwarg else [])
        params = {n: Obj("inspect.Parameter", attrs={"name": n}, open_attrs=False) for n in names}
        sig_ = Obj("inspect.Signature", attrs={"parameters": params}, open_attrs=False)
        fv_ = args[0]

        def _bind(it2, a, k, nd, partial_=False):
            """Signature.bind: map the call's arguments to parameter names, without defaults."""
            fa_ = fv_.node.args
            pos = [p.arg for p in fa_.posonlyargs + fa_.args]
            kwonly = [p.arg for p in fa_.kwonlyargs]
            argsd: Dict[str, Any] = {}
            if len(a) > len(pos) and not fa_.vararg:
                it2.log("raise", nd, exc="TypeError")
                return BOTTOM
            for p_, v_ in zip(pos, a):
                argsd[p_] = v_
            if fa_.vararg and len(a) > len(pos):
                argsd[fa_.vararg.arg] = tuple(a[len(pos):])
            extra = {}
            for k_, v_ in k.items():
                if k_ in argsd or (k_ not in pos and k_ not in kwonly and not fa_.kwarg):
                    it2.log("raise", nd, exc="TypeError")
                    return BOTTOM
                if k_ in pos or k_ in kwonly:
                    argsd[k_] = v_
                else:
                    extra[k_] = v_
            if extra:
                argsd[fa_.kwarg.arg] = extra
            n_def = len(fa_.defaults)
            required = pos[: len(pos) - n_def] + [p_ for p_, d_ in zip(kwonly, fa_.kw_defaults) if d_ is None]
            if not partial_ and any(r_ not in argsd for r_ in required):
                it2.log("raise", nd, exc="TypeError")
                return BOTTOM
            # keep the signature's parameter order, as BoundArguments.arguments does
            order = pos + ([fa_.vararg.arg] if fa_.vararg else []) + kwonly + ([fa_.kwarg.arg] if fa_.kwarg else [])
            arguments = {n_: argsd[n_] for n_ in order if n_ in argsd}
            ba = Obj("inspect.BoundArguments", attrs={"arguments": arguments, "signature": sig_}, open_attrs=False)

            def _args():
                out_ = []
                for p_ in pos:
                    if p_ not in arguments:
                        break
                    out_.append(arguments[p_])
                else:
                    if fa_.vararg:
                        out_.extend(arguments.get(fa_.vararg.arg, ()))
                return tuple(out_)

            def _kwargs():
                out_ = {}
                missing = False
                for p_ in pos:
                    if p_ not in arguments:
                        missing = True
                    elif missing:
                        out_[p_] = arguments[p_]
                for p_ in kwonly:
                    if p_ in arguments:
                        out_[p_] = arguments[p_]
                if fa_.kwarg:
                    out_.update(arguments.get(fa_.kwarg.arg, {}))
                return out_

            def _apply_defaults(it3, a3, k3, nd3):
                from .absint import Env

                dpos = pos[len(pos) - n_def:] if n_def else []
                newd = dict(arguments)
                for p_, d_ in zip(dpos, fa_.defaults):
                    if p_ not in newd:
                        newd[p_] = it3.eval(d_, fv_.env or Env(None, {}), fv_.module)
                for p_, d_ in zip(kwonly, fa_.kw_defaults):
                    if p_ not in newd and d_ is not None:
                        newd[p_] = it3.eval(d_, fv_.env or Env(None, {}), fv_.module)
                if fa_.vararg and fa_.vararg.arg not in newd:
                    newd[fa_.vararg.arg] = ()
                if fa_.kwarg and fa_.kwarg.arg not in newd:
                    newd[fa_.kwarg.arg] = {}
                arguments.clear()
                arguments.update({n_: newd[n_] for n_ in order if n_ in newd})
                return None

            ba.dyn["args"] = _args
            ba.dyn["kwargs"] = _kwargs
            ba.dyn["apply_defaults"] = lambda: A._Builtin("apply_defaults", _apply_defaults)
            return ba

        sig_.dyn["bind"] = lambda: A._Builtin("Signature.bind", _bind)
        sig_.dyn["bind_partial"] = lambda: A._Builtin("Signature.bind_partial", lambda it2, a, k, nd: _bind(it2, a, k, nd, True))
        return sig_
    if name == "inspect.getmembers" and args and hasattr(args[0], "info"):
        mi_ = args[0].info
        out = []
        for nm in sorted(mi_.names()):
            try:
                out.append((nm, mi_.get(nm)))
            except Exception:
                out.append((nm, Unknown("member")))
        return out
    if name == "inspect.getmodule" and args:
        from .values import ModV

        m_ = args[0]
        if isinstance(m_, (FuncV, ClassV)):
            return ModV(m_.module)
        if isinstance(m_, ModV):
            return m_
        if isinstance(m_, ExtV):
            return ExtV(m_.name.rsplit(".", 1)[0]) if "." in m_.name else m_
        return None
    if name == "itertools.zip_longest":
        seqs = [it.concrete_iter(a) for a in args]
        if any(x is None for x in seqs):
            raise A.Unsupported("zip_longest over non-concrete iterables")
        n = max(len(x) for x in seqs) if seqs else 0
        fill = kwargs.get("fillvalue")
        return [tuple(x[i] if i < len(x) else fill for x in seqs) for i in range(n)]
    if name == "builtins.object" and not args:
        return Obj("builtins.object", open_attrs=False)  # a fresh sentinel
    if name in ("typing.get_args", "typing_extensions.get_args") and args:
        if isinstance(args[0], Obj) and "__args__" in args[0].attrs:
            return args[0].attrs["__args__"]
        from .absint import Interp

        Interp.note_gap(f"typing.get_args of {fmt(args[0])}")
        return Unknown("typing.get_args")
    if name in ("typing.TypeVar", "typing.NewType", "typing.ParamSpec"):
        return ExtV(name + "()")
    if name in ("typing.get_origin", "typing.get_type_hints", "typing.overload", "typing.final"):
        from .absint import Interp

        Interp.note_gap(f"unmodelled library call {name}")
        return Unknown(name)
    if name.startswith("typing.") or name.startswith("collections.abc."):
        return ExtV(name)
    if name == "copy.deepcopy" and args and isinstance(args[0], (Obj, dict, list)):
        from .fxmodel import deepcopy_model

        memo_ = args[1] if len(args) > 1 else kwargs.get("memo")
        if memo_ is not None and not (isinstance(memo_, dict) and all(isinstance(k_, int) for k_ in memo_)):
            raise A.Unsupported("copy.deepcopy with a memo that cannot be evaluated")
        # (a caller-supplied memo maps id(original) -> the object to use in its place: entries are honoured)
        res = deepcopy_model(it, args[0], memo_)
        it.log("call", node, callee=name, args=args, kwargs=kwargs, bound={"x": args[0]}, result=A._term(res))
        return res
    if name in ("torch.fx.node.map_arg", "torch.fx.node.map_aggregate", "torch.fx.map_arg", "torch.fx.map_aggregate"):
        from .fxmodel import deep_map, is_node

        args = list(args)
        if len(args) < 1 and "a" in kwargs:
            args.append(kwargs["a"])
        if len(args) < 2 and "fn" in kwargs:
            args.append(kwargs["fn"])
        if len(args) < 2:
            raise A.Unsupported(f"{name} without its two arguments")
        fnv = args[1]
        if name.endswith("map_arg"):
            return deep_map(args[0], lambda n: it.call_function(fnv, [n], {}, node))

        def agg(a: Any) -> Any:
            if isinstance(a, tuple):
                return tuple(agg(x) for x in a)
            if isinstance(a, list):
                return [agg(x) for x in a]
            if isinstance(a, dict):
                return {k: agg(v) for k, v in a.items()}
            return it.call_function(fnv, [a], {}, node)

        return agg(args[0])
    if name == "math.isclose":
        from . import terms as TMX

        it.log("call", node, callee=name, args=args, kwargs=kwargs, bound=None, result=None)
        r = TMX.expr_equal(args[0], args[1]) if all(isinstance(a, (int, sp.Basic)) for a in args[:2]) else None
        return bool(r) if r is not None else False
    if name == "inspect.signature" and args and isinstance(args[0], Obj) and "_signature" in args[0].attrs:
        return Obj("inspect.Signature", attrs={"parameters": {n: Obj("inspect.Parameter", attrs={"name": n}, open_attrs=False) for n in args[0].attrs["_signature"]}}, open_attrs=False)
    if name == "inspect.signature" and args and isinstance(args[0], ExtV):
        sig = torchsig.SIGS.get(args[0].name, [])
        return Obj("inspect.Signature", attrs={"parameters": {n: Obj("inspect.Parameter", attrs={"name": n}, open_attrs=False) for n, _ in sig}}, open_attrs=False)
    if name == "functools.partial" and args:
        fn_, pre_a, pre_k = args[0], list(args[1:]), dict(kwargs)
        return A.PartialV(fn_, pre_a, pre_k)
    if name == "itertools.chain":
        out_ = []
        for a_ in args:
            seq = it.concrete_iter(a_)
            if seq is None:
                raise A.Unsupported("chain over a non-concrete iterable")
            out_ += seq
        from .values import OneShot

        return OneShot(out_)
    # ---- operator module (function forms of the operators, and the three callable factories)
    if name.startswith(("operator.", "_operator.")):
        import ast as _ast

        BIN = {"mul": _ast.Mult, "add": _ast.Add, "sub": _ast.Sub, "truediv": _ast.Div, "floordiv": _ast.FloorDiv, "mod": _ast.Mod, "pow": _ast.Pow, "matmul": _ast.MatMult}
        CMP = {"eq": _ast.Eq, "ne": _ast.NotEq, "lt": _ast.Lt, "le": _ast.LtE, "gt": _ast.Gt, "ge": _ast.GtE, "is_": _ast.Is, "is_not": _ast.IsNot}
        if short in BIN and len(args) == 2:
            return it.binop(BIN[short](), args[0], args[1], node)
        if short[:1] == "i" and short[1:] in BIN and len(args) == 2:
            return it.binop(BIN[short[1:]](), args[0], args[1], node, inplace=True)
        if short in CMP and len(args) == 2:
            return it.compare(CMP[short](), args[0], args[1], node)
        if short == "contains" and len(args) == 2:
            return it.compare(_ast.In(), args[1], args[0], node)
        if short == "neg" and len(args) == 1:
            return it.unop(_ast.USub(), args[0], node)
        if short == "not_" and len(args) == 1:
            return it.unop(_ast.Not(), args[0], node)
        if short == "truth" and len(args) == 1:
            return it.truth(args[0], node)
        if short == "getitem" and len(args) == 2:
            return it.getitem(args[0], args[1], node)
        if short == "call" and args:
            return it.call_function(args[0], list(args[1:]), kwargs, node)
        if short == "itemgetter" and args:
            keys = list(args)
            return A._Builtin("itemgetter", lambda it2, a, k, nd, keys=keys: it2.getitem(a[0], keys[0], nd) if len(keys) == 1 else tuple(it2.getitem(a[0], k_, nd) for k_ in keys))
        if short == "attrgetter" and args and all(isinstance(a_, str) for a_ in args):
            names_ = list(args)

            def _ag(it2, a, k, nd, names_=names_):
                def one(path):
                    v_ = a[0]
                    for part in path.split("."):
                        v_ = it2.lift(lambda x_, part=part: it2.getattr(x_, part, nd), v_)
                    return v_

                return one(names_[0]) if len(names_) == 1 else tuple(one(n_) for n_ in names_)

            return A._Builtin("attrgetter", _ag)
        if short == "methodcaller" and args and isinstance(args[0], str):
            mname, pre_a, pre_k = args[0], list(args[1:]), dict(kwargs)
            return A._Builtin("methodcaller", lambda it2, a, k, nd: it2.call_function(it2.lift(lambda x_: it2.getattr(x_, mname, nd), a[0]), pre_a, pre_k, nd))
    # ---- function spellings of the tensor operators (same folding / typestate as the operator forms)
    TORCH_BINOPS = {"torch.add": "Add", "torch.sub": "Sub", "torch.subtract": "Sub", "torch.mul": "Mult", "torch.multiply": "Mult", "torch.div": "Div", "torch.true_divide": "Div",
                    "torch.floor_divide": "FloorDiv", "torch.bitwise_and": "BitAnd", "torch.bitwise_or": "BitOr", "torch.bitwise_xor": "BitXor",
                    "torch.bitwise_left_shift": "LShift", "torch.bitwise_right_shift": "RShift", "torch.pow": "Pow", "torch.remainder": "Mod"}
    if name in TORCH_BINOPS and len(args) == 2 and not kwargs and name not in torchsig.SIGS and any(isinstance(a_, TV) and a_.const is not None for a_ in args):
        import ast as _ast

        return it.binop(getattr(_ast, TORCH_BINOPS[name])(), args[0], args[1], node)
    if name == "functools.reduce" and len(args) >= 2:
        seq = it.concrete_iter(args[1])
        if seq is None:
            raise A.Unsupported("reduce over a non-concrete iterable")
        seq = list(seq)
        if len(args) > 2:
            acc = args[2]
        elif seq:
            acc = seq.pop(0)
        else:
            it.log("raise", node, exc="TypeError")
            return A.BOTTOM
        for x_ in seq:
            acc = it.call_function(args[0], [acc, x_], {}, node)
            if acc is A.BOTTOM:
                return acc
        return acc
    if name == "itertools.chain.from_iterable" and args:
        outer = it.concrete_iter(args[0])
        if outer is None:
            raise A.Unsupported("chain.from_iterable over a non-concrete iterable")
        out_ = []
        for a_ in outer:
            seq = it.concrete_iter(a_)
            if seq is None:
                raise A.Unsupported("chain.from_iterable over a non-concrete iterable")
            out_ += seq
        from .values import OneShot

        return OneShot(out_)
    if name == "itertools.repeat" and args:
        from .values import OneShot, Repeat

        n_ = args[1] if len(args) > 1 else kwargs.get("times")
        if n_ is None:
            return Repeat(args[0])
        if isinstance(n_, int):
            return OneShot([args[0]] * n_)
    if name == "itertools.islice" and len(args) >= 2 and all(a_ is None or isinstance(a_, int) for a_ in args[1:]):
        from .values import OneShot

        seq = it.concrete_iter(args[0])
        if seq is None:
            raise A.Unsupported("islice over a non-concrete iterable")
        return OneShot(seq[slice(*args[1:])])
    if name == "itertools.filterfalse" and len(args) == 2:
        from .values import OneShot

        seq = it.concrete_iter(args[1])
        if seq is None:
            raise A.Unsupported("filterfalse over a non-concrete iterable")
        out_ = []
        for x_ in seq:
            t_ = it.truth(x_ if args[0] is None else it.call_function(args[0], [x_], {}, node), node)
            if t_ is False:
                out_.append(x_)
            elif t_ is not True:
                from .values import Maybe

                out_.append(Maybe(A._not(t_), x_))
        return OneShot(out_)
    if name == "itertools.starmap" and len(args) == 2:
        from .values import OneShot

        seq = it.concrete_iter(args[1])
        if seq is None:
            raise A.Unsupported("starmap over a non-concrete iterable")
        return OneShot([it.call_function(args[0], list(it.concrete_iter(x_) or ()), {}, node) for x_ in seq])
    if name == "itertools.accumulate" and args:
        from .values import OneShot

        seq = it.concrete_iter(args[0])
        if seq is None:
            raise A.Unsupported("accumulate over a non-concrete iterable")
        import ast as _ast

        fn_ = args[1] if len(args) > 1 else kwargs.get("func")
        out_, acc = [], kwargs.get("initial")
        if acc is not None:
            out_.append(acc)
        for x_ in seq:
            acc = x_ if acc is None and not out_ else (it.call_function(fn_, [acc, x_], {}, node) if fn_ is not None else it.binop(_ast.Add(), acc, x_, node))
            out_.append(acc)
        return OneShot(out_)
    if name == "itertools.product" and args and "repeat" not in kwargs:
        import itertools as _it
        from .values import OneShot

        seqs = [it.concrete_iter(a_) for a_ in args]
        if any(x_ is None for x_ in seqs):
            raise A.Unsupported("product over a non-concrete iterable")
        return OneShot(list(_it.product(*seqs)))
    if name == "itertools.pairwise" and args:
        from .values import OneShot

        seq = it.concrete_iter(args[0])
        if seq is None:
            raise A.Unsupported("pairwise over a non-concrete iterable")
        return OneShot(list(zip(seq, seq[1:])))
    if name == "collections.ChainMap":
        maps = list(args)
        if all(isinstance(m_, dict) for m_ in maps):
            merged: Dict[Any, Any] = {}
            for m_ in reversed(maps):
                merged.update(m_)
            return merged  # read-only use: first mapping wins
    if name == "collections.defaultdict":
        from .values import DefaultDictV
        from .builtins_model import BUILTINS

        d_ = DefaultDictV(BUILTINS["dict"].fn(it, args[1:], kwargs, node))
        d_.factory = args[0] if args else None
        return d_
    if name == "collections.Counter":
        from .values import DefaultDictV

        d_ = DefaultDictV()
        d_.is_counter = True
        if args:
            src = args[0]
            if isinstance(src, dict):
                d_.update(src)
            else:
                seq = it.concrete_iter(src)
                if seq is None or not all(A._hashable(x_) for x_ in seq):
                    raise A.Unsupported("Counter over non-concrete / unhashable elements")
                for x_ in seq:
                    d_[x_] = d_.get(x_, 0) + 1
        d_.update(kwargs)
        return d_
    if name in ("collections.OrderedDict", "collections.defaultdict") and not (name.endswith("defaultdict") and args and args[0] is not None):
        from .builtins_model import BUILTINS

        return BUILTINS["dict"].fn(it, args[1:] if name.endswith("defaultdict") else args, kwargs, node)
    if name == "types.new_class" and args:
        ns: Dict[str, Any] = {}
        body = kwargs.get("exec_body", args[3] if len(args) > 3 else None)
        if body is not None:
            it.call_function(body, [ns], {}, node)
        return it.dynamic_class(args[0], args[1] if len(args) > 1 else kwargs.get("bases", ()), ns, it.cur_mod)
    if name == "types.MethodType" and len(args) == 2:
        return Bound(args[0], args[1])
    if name == "dataclasses.fields" and args:
        c_ = args[0].cls if isinstance(args[0], Obj) else args[0]
        if isinstance(c_, A.ClassV):
            import ast as _ast

            return tuple(Obj("dataclasses.Field", attrs={"name": st.target.id}, open_attrs=False) for st in c_.node.body if isinstance(st, _ast.AnnAssign) and isinstance(st.target, _ast.Name))
    if name in ("dataclasses.asdict", "dataclasses.astuple") and args and isinstance(args[0], Obj) and args[0].cls is not None:
        import ast as _ast

        fs_ = [st.target.id for st in args[0].cls.node.body if isinstance(st, _ast.AnnAssign) and isinstance(st.target, _ast.Name)]
        return {f_: args[0].attrs.get(f_) for f_ in fs_} if name.endswith("asdict") else tuple(args[0].attrs.get(f_) for f_ in fs_)
    if name in ("operator.getitem", "_operator.getitem") and len(args) == 2 and not isinstance(args[0], (TV, Obj)):
        return it.getitem(args[0], args[1], node)
    if name in ("operator.mul", "operator.add", "operator.sub", "operator.truediv", "_operator.mul", "_operator.add") and len(args) == 2 and not any(isinstance(a_, (TV, Obj)) for a_ in args):
        import ast as _ast

        op_ = {"mul": _ast.Mult(), "add": _ast.Add(), "sub": _ast.Sub(), "truediv": _ast.Div()}[short]
        return it.binop(op_, args[0], args[1], node)
    if name == "dataclasses.replace" and args and isinstance(args[0], Obj):
        c = Obj(args[0].cls_name, cls=args[0].cls, open_attrs=args[0].open_attrs)
        c.attrs.update(args[0].attrs)
        c.attrs.update(kwargs)
        return c
    if name == "collections.deque":
        seq = it.concrete_iter(args[0]) if args else []
        if seq is None:
            raise A.Unsupported("deque of a non-concrete iterable")
        return list(seq)
    if name == "copy.copy" and args and isinstance(args[0], Obj) and args[0].term is None:
        src = args[0]
        c = Obj(src.cls_name, cls=src.cls, open_attrs=src.open_attrs)
        c.attrs.update(src.attrs)  # shallow: attribute values (lists, children, tensors) are shared
        it.log("call", node, callee=name, args=args, kwargs=kwargs, bound={"x": src}, result=A._term(c))
        return c
    if name == "copy.deepcopy" or name == "copy.copy":
        src = args[0]
        term = T("call", (name, (("x", A._term(src)),)))
        it.log("call", node, callee=name, args=args, kwargs=kwargs, bound={"x": src}, result=term)
        if isinstance(src, TV):
            return TV(term, shape=src.shape, dtype=src.dtype, kind=src.kind)
        return Obj(getattr(src, "cls_name", "object"), cls=getattr(src, "cls", None), term=term)
    if name in ("torch.finfo", "torch.iinfo") and args:
        dt = canon_dtype(args[0])
        table = {
            "torch.float32": dict(eps=sp.Rational(1, 2**23), tiny=sp.Rational(1, 2**126), max=(2 - sp.Rational(1, 2**23)) * 2**127, bits=32),
            "torch.float64": dict(eps=sp.Rational(1, 2**52), tiny=sp.Rational(1, 2**1022), max=(2 - sp.Rational(1, 2**52)) * 2**1023, bits=64),
            "torch.float16": dict(eps=sp.Rational(1, 2**10), tiny=sp.Rational(1, 2**14), max=sp.Integer(65504), bits=16),
            "torch.bfloat16": dict(eps=sp.Rational(1, 2**7), tiny=sp.Rational(1, 2**126), max=(2 - sp.Rational(1, 2**7)) * 2**127, bits=16),
        }
        if dt in table:
            d_ = dict(table[dt])
            d_["min"] = -d_["max"]
            d_["smallest_normal"] = d_["tiny"]
            return Obj("torch.finfo", attrs=d_, open_attrs=False)
    if name == "torch.Size":
        s = it.concrete_iter(args[0]) if args else []
        return Shape(tuple(s)) if s is not None else Unknown("Size")
    if name == "torch.broadcast_shapes":
        if all(isinstance(s, (tuple, Shape)) for s in args):
            try:
                return broadcast(*[Shape(tuple(s)) for s in args])
            except ValueError as e:
                it.log("raise", node, exc=f"RuntimeError(broadcast: {e})")
                return BOTTOM
        return Unknown("broadcast_shapes of unknown shapes")
    if name == "torch.stack" and args and isinstance(args[0], (list, tuple)) and args[0] and all(isinstance(e_, TV) and e_.kind == "tensor" for e_ in args[0]) and (len(args) == 1 or args[1] == 0) and kwargs.get("dim", 0) == 0:
        term_ = T("call", (name, (("tensors", tuple(A._term(e_) for e_ in args[0])),)))
        out_ = TV(term_, shape=None)
        out_.elems = list(args[0])  # type: ignore[attr-defined]
        it.log("call", node, callee=name, args=args, kwargs=kwargs, bound=None, result=term_)
        return out_
    if name == "torch.tensor":
        x = args[0] if args else kwargs.get("data")
        dt = canon_dtype(kwargs.get("dtype")) if "dtype" in kwargs else None
        if isinstance(x, (int, sp.Basic)) and not isinstance(x, bool):
            if dt is None and "dtype" not in kwargs and (isinstance(x, int) or getattr(x, "is_integer", False) or (isinstance(x, sp.Basic) and x.is_integer is not False and not x.atoms(sp.Float) and x.free_symbols and all(s_.is_integer for s_ in x.free_symbols))):
                dt = "torch.int64"  # torch.tensor(<python int>) is a 0-d int64 tensor
            return TV(T("tensor", (num(x),)), const=num(x), dtype=dt, shape=Shape(()))
        if isinstance(x, TV) and x.kind == "tensor":
            return TV(T("tensor", (x.term,)), dtype=dt, shape=x.shape)
        return TV(T("tensor", (A._term(x),)), dtype=dt)
    if name.startswith("torch.nn.Parameter.") or name.startswith("torch._utils._rebuild_parameter"):
        # constructors / copiers of parameter objects: a fresh Parameter with an empty __dict__
        # (nn.Parameter.__deepcopy__ does not copy instance attributes: trusted fact about torch)
        term = T("call", (name, tuple((str(i), A._term(a)) for i, a in enumerate(args)) + tuple(sorted((k, A._term(v)) for k, v in kwargs.items()))))
        it.log("call", node, callee=name, args=args, kwargs=kwargs, bound=None, result=term)
        return Obj("torch.nn.Parameter", term=term)
    if name == "torch._utils._get_obj_state" and args and isinstance(args[0], Obj):
        return args[0].attrs  # the live instance __dict__ (object.__getstate__ on python >= 3.11)
    if name in ("collections.OrderedDict", "typing.OrderedDict") and not args:
        return dict(kwargs)
    if name in ("torch.nn.Parameter", "torch.nn.parameter.Parameter"):
        term = T("call", (name, tuple((str(i), A._term(a)) for i, a in enumerate(args))))
        it.log("call", node, callee=name, args=args, kwargs=kwargs, bound=None, result=term)
        return Obj("torch.nn.Parameter", term=term)
    # ---- generic external call
    if name.split(".")[0] in GAP_NAMESPACES and name not in GAP_EXEMPT and not any(isinstance(a, Unknown) for a in list(args) + list(kwargs.values())):
        from .absint import Interp

        Interp.note_gap(f"unmodelled library call {name}")
    bound = _bind_ext(name, args, kwargs)
    if bound is not None:
        targs = tuple((k, A._term(v)) for k, v in bound.items())
    else:
        targs = tuple((str(i), A._term(a)) for i, a in enumerate(args)) + tuple(sorted((k, A._term(v)) for k, v in kwargs.items()))
    term = T("call", (name, targs))
    it.log("call", node, callee=name, args=args, kwargs=kwargs, bound=bound, result=term)
    is_torch = name.startswith("torch.") or any(isinstance(a, TV) and a.kind == "tensor" for a in list(args) + list(kwargs.values()))
    out = kwargs.get("out")
    if isinstance(out, TV):
        it.log("inplace", node, target=out, op=f"{name}(out=)", alias=out.alias)
    if short.endswith("_") and not short.endswith("__") and args and isinstance(args[0], TV):
        it.log("inplace", node, target=args[0], op=name, alias=args[0].alias)
    if name.startswith("builtins.") and short.endswith(("Error", "Exception")):
        return Obj(name, term=term)
    if is_torch and not name.startswith(("torch.fx.", "torch._dynamo", "torch.nn.Module", "torch.optim")):
        shape = None
        dtype = None
        first = next((a for a in args if isinstance(a, TV) and a.kind == "tensor"), None)
        if short in ("clip", "clamp", "dropout", "gelu", "silu", "sigmoid", "softmax", "relu", "tanh", "layer_norm", "rms_norm", "abs", "neg") and first is not None:
            shape, dtype = first.shape, first.dtype
        if short == "randint":
            sz = bound.get("size") if bound else None
            shape = Shape(tuple(sz)) if isinstance(sz, (tuple, list)) else None
            dtype = canon_dtype(kwargs.get("dtype"))
        if short in ("zeros", "ones", "empty", "full", "randn", "rand", "eye", "linspace", "logspace") and name.count(".") == 1:
            # factory functions: the dtype argument, else the process-wide default dtype
            dtype = canon_dtype(kwargs.get("dtype")) if kwargs.get("dtype") is not None else "default"
        if short.endswith("_like") and first is not None and kwargs.get("dtype") is None:
            dtype = first.dtype if first.dtype is not None else ("same", first.term)
        return TV(term, shape=shape, dtype=dtype)
    return Obj(name, term=term)
