"""Operations on dataflow terms: γ-leaf enumeration, scale-node peeling, substitution,
normalisation and closed-form equality."""
from __future__ import annotations

from typing import Any, Callable, Dict, Iterator, List, Optional, Tuple

import sympy as sp

from .values import BOTTOM, Gamma, Obj, T, TV, Unknown, fmt, num


def term_of(v: Any) -> Any:
    from .absint import _term

    return _term(v)


def leaves(v: Any, guard: Tuple[Tuple[Any, bool], ...] = ()) -> Iterator[Tuple[Tuple[Tuple[Any, bool], ...], Any]]:
    """Enumerate (guard, leaf) of a γ-tree value (also γ-terms inside T('gamma'))."""
    if isinstance(v, Gamma):
        yield from leaves(v.a, guard + ((v.cond, True),))
        yield from leaves(v.b, guard + ((v.cond, False),))
    elif isinstance(v, T) and v.op == "gamma":
        c, a, b = v.args
        yield from leaves(a, guard + ((c, True),))
        yield from leaves(b, guard + ((c, False),))
    else:
        yield guard, v


def expand_gammas(t: Any, guard: Tuple[Tuple[Any, bool], ...] = ()) -> List[Tuple[Tuple[Tuple[Any, bool], ...], Any]]:
    """All γ-free instances of a term (γ-nodes may sit anywhere inside it)."""
    pos = _find_gamma(t)
    if pos is None:
        return [(guard, t)]
    c, a, b = pos
    for gc, pol in guard:
        if _eq(gc, c):
            return expand_gammas(_replace_gamma(t, c, a if pol else b), guard)
    out = []
    out += expand_gammas(_replace_gamma(t, c, a), guard + ((c, True),))
    out += expand_gammas(_replace_gamma(t, c, b), guard + ((c, False),))
    return out


def _eq(a: Any, b: Any) -> bool:
    try:
        return bool(a == b)
    except Exception:
        return a is b


def _find_gamma(t: Any) -> Optional[Tuple[Any, Any, Any]]:
    if isinstance(t, T):
        if t.op == "gamma":
            return t.args  # type: ignore[return-value]
        for a in t.args:
            r = _find_gamma(a)
            if r is not None:
                return r
    elif isinstance(t, tuple):
        for a in t:
            r = _find_gamma(a)
            if r is not None:
                return r
    return None


def _replace_gamma(t: Any, c: Any, repl: Any) -> Any:
    if isinstance(t, T):
        if t.op == "gamma" and _eq(t.args[0], c):
            # choose the same arm everywhere this condition occurs
            return repl if (t.args[1] == repl or t.args[2] == repl) else t
        return T(t.op, tuple(_replace_gamma(a, c, repl) for a in t.args))
    if isinstance(t, tuple):
        return tuple(_replace_gamma(a, c, repl) for a in t)
    return t


def choose(t: Any, c: Any, pol: bool) -> Any:
    """Resolve every γ on condition c to the given polarity."""
    if isinstance(t, T):
        if t.op == "gamma" and _eq(t.args[0], c):
            return choose(t.args[1] if pol else t.args[2], c, pol)
        return T(t.op, tuple(choose(a, c, pol) for a in t.args))
    if isinstance(t, tuple):
        return tuple(choose(a, c, pol) for a in t)
    return t


def instances(t: Any, guard: Tuple[Tuple[Any, bool], ...] = ()) -> List[Tuple[Tuple[Tuple[Any, bool], ...], Any]]:
    pos = _find_gamma(t)
    if pos is None:
        return [(guard, t)]
    c = pos[0]
    for gc, pol in guard:
        if _eq(gc, c):
            return instances(choose(t, c, pol), guard)
    return instances(choose(t, c, True), guard + ((c, True),)) + instances(choose(t, c, False), guard + ((c, False),))


def walk(t: Any) -> Iterator[Any]:
    yield t
    if isinstance(t, T):
        for a in t.args:
            yield from walk(a)
    elif isinstance(t, tuple):
        for a in t:
            yield from walk(a)


def tmap(fn: Callable[[Any], Any], t: Any) -> Any:
    """Bottom-up map over a term."""
    if isinstance(t, T):
        return fn(T(t.op, tuple(tmap(fn, a) for a in t.args)))
    if isinstance(t, tuple):
        return tuple(tmap(fn, a) for a in t)
    return fn(t)


def subst(t: Any, mapping: Dict[Any, Any]) -> Any:
    def f(x: Any) -> Any:
        if isinstance(x, sp.Basic):
            try:
                return num(x.subs(mapping))
            except Exception:
                return x
        return x

    return tmap(f, t)


def strip_scales(t: Any) -> Any:
    def f(x: Any) -> Any:
        if isinstance(x, T) and x.op == "scale":
            return x.args[0]
        return x

    return tmap(f, t)


def normalize(t: Any) -> Any:
    """x*1, x/1, 1*x -> x; canonical numerics."""

    def f(x: Any) -> Any:
        if isinstance(x, T):
            if x.op in ("mul",):
                a, b = x.args
                if _is_one(b):
                    return a
                if _is_one(a):
                    return b
            if x.op in ("div",) and _is_one(x.args[1]):
                return x.args[0]
            if x.op == "call":
                name, bound = x.args
                return T("call", (name, tuple(sorted(bound, key=lambda kv: str(kv[0])))))
            if x.op == "method" and len(x.args) == 4 and x.args[0] == "to" and isinstance(x.args[3], tuple) and any(isinstance(kv, tuple) and len(kv) == 2 and kv[0] == "dtype" for kv in x.args[3]) and not x.args[2]:
                # t.to(dtype=d) == t.to(d)
                kd = dict(x.args[3])
                rest = tuple(kv for kv in x.args[3] if kv[0] != "dtype")
                return T("method", ("to", x.args[1], (kd["dtype"],), rest))
        if isinstance(x, sp.Basic):
            try:
                return num(sp.simplify(x))
            except Exception:
                return x
        if isinstance(x, float):
            return num(x)
        return x

    return tmap(f, t)


def _is_one(x: Any) -> bool:
    if isinstance(x, (int, float)) and not isinstance(x, bool):
        return x == 1
    if isinstance(x, sp.Basic):
        return x == 1
    return False


def peel_output(t: Any) -> Tuple[List[Any], List[Any], Any]:
    """Strip scale nodes at the root: (fwd factors, bwd factors, core)."""
    fw, bw = [], []
    while isinstance(t, T) and t.op == "scale":
        inner, f, b = t.args
        fw.append(f)
        bw.append(b)
        t = inner
    return fw, bw, t


def operand_scales(core: Any) -> Dict[str, List[Tuple[Any, Any, Tuple[str, ...]]]]:
    """For every parameter leaf below `core`: the (fwd product, bwd product, ops on the
    way) of each occurrence."""
    out: Dict[str, List[Tuple[Any, Any, Tuple[str, ...]]]] = {}

    def rec(t: Any, f: Any, b: Any, ops: Tuple[str, ...], in_scale_arg: bool) -> None:
        if isinstance(t, T):
            if t.op == "scale":
                inner, sf, sb = t.args
                # fwd factor 1 => a backward-only application (its bwd factor may itself be 1)
                kind = "scale:" + ("b" if _is_one(sf) else ("f" if _is_one(sb) else "fb"))
                rec(inner, _mul(f, sf), _mul(b, sb), ops + (kind,), in_scale_arg)
                return
            if t.op == "param":
                out.setdefault(t.args[0], []).append((f, b, ops))
                return
            label = t.op
            if t.op == "call":
                label = "call:" + str(t.args[0])
            elif t.op == "method":
                label = "method:" + str(t.args[0])
            for a in t.args:
                rec(a, 1, 1, ops + (label,), in_scale_arg) if (f == 1 and b == 1) else rec(a, f, b, ops + (label,), in_scale_arg)
        elif isinstance(t, tuple):
            for a in t:
                rec(a, f, b, ops, in_scale_arg)

    rec(core, 1, 1, (), False)
    return out


def _mul(a: Any, b: Any) -> Any:
    if isinstance(a, (T, Unknown)) or isinstance(b, (T, Unknown)):
        if _is_one(a):
            return b
        if _is_one(b):
            return a
        return T("mul", (a, b))
    return num(sp.sympify(a) * sp.sympify(b))


def product(xs: List[Any]) -> Any:
    r: Any = 1
    for x in xs:
        r = _mul(r, x)
    return r


PRIMES = [7, 11, 13, 17, 19, 23, 29, 31, 37, 41, 43, 47, 53, 59, 61, 67, 71, 73, 79, 83]


FINITE_DOMAINS: Dict[Any, Any] = {}  # symbol -> iterable of all its values (set by a rule)


def _finite_assignments(syms: Any, limit: int = 6000):
    import itertools

    syms = list(syms)
    if not syms or any(s not in FINITE_DOMAINS for s in syms):
        return None
    doms = [list(FINITE_DOMAINS[s]) for s in syms]
    n = 1
    for d in doms:
        n *= len(d)
    if n > limit:
        return None
    return [dict(zip(syms, vals)) for vals in itertools.product(*doms)]


def finite_equal(x: Any, y: Any) -> Optional[bool]:
    """Exhaustive exact comparison when every free symbol has a declared finite domain."""
    x, y = sp.sympify(x), sp.sympify(y)
    asg = _finite_assignments(sorted(x.free_symbols | y.free_symbols, key=lambda s: s.name))
    if asg is None:
        return None
    for m in asg:
        try:
            if sp.simplify(x.subs(m) - y.subs(m)) != 0:
                return False
        except Exception:
            return None
    return True


def guards_equivalent(g1: Any, g2: Any) -> Optional[bool]:
    """Same truth table over the declared finite domains (guards are conjunctions)."""
    conds = [c for c, _ in g1] + [c for c, _ in g2]
    syms = set()
    for c in conds:
        if not isinstance(c, sp.Basic):
            return None
        syms |= c.free_symbols
    asg = _finite_assignments(sorted(syms, key=lambda s: s.name))
    if asg is None:
        return None

    def val(g, m):
        return all(bool(c.subs(m)) == pol for c, pol in g)

    try:
        return all(val(g1, m) == val(g2, m) for m in asg)
    except Exception:
        return None


def expr_equal(a: Any, b: Any) -> Optional[bool]:
    """True / False / None(undecided) for closed-form scalar expressions."""
    r = _expr_equal(a, b)
    if r is None and FINITE_DOMAINS and not isinstance(a, (T, Unknown, Gamma)) and not isinstance(b, (T, Unknown, Gamma)):
        try:
            return finite_equal(a, b)
        except Exception:
            return None
    return r


def _expr_equal(a: Any, b: Any) -> Optional[bool]:
    if isinstance(a, (T, Unknown, Gamma)) or isinstance(b, (T, Unknown, Gamma)):
        if isinstance(a, T) and isinstance(b, T):
            return True if normalize(a) == normalize(b) else None
        return None
    try:
        x, y = sp.sympify(a), sp.sympify(b)
    except Exception:
        return None
    from sympy.core.relational import Relational as _Rel
    from sympy.logic.boolalg import BooleanAtom as _BAtom, BooleanFunction as _BFunc

    # (a sympy Symbol is itself a Boolean: only relations, connectives and true/false count here)
    _B = (_Rel, _BFunc, _BAtom)
    if isinstance(x, _B) or isinstance(y, _B):
        # conditions (γ-guards inside a term): equal when structurally equal or provably equivalent
        if x == y:
            return True
        try:
            eqv = sp.simplify(sp.Equivalent(x, y))
            return True if eqv is sp.true else (False if eqv is sp.false else None)
        except Exception:
            return None
    syms = sorted((x.free_symbols | y.free_symbols), key=lambda s: s.name)
    if syms and all(s_ in FINITE_DOMAINS for s_ in syms):
        # every symbol ranges over a declared finite domain: compare exactly on that domain (sampling
        # outside it is meaningless and, with towers of powers, can take for ever)
        try:
            if x == y:
                return True
            return finite_equal(x, y)
        except Exception:
            return None
    try:
        d = sp.simplify(x - y)
        if d == 0:
            return True
        if y != 0:
            r = sp.simplify(x / y)
            if r == 1:
                return True
    except Exception:
        d = x - y
    # numeric refutation at distinct primes (exact evaluation of the extracted form)
    agree = 0
    tried = 0
    for shift in range(8):
        m = {}
        for i, s in enumerate(syms):
            p = PRIMES[(i + 3 * shift) % len(PRIMES)]
            if s in FINITE_DOMAINS:
                dom = list(FINITE_DOMAINS[s])
                m[s] = sp.Integer(dom[(i + 3 * shift) % len(dom)])
            elif s.is_integer:
                m[s] = p
            else:
                q = PRIMES[(i + shift + 5) % len(PRIMES)]
                # sample both sides of 1 (piecewise forms such as min(x, 1/x)) and, for the last two
                # rounds, very small / very large magnitudes (clamps such as max(x, eps))
                if shift == 6:
                    m[s] = sp.Rational(p, q * 10**12)
                elif shift == 7:
                    m[s] = sp.Rational(p * 10**12, q)
                else:
                    m[s] = sp.Rational(p, q) if shift % 2 == 0 else sp.Rational(max(p, q) * 3, min(p, q))
        try:
            vx = sp.N(x.subs(m), 40)
            vy = sp.N(y.subs(m), 40)
            if vx.is_number and vy.is_number and vx.is_finite and vy.is_finite:
                tried += 1
                if abs(vx - vy) > sp.Float("1e-25") * (1 + abs(vx) + abs(vy)):
                    return False
                agree += 1
        except Exception:
            continue
    agree = 3 if (agree == tried and tried >= 3) else 0
    if agree == 3:
        try:
            if sp.simplify(sp.expand_log(sp.log(x) - sp.log(y), force=True)) == 0:
                return True
        except Exception:
            pass
        return None
    return None


def guard_substitution(guard: Tuple[Tuple[Any, bool], ...]) -> Dict[Any, Any]:
    """Equalities sym == const asserted by a guard, as a substitution."""
    m: Dict[Any, Any] = {}
    for c, pol in guard:
        if (pol and isinstance(c, sp.Equality)) or (not pol and isinstance(c, sp.Unequality)):
            l, r = c.lhs, c.rhs
            if l.is_Symbol and not r.free_symbols:
                m[l] = r
            elif r.is_Symbol and not l.free_symbols:
                m[r] = l
    return m


def guard_str(guard: Tuple[Tuple[Any, bool], ...]) -> str:
    if not guard:
        return "always"
    return " & ".join((("" if pol else "not ") + fmt(c)) for c, pol in guard)


COMMUTATIVE = {"add", "mul"}


def term_equal(a: Any, b: Any) -> Optional[bool]:
    """Structural equality of γ-free terms, sympy leaves compared with expr_equal,
    keyword-bound call arguments compared by name, add/mul commutative."""
    if isinstance(a, T) and isinstance(b, T):
        if a.op != b.op:
            return False
        if a.op == "call":
            (na, ba), (nb, bb) = a.args, b.args
            if na != nb:
                return False
            da, db = dict(ba), dict(bb)
            if set(da) != set(db):
                return False
            res: Optional[bool] = True
            for k in da:
                r = term_equal(da[k], db[k])
                if r is False:
                    return False
                if r is None:
                    res = None
            return res
        if len(a.args) != len(b.args):
            return False
        r1 = _seq_equal(a.args, b.args)
        if r1 is True:
            return True
        if a.op in COMMUTATIVE and len(a.args) == 2:
            r2 = _seq_equal(a.args, tuple(reversed(b.args)))
            if r2 is True:
                return True
            if r1 is None or r2 is None:
                return None
        return r1
    if isinstance(a, tuple) and isinstance(b, tuple):
        if len(a) != len(b):
            return False
        return _seq_equal(a, b)
    if isinstance(a, (T, tuple)) or isinstance(b, (T, tuple)):
        return False
    if isinstance(a, sp.Basic) or isinstance(b, sp.Basic) or (isinstance(a, (int, float)) and isinstance(b, (int, float)) and not isinstance(a, bool) and not isinstance(b, bool)):
        if isinstance(a, (str, type(None), bool)) or isinstance(b, (str, type(None), bool)):
            return a is b or (type(a) == type(b) and a == b)
        return expr_equal(a, b)
    return type(a) == type(b) and a == b


def _seq_equal(xs: Any, ys: Any) -> Optional[bool]:
    res: Optional[bool] = True
    for x, y in zip(xs, ys):
        r = term_equal(x, y)
        if r is False:
            return False
        if r is None:
            res = None
    return res


def first_diff(a: Any, b: Any, path: str = "") -> str:
    """Human-readable location of the first difference between two terms."""
    if isinstance(a, T) and isinstance(b, T):
        if a.op != b.op:
            return f"{path or 'root'}: {a.op} vs {b.op}"
        if a.op == "call":
            (na, ba), (nb, bb) = a.args, b.args
            if na != nb:
                return f"{path or 'root'}: call {na} vs {nb}"
            da, db = dict(ba), dict(bb)
            for k in sorted(set(da) | set(db), key=str):
                if k not in da or k not in db:
                    return f"{path}/{na}: argument '{k}' only on one side"
                if term_equal(da[k], db[k]) is not True:
                    return first_diff(da[k], db[k], f"{path}/{na}.{k}")
            return ""
        for i, (x, y) in enumerate(zip(a.args, b.args)):
            if term_equal(x, y) is not True:
                return first_diff(x, y, f"{path}/{a.op}[{i}]")
        return ""
    if term_equal(a, b) is not True:
        return f"{path or 'root'}: {fmt(a)} vs {fmt(b)}"
    return ""


def none_facts(guard: Tuple[Tuple[Any, bool], ...]) -> Dict[Any, Any]:
    """Terms a guard asserts to be None:  (is(t, None), True)  or  (not(is(t, None)), False)."""
    m: Dict[Any, Any] = {}
    for c, pol in guard:
        if isinstance(c, T) and c.op == "is" and len(c.args) == 2 and c.args[1] is None and pol:
            m[c.args[0]] = None
        if isinstance(c, T) and c.op == "not" and isinstance(c.args[0], T) and c.args[0].op == "is" and c.args[0].args[1] is None and not pol:
            m[c.args[0].args[0]] = None
    return m


def replace_terms(t: Any, mapping: Dict[Any, Any]) -> Any:
    if not mapping:
        return t

    def f(x: Any) -> Any:
        try:
            if x in mapping:
                return mapping[x]
        except TypeError:
            pass
        return x

    return tmap(f, t)
