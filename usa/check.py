#!/venv/bin/python
"""CLI: usa/check.py <property-id> [--tier quick|thorough] [--replay path]"""
from __future__ import annotations

import argparse
import importlib
import os
import sys
from pathlib import Path

sys.path.insert(0, str(Path(__file__).resolve().parent.parent))

from usa.core import run_check  # noqa: E402


def main() -> int:
    ap = argparse.ArgumentParser()
    ap.add_argument("prop")
    ap.add_argument("--tier", default=os.environ.get("VERIF_TIER", "quick"))
    ap.add_argument("--replay", default=None)
    ns = ap.parse_args()
    seed = int(os.environ.get("VERIF_SEED", "0") or 0)
    tier = ns.tier if ns.tier in ("quick", "thorough") else "quick"
    try:
        mod = importlib.import_module(f"usa.rules.{ns.prop.lower()}")
    except ModuleNotFoundError:
        print(f"ANALYSIS-ERROR property={ns.prop} no rule module")
        return 2
    if ns.replay:
        import json

        info = json.loads(Path(ns.replay).read_text())
        print(f"replaying {info.get('rule')} at {info.get('construct')}: re-running all rules of {ns.prop}")
    prop = ns.prop.upper()

    def check_with_selftest_and_seeds(report, repo):
        check_with_selftest(report, repo)
        if os.environ.get("USA_REPO_ROOT"):
            return
        # independently produced changes stored under /verif/seeded: those this property's check is
        # recorded to catch must still be caught (applied to a scratch copy of the current tree)
        import json
        import shutil
        import subprocess
        import tempfile

        verif = Path(__file__).resolve().parent.parent
        for meta_f in sorted((verif / "seeded").glob("*/meta.json")):
            meta = json.loads(meta_f.read_text())
            if prop not in meta.get("detected_by", {}):
                continue
            tmp = Path(tempfile.mkdtemp(prefix="usa-seeded-"))
            try:
                shutil.copytree(repo.root / "unit_scaling", tmp / "unit_scaling", ignore=shutil.ignore_patterns("__pycache__", "tests"))
                subprocess.run(["git", "init", "-q"], cwd=tmp)
                r = subprocess.run(["git", "apply", "--whitespace=nowarn", "--exclude=unit_scaling/tests/*", str(meta_f.parent / "patch.diff")], cwd=tmp, capture_output=True, text=True)
                if r.returncode != 0:
                    report.note("seeded_stale_" + meta["id"], "patch no longer applies to the current tree")
                    continue
                env = dict(os.environ, USA_REPO_ROOT=str(tmp), USA_EVIDENCE_DIR=str(tmp / "ev"))
                c = subprocess.run([sys.executable, str(verif / "usa" / "check.py"), prop, "--tier", "quick"], capture_output=True, text=True, env=env, cwd=str(verif))
                report.add("S-seeded", f"seeded::{meta['id']}", True if c.returncode == 1 else None, f"independently produced change {meta['id']} ({meta.get('summary', '')[:120]}) is reported by this check" if c.returncode == 1 else f"seeded change {meta['id']} is no longer reported (exit {c.returncode})", f"exit {c.returncode}", "exit 1", nontrivial=False)
            finally:
                shutil.rmtree(tmp, ignore_errors=True)
        # independently produced behaviour-preserving refactorings: this check must stay silent on each
        from concurrent.futures import ThreadPoolExecutor

        def run_refactor(meta_f):
            meta = json.loads(meta_f.read_text())
            tmp = Path(tempfile.mkdtemp(prefix="usa-refactor-"))
            try:
                shutil.copytree(repo.root / "unit_scaling", tmp / "unit_scaling", ignore=shutil.ignore_patterns("__pycache__", "tests"))
                subprocess.run(["git", "init", "-q"], cwd=tmp)
                r = subprocess.run(["git", "apply", "--whitespace=nowarn", str(meta_f.parent / "patch.diff")], cwd=tmp, capture_output=True, text=True)
                if r.returncode != 0:
                    return (meta["id"], None, "patch no longer applies")
                env = dict(os.environ, USA_REPO_ROOT=str(tmp), USA_EVIDENCE_DIR=str(tmp / "ev"))
                c = subprocess.run([sys.executable, str(verif / "usa" / "check.py"), prop, "--tier", "quick"], capture_output=True, text=True, env=env, cwd=str(verif))
                first = next((l.strip() for l in c.stdout.splitlines() if l.strip().startswith(("violated", "ANALYSIS-ERROR"))), "")
                return (meta["id"], c.returncode, first[:300])
            finally:
                shutil.rmtree(tmp, ignore_errors=True)

        with ThreadPoolExecutor(8) as ex:
            for rid, rc, msg in ex.map(run_refactor, sorted((verif / "refactors").glob("*/meta.json"))):
                if rc is None:
                    report.note("refactor_stale_" + rid, msg)
                    continue
                report.add("S-refactor", f"refactor::{rid}", True if rc == 0 else None, f"behaviour-preserving refactoring {rid}: the check stays silent" if rc == 0 else f"the check is not silent on behaviour-preserving refactoring {rid} (exit {rc}): {msg}", f"exit {rc}", "exit 0", nontrivial=False)

    def check_with_selftest(report, repo):
        mod.check(report, repo)
        if tier == "thorough" and not os.environ.get("USA_REPO_ROOT"):
            # checker self-validation (DESIGN.md section 6) on scratch copies of the current tree:
            # seeded violations must fire naming the construct, behaviour-preserving rewrites must stay silent
            from usa.selftest.run import run_all

            res = run_all(only={prop})
            stale = [r for r in res if r[1] == "STALE"]
            res = [r for r in res if r[1] != "STALE"]
            bad = [r for r in res if r[1] != "ok"]
            report.note("selftest_variants", len(res))
            report.note("selftest_stale_skipped", [r[0] for r in stale])  # edit anchor no longer present in the tree
            report.note("selftest_failures", [f"{r[0]}: {r[1]} {r[2]}" for r in bad])
            for r in res:
                report.add("S-selftest", f"selftest::{r[0]}", True if r[1] == "ok" else None, ("checker self-validation variant behaves as expected" if r[1] == "ok" else f"checker self-validation failed ({r[1]}): {r[2]}"), r[1], "ok", nontrivial=False)

    # wall-clock budget: an analysis that does not finish is reported as undecided (exit 2), never left hanging
    import signal

    budget = int(os.environ.get("USA_TIME_BUDGET_S", "900" if tier == "quick" else "7200"))

    def on_alarm(signum, frame):  # noqa: ARG001
        print(f"ANALYSIS-ERROR property={prop} analysis exceeded its time budget of {budget}s (undecided)")
        sys.stdout.flush()
        os._exit(2)

    try:
        signal.signal(signal.SIGALRM, on_alarm)
        signal.alarm(budget)
    except Exception:
        pass
    return run_check(prop, check_with_selftest_and_seeds if tier == "thorough" else check_with_selftest, tier, seed)


if __name__ == "__main__":
    rc = main()
    sys.stdout.flush()
    os._exit(rc)
