#!/venv/bin/python
"""CLI: usa/check.py <property-id> [--tier quick|thorough] [--replay path]"""
from __future__ import annotations

import argparse
import importlib
import os
import sys
from pathlib import Path

sys.path.insert(0, str(Path(__file__).resolve().parent.parent))

from usa.core import run_check  # noqa: E402


def main() -> int:
    ap = argparse.ArgumentParser()
    ap.add_argument("prop")
    ap.add_argument("--tier", default=os.environ.get("VERIF_TIER", "quick"))
    ap.add_argument("--replay", default=None)
    ns = ap.parse_args()
    seed = int(os.environ.get("VERIF_SEED", "0") or 0)
    tier = ns.tier if ns.tier in ("quick", "thorough") else "quick"
    try:
        mod = importlib.import_module(f"usa.rules.{ns.prop.lower()}")
    except ModuleNotFoundError:
        print(f"ANALYSIS-ERROR property={ns.prop} no rule module")
        return 2
    if ns.replay:
        import json

        info = json.loads(Path(ns.replay).read_text())
        print(f"replaying {info.get('rule')} at {info.get('construct')}: re-running all rules of {ns.prop}")
    prop = ns.prop.upper()

    def check_with_selftest(report, repo):
        mod.check(report, repo)
        if tier == "thorough" and not os.environ.get("USA_REPO_ROOT"):
            # checker self-validation (DESIGN.md section 6) on scratch copies of the current tree:
            # seeded violations must fire naming the construct, behaviour-preserving rewrites must stay silent
            from usa.selftest.run import run_all

            res = run_all(only={prop})
            stale = [r for r in res if r[1] == "STALE"]
            res = [r for r in res if r[1] != "STALE"]
            bad = [r for r in res if r[1] != "ok"]
            report.note("selftest_variants", len(res))
            report.note("selftest_stale_skipped", [r[0] for r in stale])  # edit anchor no longer present in the tree
            report.note("selftest_failures", [f"{r[0]}: {r[1]} {r[2]}" for r in bad])
            for r in res:
                report.add("S-selftest", f"selftest::{r[0]}", True if r[1] == "ok" else None, ("checker self-validation variant behaves as expected" if r[1] == "ok" else f"checker self-validation failed ({r[1]}): {r[2]}"), r[1], "ok", nontrivial=False)

    return run_check(prop, check_with_selftest, tier, seed)


if __name__ == "__main__":
    rc = main()
    sys.stdout.flush()
    os._exit(rc)
