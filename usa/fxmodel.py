"""Abstract model of torch.fx Graph/Node for analysing the graph rewrites.

Graphs are *abstract objects* of the interpreter (values.Obj): nothing of torch.fx is
imported or run.  The model implements the part of the fx contract the repository relies
on (trusted base, from torch/fx/graph.py and node.py):

* node.users / node.all_input_nodes are derived from args/kwargs (deep, incl. nesting);
* assigning node.args / node.kwargs re-derives them;
* graph.erase_node(n) raises RuntimeError if n still has users, else unlinks n;
* graph.call_function(...) inserts at the current insertion point
  (inserting_after(n) context), node.replace_all_uses_with / replace_input_with rewrite
  the users deeply;
* torch.fx.node.map_arg / map_aggregate apply a function to every Node in a nested
  argument structure.
"""
from __future__ import annotations

from typing import Any, Callable, Dict, Iterator, List, Optional, Tuple

from .absint import Interp, _Builtin, _term
from .values import BOTTOM, ExtV, FuncV, Obj, T, TV, Unknown

NODE = "torch.fx.node.Node"
GRAPH = "torch.fx.graph.Graph"


def is_node(x: Any) -> bool:
    return isinstance(x, Obj) and x.cls_name == NODE


def deep_nodes(a: Any) -> Iterator[Obj]:
    if is_node(a):
        yield a
    elif isinstance(a, (tuple, list)):
        for x in a:
            yield from deep_nodes(x)
    elif isinstance(a, dict):
        for x in a.values():
            yield from deep_nodes(x)
    elif isinstance(a, slice):
        for x in (a.start, a.stop, a.step):
            yield from deep_nodes(x)


def deep_map(a: Any, fn: Callable[[Obj], Any]) -> Any:
    if is_node(a):
        return fn(a)
    if isinstance(a, tuple):
        return tuple(deep_map(x, fn) for x in a)
    if isinstance(a, list):
        return [deep_map(x, fn) for x in a]
    if isinstance(a, dict):
        return {k: deep_map(v, fn) for k, v in a.items()}
    if isinstance(a, slice):
        return slice(deep_map(a.start, fn), deep_map(a.stop, fn), deep_map(a.step, fn))
    return a


class LiveNodes:
    """graph.nodes: iteration follows the live linked list like torch.fx does (nodes
    inserted after the cursor are visited, erased ones are skipped via their old link)."""

    def __init__(self, ag: "AbstractGraph"):
        self.ag = ag

    def first(self) -> Optional[Obj]:
        return self.ag.nodes[0] if self.ag.nodes else None

    def after(self, cur: Obj) -> Optional[Obj]:
        seen = set()
        while cur is not None and id(cur) not in seen:
            seen.add(id(cur))
            if any(cur is x for x in self.ag.nodes):
                i = next(i for i, x in enumerate(self.ag.nodes) if x is cur)
                return self.ag.nodes[i + 1] if i + 1 < len(self.ag.nodes) else None
            cur = cur.attrs.get("_next_at_erase")  # erased: follow the link it had
            if cur is not None and any(cur is x for x in self.ag.nodes):
                return cur
        return None

    def snapshot(self) -> List[Obj]:
        return list(self.ag.nodes)


class AbstractGraph:
    def __init__(self, it: Interp, name: str = "graph"):
        self.it = it
        self.nodes: List[Obj] = []
        self.insert_after: Optional[Obj] = None
        self.counter = 0
        self.erased: List[Obj] = []
        self.linted = 0
        g = Obj(GRAPH, term=T("param", (name,)), open_attrs=False)
        self.obj = g
        g.dyn["nodes"] = lambda: LiveNodes(self)
        g.attrs["erase_node"] = _Builtin("Graph.erase_node", lambda it2, a, k, nd: self._erase(a[0], nd))
        g.attrs["lint"] = _Builtin("Graph.lint", lambda it2, a, k, nd: self._lint(nd))
        g.attrs["call_function"] = _Builtin("Graph.call_function", lambda it2, a, k, nd: self._call_function(a, k, nd))
        g.attrs["inserting_after"] = _Builtin("Graph.inserting_after", lambda it2, a, k, nd: self._inserting(a[0] if a else k.get("n"), after=True))
        g.attrs["inserting_before"] = _Builtin("Graph.inserting_before", lambda it2, a, k, nd: self._inserting(a[0] if a else k.get("n"), after=False))
        g.attrs["eliminate_dead_code"] = _Builtin("Graph.eliminate_dead_code", lambda it2, a, k, nd: self._dce(nd))
        g.attrs["_abstract_graph"] = self

    # ---- construction
    def node(self, name: str, op: str, target: Any, args: Tuple[Any, ...] = (), kwargs: Optional[Dict[str, Any]] = None, meta: Optional[Dict[str, Any]] = None, at: Optional[int] = None) -> Obj:
        n = Obj(NODE, term=T("param", (name,)), open_attrs=False)
        n.attrs.update(name=name, op=op, target=target, meta=dict(meta or {}), graph=self.obj, type=None)
        n.attrs["_args"] = tuple(args)
        n.attrs["_kwargs"] = dict(kwargs or {})
        n.dyn["args"] = lambda n=n: n.attrs["_args"]
        n.dyn["kwargs"] = lambda n=n: n.attrs["_kwargs"]
        n.dyn["set:args"] = lambda v, n=n: n.attrs.__setitem__("_args", tuple(v) if isinstance(v, (tuple, list)) else v)
        n.dyn["set:kwargs"] = lambda v, n=n: n.attrs.__setitem__("_kwargs", dict(v) if isinstance(v, dict) else v)
        n.dyn["users"] = lambda n=n: {u: None for u in self.users_of(n)}
        n.dyn["all_input_nodes"] = lambda n=n: self.inputs_of(n)
        n.dyn["_input_nodes"] = lambda n=n: {u: None for u in self.inputs_of(n)}
        n.attrs["replace_all_uses_with"] = _Builtin("Node.replace_all_uses_with", lambda it2, a, k, nd, n=n: self._rauw(n, a[0]))
        n.attrs["replace_input_with"] = _Builtin("Node.replace_input_with", lambda it2, a, k, nd, n=n: self._riw(n, a[0], a[1]))
        if at is None:
            self.nodes.append(n)
        else:
            self.nodes.insert(at, n)
        return n

    def users_of(self, n: Obj) -> List[Obj]:
        out = []
        for u in self.nodes:
            if u is n:
                continue
            if any(x is n for x in deep_nodes(u.attrs["_args"])) or any(x is n for x in deep_nodes(u.attrs["_kwargs"])):
                out.append(u)
        return out

    def inputs_of(self, n: Obj) -> List[Obj]:
        out: List[Obj] = []
        for x in list(deep_nodes(n.attrs["_args"])) + list(deep_nodes(n.attrs["_kwargs"])):
            if not any(x is y for y in out):
                out.append(x)
        return out

    # ---- fx operations
    def _erase(self, n: Any, nd: Any) -> Any:
        if not is_node(n) or not any(n is x for x in self.nodes):
            self.it.log("raise", nd, exc="RuntimeError(erase of a node not in the graph)")
            return BOTTOM
        users = self.users_of(n)
        if users:
            self.it.log("raise", nd, exc=f"RuntimeError(Tried to erase Node {n.attrs['name']} but it still had {len(users)} users in the graph: {[u.attrs['name'] for u in users]})")
            return BOTTOM
        i = next(i for i, x in enumerate(self.nodes) if x is n)
        n.attrs["_next_at_erase"] = self.nodes[i + 1] if i + 1 < len(self.nodes) else None
        self.nodes = [x for x in self.nodes if x is not n]
        self.erased.append(n)
        self.it.log("fx-erase", nd, fxnode=n)
        return None

    def _dce(self, nd: Any) -> Any:
        """torch.fx eliminate_dead_code: drop nodes without users (placeholders / output kept), repeatedly."""
        changed = False
        for n in list(reversed(self.nodes)):
            if n.attrs["op"] in ("placeholder", "output"):
                continue
            if not self.users_of(n):
                self.nodes = [x for x in self.nodes if x is not n]
                self.erased.append(n)
                self.it.log("fx-erase", nd, fxnode=n, dce=True)
                changed = True
        return changed

    def _lint(self, nd: Any) -> Any:
        self.linted += 1
        # topological well-formedness: every input is defined earlier and is in the graph
        pos = {id(x): i for i, x in enumerate(self.nodes)}
        for i, n in enumerate(self.nodes):
            for a in self.inputs_of(n):
                if id(a) not in pos:
                    self.it.log("raise", nd, exc=f"RuntimeError(lint: {n.attrs['name']} uses erased/foreign node {a.attrs['name']})")
                    return BOTTOM
                if pos[id(a)] >= i:
                    self.it.log("raise", nd, exc=f"RuntimeError(lint: {n.attrs['name']} uses {a.attrs['name']} before its definition)")
                    return BOTTOM
        self.it.log("fx-lint", nd)
        return None

    def _inserting(self, n: Any, after: bool) -> Any:
        prev = self.insert_after
        if is_node(n) and not any(x is n for x in self.nodes):
            self.it.log("raise", None, exc=f"RuntimeError(inserting relative to erased node {n.attrs['name']})")
            return BOTTOM
        if is_node(n):
            idx = next(i for i, x in enumerate(self.nodes) if x is n)
            self.insert_after = n if after else (self.nodes[idx - 1] if idx > 0 else None)
        tok = Obj("torch.fx.graph._InsertPoint", open_attrs=False)
        tok.attrs["__exit__"] = _Builtin("_InsertPoint.__exit__", lambda it2, a, k, nd: setattr(self, "insert_after", prev))
        return tok

    def _call_function(self, a: List[Any], k: Dict[str, Any], nd: Any) -> Any:
        names = ["the_function", "args", "kwargs", "type_expr"]
        b = dict(zip(names, a))
        b.update(k)
        self.counter += 1
        tgt = b.get("the_function")
        base = getattr(tgt, "qualname", None) or (tgt.name.rsplit(".", 1)[-1] if isinstance(tgt, ExtV) else "fn")
        if self.insert_after is None:
            at = len(self.nodes)
        else:
            at = next(i for i, x in enumerate(self.nodes) if x is self.insert_after) + 1
        args = b.get("args") or ()
        kwargs = b.get("kwargs") or {}
        n = self.node(f"{base}_new{self.counter}", "call_function", tgt, tuple(args) if isinstance(args, (tuple, list)) else args, dict(kwargs) if isinstance(kwargs, dict) else kwargs, at=at)
        n.attrs["type"] = b.get("type_expr")
        self.insert_after = n if self.insert_after is not None else None
        self.it.log("fx-new", nd, fxnode=n)
        return n

    def _rauw(self, old: Obj, new: Any) -> Any:
        changed = []
        for u in self.users_of(old):
            if u is new:
                continue
            u.attrs["_args"] = deep_map(u.attrs["_args"], lambda x: new if x is old else x)
            u.attrs["_kwargs"] = deep_map(u.attrs["_kwargs"], lambda x: new if x is old else x)
            changed.append(u)
        return changed

    def _riw(self, user: Obj, old: Any, new: Any) -> Any:
        user.attrs["_args"] = deep_map(user.attrs["_args"], lambda x: new if x is old else x)
        user.attrs["_kwargs"] = deep_map(user.attrs["_kwargs"], lambda x: new if x is old else x)
        return None

    # ---- inspection for rules
    def describe(self) -> List[Tuple[str, str, str, str]]:
        def show(a: Any) -> str:
            from .values import fmt

            return fmt(deep_map(a, lambda n: T("param", (n.attrs["name"],))))

        out = []
        for n in self.nodes:
            tgt = n.attrs["target"]
            tn = tgt.name if isinstance(tgt, ExtV) else (f"{tgt.module.name}.{tgt.qualname}" if isinstance(tgt, FuncV) else str(tgt))
            out.append((n.attrs["name"], f"{n.attrs['op']}:{tn}", show(n.attrs["_args"]), show(n.attrs["_kwargs"])))
        return out


def deepcopy_model(it: Interp, v: Any, memo: Optional[Dict[int, Any]] = None) -> Any:
    """copy.deepcopy on abstract values: Objs (and their attribute graphs) are cloned,
    immutable abstract values are shared."""
    memo = {} if memo is None else memo
    if isinstance(v, Obj):
        if id(v) in memo:
            return memo[id(v)]
        if v.attrs.get("_callable") and v.cls_name == "function":
            return v  # functions are deep-copied by reference
        ag = v.attrs.get("_abstract_graph")
        if isinstance(ag, AbstractGraph):
            ng = AbstractGraph(it, name=f"copy({ag.obj.term.args[0]})")
            memo[id(v)] = ng.obj
            for n in ag.nodes:
                c = ng.node(n.attrs["name"], n.attrs["op"], n.attrs["target"])
                memo[id(n)] = c
            for n in ag.nodes:
                c = memo[id(n)]
                c.attrs["_args"] = deepcopy_model(it, n.attrs["_args"], memo)
                c.attrs["_kwargs"] = deepcopy_model(it, n.attrs["_kwargs"], memo)
                c.attrs["meta"] = deepcopy_model(it, n.attrs["meta"], memo)
                c.attrs["type"] = n.attrs.get("type")
            return ng.obj
        if v.cls_name == NODE:
            # a node is only copied as part of its graph
            g = v.attrs.get("graph")
            if isinstance(g, Obj):
                deepcopy_model(it, g, memo)
                return memo.get(id(v), v)
        hook = v.attrs.get("__deepcopy__")
        if hook is not None and not isinstance(hook, (TV, Obj)):
            # copy.deepcopy consults the instance's __deepcopy__ first
            c = it.call_function(hook, [memo], {})
            memo[id(v)] = c
            return c
        c = Obj(v.cls_name, cls=v.cls, term=T("copy", (_term(v),)) if v.term is not None else None, open_attrs=v.open_attrs)
        memo[id(v)] = c
        for k, x in v.attrs.items():
            c.attrs[k] = deepcopy_model(it, x, memo)
        return c
    if isinstance(v, TV) and v.kind == "tensor":
        if id(v) in memo:
            return memo[id(v)]
        c = TV(T("copy", (v.term,)), shape=v.shape, dtype=v.dtype, alias=frozenset("copy:" + a for a in v.alias), const=v.const)
        memo[id(v)] = c
        return c
    if isinstance(v, tuple):
        return tuple(deepcopy_model(it, x, memo) for x in v)
    if isinstance(v, list):
        if id(v) in memo:
            return memo[id(v)]
        out: List[Any] = []
        memo[id(v)] = out
        out.extend(deepcopy_model(it, x, memo) for x in v)
        return out
    if isinstance(v, dict):
        if id(v) in memo:
            return memo[id(v)]
        d: Dict[Any, Any] = {}
        memo[id(v)] = d
        for k, x in v.items():
            d[deepcopy_model(it, k, memo) if isinstance(k, Obj) else k] = deepcopy_model(it, x, memo)
        return d
    return v
