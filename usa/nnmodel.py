"""Abstract model of torch.nn container modules (Sequential / ModuleList): `_modules` is
an ordered name -> module dict with keys "0", "1", ...; len() counts entries (duplicates
included); children() / named_parameters() de-duplicate by identity, as torch does."""
from __future__ import annotations

from typing import Any, Dict, List

from .values import Obj


def populate_container(selfv: Obj, modules: List[Any]) -> None:
    selfv.attrs["_modules"] = {str(i): m for i, m in enumerate(modules)}


def container_super_hook(base_kind: str):
    """super().__init__ of nn.Sequential(*mods) / nn.ModuleList(iterable)."""

    def hook(it: Any, selfv: Any, cls: Any, meth: str, args: List[Any], kwargs: Dict[str, Any]):
        if meth == "forward" and base_kind == "Sequential" and isinstance(selfv, Obj) and isinstance(selfv.attrs.get("_modules"), dict) and len(args) == 1 and not kwargs:
            # nn.Sequential.forward: every entry applied in order, each to the previous result
            x = args[0]
            for m in selfv.attrs["_modules"].values():
                x = it.call_function(m, [x], {})
            return x
        if meth != "__init__" or not isinstance(selfv, Obj):
            return NotImplemented
        if base_kind == "Sequential":
            mods = list(args)
            if len(mods) == 1 and isinstance(mods[0], dict):
                selfv.attrs["_modules"] = dict(mods[0])
                return None
        else:
            seq = it.concrete_iter(args[0]) if args else []
            if seq is None:
                return NotImplemented
            mods = list(seq)
        populate_container(selfv, mods)
        return None

    return hook


def children(o: Obj) -> List[Any]:
    out: List[Any] = []
    for m in o.attrs.get("_modules", {}).values():
        if not any(m is x for x in out):
            out.append(m)
    return out


def named_parameters(o: Obj, prefix: str = "") -> List[Any]:
    out: List[Any] = []
    seen: List[Any] = []

    def rec(m: Any, pre: str) -> None:
        if not isinstance(m, Obj):
            return
        for nm, p in m.attrs.get("_params", []):
            if not any(p is x for x in seen):
                seen.append(p)
                out.append((f"{pre}{nm}", p))
        done: List[Any] = []
        for k, ch in m.attrs.get("_modules", {}).items():
            if any(ch is x for x in done):
                continue
            done.append(ch)
            rec(ch, f"{pre}{k}.")

    rec(o, prefix)
    return out
