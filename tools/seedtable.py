#!/venv/bin/python
"""Render the detection matrix of /verif/seeded/*/meta.json as a markdown table."""
import glob
import json

rows = []
for mf in sorted(glob.glob("/verif/seeded/*/meta.json")):
    m = json.load(open(mf))
    first = m.get("first_run_before_strengthening") or {}
    rules = []
    for p, line in sorted(m.get("detected_by", {}).items()):
        r = line.split(" at ")[0].replace("violated ", "") if " at " in line else "?"
        rules.append(f"{p}:{r}")
    summ = (m.get("summary") or "").replace("|", "/").replace("\n", " ")
    rows.append((m["id"], summ[:150] + ("…" if len(summ) > 150 else ""), ", ".join(first.get("detected_by", [])) or ("undecided: " + ",".join(first.get("undecided_in", [])) if first.get("undecided_in") else "missed"), ", ".join(rules)))
print("| seed | change (sub-agent's own summary, truncated) | first run (before strengthening) | caught now by (property:rule) |")
print("|---|---|---|---|")
for r in rows:
    print("| " + " | ".join(r) + " |")
