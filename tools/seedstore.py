#!/venv/bin/python
"""Store confirmed seeded changes under /verif/seeded/<id>/ (patch.diff, demo.py, meta.json).
Input: results.json written by tools/seedeval.py --tests."""
import json
import shutil
import sys
from pathlib import Path

VERIF = Path(__file__).resolve().parent.parent
res = json.loads(Path(sys.argv[1] if len(sys.argv) > 1 else "/tmp/seedeval/results.json").read_text())
for r in res:
    sid = r["id"]
    ok = r.get("applies") and r.get("compiles") and r.get("demo_clean") == 0 and r.get("demo_changed") not in (0, None) and r.get("tests_rc") == 0
    if not ok:
        print(f"SKIP {sid}: not confirmed: applies={r.get('applies')} demo={r.get('demo_clean')}/{r.get('demo_changed')} tests={r.get('tests_passed')} rc={r.get('tests_rc')} {r.get('tests_tail','')}")
        continue
    d = VERIF / "seeded" / sid
    d.mkdir(parents=True, exist_ok=True)
    shutil.copy(r["diff"], d / "patch.diff")
    shutil.copy(r["demo"], d / "demo.py")
    meta_src = Path(r["diff"]).parent / Path(r["diff"]).name.replace("change", "meta").replace(".diff", ".json")
    try:
        agent_meta = json.loads(meta_src.read_text())
    except Exception:
        agent_meta = {}
    fired = r.get("fired", {})
    meta = {
        "id": sid,
        "property": sid.split("-")[0],
        "origin": "independent sub-agent given only the property text and its own scratch worktree of /repo",
        "summary": agent_meta.get("summary", ""),
        "needs_to_manifest": agent_meta.get("needs_to_manifest", ""),
        "files_changed": agent_meta.get("files_changed", []),
        "confirmed_by_me": {
            "how": "tools/seedeval.py --tests: git-archive of /repo HEAD into a scratch dir, patch applied, demo run on clean and changed copy, repository test-suite (minus the network-only test_analysis.py) on the changed copy, every quick check with USA_REPO_ROOT=<changed copy>",
            "patch_applies_and_compiles": True,
            "demo_exit_on_clean_tree": r.get("demo_clean"),
            "demo_exit_on_changed_tree": r.get("demo_changed"),
            "demo_last_line_changed": r.get("demo_changed_tail", ""),
            "existing_tests_passed_on_changed_tree": r.get("tests_passed"),
        },
        "detected_by": {p: v["first"] for p, v in fired.items() if v["rc"] == 1},
        "undecided_in": {p: v["first"] for p, v in fired.items() if v["rc"] == 2},
        "target_property_detects": sid.split("-")[0] in [p for p, v in fired.items() if v["rc"] == 1],
    }
    (d / "meta.json").write_text(json.dumps(meta, indent=1))
    print(f"STORED {sid}: detected_by={sorted(meta['detected_by'])} target={meta['target_property_detects']}")
