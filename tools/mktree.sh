#!/bin/sh
# usage: tools/mktree.sh <diff> <dir>  -- scratch copy of /repo HEAD with <diff> applied (outside /repo and /verif)
set -e
rm -rf "$2"; mkdir -p "$2"
git -C /repo archive HEAD | tar -x -C "$2"
cd "$2" && (git apply --whitespace=nowarn "$1" 2>/dev/null || patch -s -p1 -i "$1")
