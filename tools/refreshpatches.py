#!/venv/bin/python
"""Refresh the context of stored patches after /repo moved on: a patch that no longer applies with
`git apply` but still applies with `patch -p1` (fuzz / offsets only: same change, stale context lines) is
re-generated as `git diff` against the current HEAD.  Patches that need a real re-base are only listed."""
import shutil
import subprocess
import sys
import tempfile
from pathlib import Path

VERIF = Path(__file__).resolve().parent.parent
n_ok = n_ref = 0
for d in sorted(list((VERIF / "seeded").iterdir()) + list((VERIF / "refactors").iterdir())):
    p = d / "patch.diff"
    if not p.exists():
        continue
    tmp = Path(tempfile.mkdtemp(prefix="usa-refresh-"))
    try:
        subprocess.run(f"git -C /repo archive HEAD | tar -x -C {tmp}", shell=True, check=True)
        subprocess.run(["git", "init", "-q"], cwd=tmp, check=True)
        subprocess.run("git add -A && git -c user.email=a@b -c user.name=x commit -qm base", shell=True, cwd=tmp, check=True)
        if subprocess.run(["git", "apply", "--check", "--whitespace=nowarn", str(p)], cwd=tmp, capture_output=True).returncode == 0:
            n_ok += 1
            continue
        r = subprocess.run(["patch", "-s", "-p1", "--no-backup-if-mismatch", "-i", str(p)], cwd=tmp, capture_output=True, text=True)
        if r.returncode != 0:
            print("NEEDS REBASE", d.name)
            continue
        for junk in tmp.rglob("*.orig"):
            junk.unlink()
        subprocess.run(["git", "add", "-A"], cwd=tmp, check=True)
        diff = subprocess.run(["git", "diff", "--cached"], cwd=tmp, capture_output=True, text=True).stdout
        if not diff.strip():
            print("EMPTY after refresh", d.name)
            continue
        p.write_text(diff)
        n_ref += 1
        print("refreshed", d.name)
    finally:
        shutil.rmtree(tmp, ignore_errors=True)
print(n_ok, "apply as they are;", n_ref, "refreshed")
