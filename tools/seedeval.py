#!/venv/bin/python
"""Evaluate independently produced seeded changes against the checks.

For every <dir>/changeN.diff (+ demoN.py, metaN.json) under the given seed directories:
  1. copy /repo's HEAD tree to a scratch dir, apply the diff (must apply and compile);
  2. run demoN.py on the clean copy (must exit 0) and on the changed copy (must exit != 0);
  3. optionally run the repository test-suite on the changed copy (--tests);
  4. run every quick check with USA_REPO_ROOT=<changed copy>; record exit codes and rules.
Prints one line per change and writes <out>/results.json.  Scratch dirs are removed.
"""
from __future__ import annotations

import argparse
import json
import os
import re
import shutil
import subprocess
import sys
import tempfile
from concurrent.futures import ThreadPoolExecutor
from pathlib import Path

VERIF = Path(__file__).resolve().parent.parent
PROPS = [f"C{i:02d}" for i in range(1, 20)]
PY = "/venv/bin/python"


def sh(cmd, cwd=None, env=None, timeout=1800):
    try:
        r = subprocess.run(cmd, cwd=cwd, env=env, capture_output=True, text=True, timeout=timeout)
    except subprocess.TimeoutExpired:
        return 2, f"ANALYSIS-ERROR timed out after {timeout}s (undecided)"
    return r.returncode, r.stdout + r.stderr


def make_tree(dst: Path):
    dst.mkdir(parents=True, exist_ok=True)
    rc, out = sh(["git", "-C", "/repo", "archive", "HEAD"], timeout=120) if False else (0, "")
    p = subprocess.Popen(["git", "-C", "/repo", "archive", "HEAD"], stdout=subprocess.PIPE)
    subprocess.run(["tar", "-x", "-C", str(dst)], stdin=p.stdout, check=True)
    p.wait()


def evaluate(diff: Path, run_tests: bool, props):
    diff = diff.resolve()
    if diff.name == "patch.diff":  # layout of /verif/seeded/<id>/
        sid = diff.parent.name
        demo = diff.parent / "demo.py"
    else:
        mm = re.match(r"seed(\d*)-(.*)$", diff.parent.name)
        n = int(mm.group(1) or 1) if mm else 1
        rnd = "" if n <= 1 else ("r2-" if n in (2, 3) else f"r{n - 1}-")
        base = mm.group(2) if mm else diff.parent.name
        sid = f"{base}-{rnd}{diff.stem.replace('change', '').replace('refactor', 'r')}"
        demo = diff.parent / diff.name.replace("change", "demo").replace(".diff", ".py")
    tmp = Path(tempfile.mkdtemp(prefix="usa-seed-"))
    res = {"id": sid, "diff": str(diff), "demo": str(demo)}
    try:
        clean, changed = tmp / "clean", tmp / "changed"
        make_tree(clean)
        make_tree(changed)
        subprocess.run(["git", "init", "-q"], cwd=changed)
        rc, out = sh(["git", "apply", "--whitespace=nowarn", str(diff)], cwd=changed)
        if rc != 0:
            rc, out = sh(["patch", "-p1", "-i", str(diff)], cwd=changed)
        res["applies"] = rc == 0
        if rc != 0:
            res["error"] = out[-300:]
            return res
        rc, out = sh([PY, "-m", "compileall", "-q", "unit_scaling"], cwd=changed)
        res["compiles"] = rc == 0
        if demo.exists():
            for label, tree in (("clean", clean), ("changed", changed)):
                env = dict(os.environ, PYTHONPATH=str(tree))
                try:
                    rc, out = sh([PY, str(demo)], cwd=tree, env=env, timeout=600)
                except subprocess.TimeoutExpired:
                    rc, out = 124, "timeout"
                res[f"demo_{label}"] = rc
                res[f"demo_{label}_tail"] = out.strip().splitlines()[-1][:200] if out.strip() else ""
        if run_tests:
            env = dict(os.environ, PYTHONPATH=str(changed))
            rc, out = sh([PY, "-m", "pytest", "-q", "-p", "no:cacheprovider", "--timeout=900", "unit_scaling/tests", "--deselect", "unit_scaling/tests/test_analysis.py", "-x", "-q"], cwd=changed, env=env, timeout=3000)
            m = re.search(r"(\d+) passed", out)
            res["tests_rc"] = rc
            res["tests_passed"] = int(m.group(1)) if m else None
            res["tests_tail"] = out.strip().splitlines()[-1][:200] if out.strip() else ""
        fired = {}
        for p in props:
            env = dict(os.environ, USA_REPO_ROOT=str(changed), USA_EVIDENCE_DIR=str(tmp / "ev"))
            rc, out = sh([PY, str(VERIF / "usa" / "check.py"), p, "--tier", "quick"], cwd=str(VERIF), env=env, timeout=600)
            if rc != 0:
                lines = [l.strip() for l in out.splitlines() if l.strip().startswith(("violated", "ANALYSIS-ERROR"))]
                fired[p] = {"rc": rc, "first": lines[0][:400] if lines else out[-300:]}
        res["fired"] = fired
        return res
    finally:
        shutil.rmtree(tmp, ignore_errors=True)


def main() -> int:
    ap = argparse.ArgumentParser()
    ap.add_argument("dirs", nargs="+")
    ap.add_argument("--tests", action="store_true")
    ap.add_argument("--jobs", type=int, default=6)
    ap.add_argument("--props", default="")
    ap.add_argument("--out", default="/tmp/seedeval")
    ns = ap.parse_args()
    props = [p for p in ns.props.split(",") if p] or PROPS
    diffs = []
    for d in ns.dirs:
        diffs += sorted(Path(d).glob("change*.diff")) + sorted(Path(d).glob("refactor*.diff")) + sorted(Path(d).glob("patch.diff")) + sorted(Path(d).glob("*/patch.diff"))
    with ThreadPoolExecutor(ns.jobs) as ex:
        results = list(ex.map(lambda d: evaluate(d, ns.tests, props), diffs))
    Path(ns.out).mkdir(parents=True, exist_ok=True)
    (Path(ns.out) / "results.json").write_text(json.dumps(results, indent=1))
    for r in results:
        target = r["id"].split("-")[0]
        f = r.get("fired", {})
        hit = [p for p, v in f.items() if v["rc"] == 1]
        err = [p for p, v in f.items() if v["rc"] == 2]
        print(f"{r['id']:10} applies={r.get('applies')} demo clean/changed={r.get('demo_clean')}/{r.get('demo_changed')} tests={r.get('tests_passed')} DETECTED_BY={hit} UNDECIDED={err} target_hit={target in hit}")
    return 0


if __name__ == "__main__":
    sys.exit(main())
