#!/venv/bin/python
"""Store confirmed behaviour-preserving refactorings under /verif/refactors/<id>/.

usage: tools/refstore.py <results.json from `seedeval.py --tests` over refactor dirs> <id-prefix>
A refactoring is stored only if its diff applied, compiled and the repository's test-suite passed on
the refactored tree (tests_rc == 0).  What the checks said is recorded, not required: the corpus is the
must-stay-silent regression set, a check that fires on one of them is a false alarm to be fixed."""
from __future__ import annotations

import json
import shutil
import sys
from pathlib import Path

VERIF = Path(__file__).resolve().parent.parent


def main() -> int:
    res = json.load(open(sys.argv[1]))
    prefix = sys.argv[2]
    n = 0
    for r in res:
        if not (r.get("applies") and r.get("compiles") and r.get("tests_rc") == 0):
            print("skip", r["id"], "(not confirmed)")
            continue
        diff = Path(r["diff"])
        letter = diff.parent.name.split("-")[-1]
        num = diff.stem.replace("refactor", "")
        rid = f"{prefix}{letter}{num}"
        dst = VERIF / "refactors" / rid
        dst.mkdir(parents=True, exist_ok=True)
        shutil.copy(diff, dst / "patch.diff")
        meta_src = diff.parent / f"meta{num}.json"
        m = json.load(open(meta_src)) if meta_src.exists() else {}
        meta = {
            "id": rid,
            "origin": "independent sub-agent asked for a behaviour-preserving refactoring in an idiomatic-Python style of its choice (it saw nothing of /verif); it checked bit-identical behaviour with its own equivalence script",
            "files_changed": m.get("files_changed", []),
            "summary": m.get("summary", ""),
            "confirmed_by_me": {"how": "tools/seedeval.py --tests: patch applied to a git-archive of /repo HEAD, compiled, repository test-suite (minus the network-only test_analysis.py) run on the refactored tree", "tests_rc": r.get("tests_rc"), "tests_tail": r.get("tests_tail", "")[-200:]},
            "first_run_before_corrections": r.get("first_run"),
            "expected": "every check exits 0 on the refactored tree",
        }
        (dst / "meta.json").write_text(json.dumps(meta, indent=1))
        n += 1
        print("stored", rid)
    print(n, "stored")
    return 0


if __name__ == "__main__":
    sys.exit(main())
