import json,sys
sys.path.insert(0,'/verif')
from usa.manifest_data import CHECKS, NOT_APPLICABLE
m={"version":1,
 "setup_cmd":"/venv/bin/python -m compileall -q usa && /venv/bin/python -c 'import sympy'",
 "hooks":{"guard":"UNIT_SCALING_VERIF","enable":"none needed: the checks read /repo's source and never execute it","baseline_off_cmd":"cd /repo && /venv/bin/python -m pytest -ra -q -p no:cacheprovider --timeout=900 --continue-on-collection-errors","source_commits":[],"add_only":True},
 "engines":[{"name":"usa","path":"usa/","serves_properties":[c["property_id"] for c in CHECKS],"kind_free_text":"repository-specific static analyser: ast-based abstract interpretation (symbolic constant propagation with gated joins, term/ownership/dtype domains), CFG/def-use rules, frozen oracle tables"}],
 "checks":CHECKS,"not_applicable":NOT_APPLICABLE,
 "notes":"All checks are static: they parse /repo's working tree on every run (USA_REPO_ROOT overrides the root for self-validation on scratch copies) and never import or execute unit_scaling. Exit 0 holds / 1 VIOLATION / 2 ANALYSIS-ERROR."}
json.dump(m,open('/verif/MANIFEST.json','w'),indent=1)
try:
    import jsonschema
except ImportError:
    jsonschema = None
if jsonschema: jsonschema.validate(m,json.load(open('/root/.vp/MANIFEST.schema.json')))
print('manifest ok',len(CHECKS),'checks',len(NOT_APPLICABLE),'n/a')
