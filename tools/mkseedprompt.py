#!/venv/bin/python
"""Write the prompt for an independent 'seeded defect' sub-agent.

usage: tools/mkseedprompt.py <property id> <worktree dir> <deliverable dir>  > prompt.txt

The prompt contains ONLY: the text of the property (from properties.jsonl), the location of the agent's
own scratch worktree, and one-line summaries of the changes already collected for that property (so that
the agent looks for different mechanisms).  Nothing about the checks, rules or /verif's machinery."""
from __future__ import annotations

import json
import sys
from pathlib import Path

VERIF = Path(__file__).resolve().parent.parent


def main() -> int:
    pid, wt, out = sys.argv[1], sys.argv[2], sys.argv[3]
    prop = next(json.loads(l) for l in open(VERIF / "properties.jsonl") if json.loads(l)["id"] == pid)
    known = []
    for d in sorted((VERIF / "seeded").glob(f"{pid}-*")):
        try:
            m = json.load(open(d / "meta.json"))
            known.append("  - " + m.get("summary", "")[:330].replace("\n", " "))
        except Exception:
            pass
    anchors = ", ".join(prop.get("anchors", {}).get("files", []))
    q = prop.get("quantifier", {}).get("text", "")
    txt = f"""You are helping test the robustness of a verification effort for the open-source Python library `unit_scaling` (graphcore-research/unit-scaling: unit-scaled PyTorch ops/modules, u-muP optimizers, FP8 format simulation, TorchDynamo/FX graph transforms).

You have your OWN scratch git worktree of the repository at: {wt}
Work ONLY inside {wt} and write your deliverables ONLY into {out}. Never touch /repo or /verif (do not read /verif either). Python to use: /venv/bin/python. IMPORTANT: the package is installed in editable mode from another directory, so ALWAYS run Python with the environment variable PYTHONPATH={wt} and with the current directory {wt} so that `import unit_scaling` resolves to YOUR worktree (check once with: cd {wt} && PYTHONPATH={wt} /venv/bin/python -c "import unit_scaling; print(unit_scaling.__file__)"). There is no network.

Here is a semantic property the library is supposed to satisfy:

-----
{pid}: {prop['title']}

STATEMENT: {prop['statement']}

QUANTIFIER: {q}

WHY EXISTING TESTS CANNOT SETTLE IT: {prop.get('why_tests_cant', '')}

ANCHOR FILES: {anchors}

-----

NEVER use `git stash` (it is shared between worktrees): use `git diff > file`, `git checkout -- .`, `git apply file`.

ALREADY KNOWN seeded defects for this property (do NOT repeat these or close variants of them; find genuinely different mechanisms, different functions, different kinds of triggering input -- think about rarely used options, unusual ranks/dtypes, multi-step histories, interactions between two functions, error paths, and boundary values):
{chr(10).join(known) if known else '  (none yet)'}

YOUR TASK: produce 3 DIFFERENT, independent source changes ("seeded defects") to the library code under {wt}/unit_scaling (NOT to the tests), each of which:
  1. BREAKS the property above (some input / configuration / history / graph now violates the statement), and
  2. still imports/compiles, and still PASSES the existing test-suite (run the relevant test files, and at least once the full suite for your final candidates: cd {wt} && PYTHONPATH={wt} /venv/bin/python -m pytest -q -p no:cacheprovider --timeout=900 unit_scaling/tests --deselect unit_scaling/tests/test_analysis.py  -- the four tests in test_analysis.py that need network access fail anyway and can be ignored; the full run takes ~4 minutes), and
  3. is REALISTIC and SUBTLE: the kind of mistake or "harmless-looking refactor/optimisation" a developer could commit. It should need something specific to manifest -- an unusual input shape/rank/dtype, a particular hyper-parameter value or option combination, a multi-step sequence of operations (e.g. copy of a copy), a particular graph shape, or two cooperating sites that each look fine alone -- NOT something ordinary use would expose at once. Prefer changes that do not crash but silently give wrong numbers/wrong structure. Make the 3 changes genuinely different from each other (different functions / different mechanisms).
  4. comes with a small DEMONSTRATION program that exits with status 0 on the ORIGINAL code and with a non-zero status (assertion failure) on the CHANGED code, and which shows the property being violated (compare against PyTorch reference behaviour / closed form / the documented recipe, as appropriate).

DELIVERABLES, for i = 1..3, written into {out}:
  - {out}/change<i>.diff : the output of `git -C {wt} diff` for change i alone (relative to the untouched worktree HEAD). Make each change on a clean tree: after saving the diff run `git -C {wt} checkout -- .` before starting the next one.
  - {out}/demo<i>.py : the demonstration (run as: cd {wt} && PYTHONPATH={wt} /venv/bin/python {out}/demo<i>.py ; exit 0 = property holds, non-zero = violated). Keep it deterministic (fixed seeds) and fast (< 60 s).
  - {out}/meta<i>.json : {{"property": "{pid}", "summary": "...what was changed and why it looks innocent...", "needs_to_manifest": "...the specific input/sequence/graph needed...", "files_changed": [...], "tests_run": "...what you ran and the result...", "demo_result_original": "exit 0", "demo_result_changed": "exit N / message"}}
Verify every claim yourself before writing it down: apply the diff to a clean tree (`git -C {wt} apply {out}/change<i>.diff`), run the demo (must fail), run the tests (must pass), then `git -C {wt} checkout -- .` and run the demo again (must pass). Leave the worktree CLEAN (no uncommitted changes) when you finish. Your final message should list the changes in one line each.

ALSO (valuable): while exploring, if you find an input / configuration / history for which the UNTOUCHED code already violates the property above (crashes included, when the statement or its quantifier covers that input), write a minimal reproducer to {out}/preexisting<k>.py (exit 0 = property holds, non-zero = violated; it must FAIL on the untouched worktree) and describe it in one or two lines at the end of your final message. Do not spend more than about a fifth of your effort on this.
"""
    sys.stdout.write(txt)
    return 0


if __name__ == "__main__":
    sys.exit(main())
